"""kvc.run -- path enumeration driver, symbolic input declarations, heap helpers for contracts."""
import time, traceback
from fractions import Fraction
import z3
from . import sym, arr
from .sym import SV, Ctx, Unsupported, PyRaise, PathEnd, Infeasible, Obligation, zterm, zbool, model_value
from .arr import Arr, ArrBase, View, NP
from .interp import Interp, Obj, Cls, Func, BoundMethod


class ScalarDecl(object):
    def __init__(self, name, sv):
        self.name, self.sv = name, sv

    def concretise(self, model):
        v = model_value(model, self.sv)
        return _j(v)


class ArrayDecl(object):
    def __init__(self, name, shape, F, dtype):
        self.name, self.shape, self.F, self.dtype = name, shape, F, dtype

    def concretise(self, model):
        shape = [model_value(model, d) for d in self.shape]
        shape = [int(s) for s in shape]
        tot = 1
        for s in shape:
            tot *= max(s, 0)
        if tot > 4000 or any(s < 0 for s in shape):
            return dict(shape=shape, data='too large / negative')
        import itertools
        data = {}

        def rec(prefix, k):
            if k == len(shape):
                v = model.eval(self.F(*[z3.IntVal(i) for i in prefix]), model_completion=True)
                n = sym._num(v)
                if n is None and z3.is_algebraic_value(v):
                    a = v.approx(20)
                    n = Fraction(a.numerator_as_long(), a.denominator_as_long())
                return _j(n)
            return [rec(prefix + [i], k + 1) for i in range(shape[k])]
        return dict(shape=shape, data=rec([], 0))


def _j(v):
    if isinstance(v, bool):
        return v
    if isinstance(v, int):
        return v
    if isinstance(v, Fraction):
        if v.denominator == 1:
            return int(v)
        return {'frac': '%d/%d' % (v.numerator, v.denominator), 'float': float(v)}
    return str(v)


def unj(v):
    """inverse of _j for replay drivers -> float/int/bool/nested lists"""
    if isinstance(v, dict) and 'frac' in v:
        return v['float']
    if isinstance(v, dict) and 'data' in v:
        return unj(v['data'])
    if isinstance(v, list):
        return [unj(x) for x in v]
    return v


class Run(object):
    """explores all paths of `fn(ctx)`; collects obligations"""

    def __init__(self, name, fn, timeout_ms=None, config_name='', max_paths=600):
        self.name, self.fn = name, fn
        self.timeout_ms = timeout_ms or sym.SOLVER_TIMEOUT_MS
        self.config_name = config_name
        self.max_paths = max_paths
        self.worklist = [[]]
        self.obligations = []
        self.paths = 0
        self.infeasible = 0
        self.status = 'ok'           # ok | unsupported | error
        self.detail = ''
        self.trace = []
        self.seconds = 0.0

    def record(self, ob):
        ob.contract = self.name
        self.obligations.append(ob)

    def execute(self):
        t0 = time.time()
        while self.worklist:
            decisions = self.worklist.pop()
            self.paths += 1
            if self.paths > self.max_paths:
                self.status, self.detail = 'unsupported', 'path explosion (> %d paths)' % self.max_paths
                break
            ctx = Ctx(self, decisions)
            sym._CTX[0] = ctx
            try:
                self.fn(ctx)
            except Infeasible:
                self.infeasible += 1
            except PathEnd:
                pass
            except PyRaise as e:
                # an exception escaping the contracted call that the contract did not allow
                path = ''.join('T' if d else 'F' for d in ctx.decisions[:ctx.pos])
                model = None
                try:
                    s = z3.Solver()
                    s.set('timeout', 5000)
                    for h in ctx.hyps():
                        s.add(h)
                    if s.check() == z3.sat:
                        model = ctx.concretise(s.model())
                    elif s.check() == z3.unsat:
                        self.infeasible += 1
                        continue
                except Exception:
                    pass
                ob = Obligation('no-exception', 'crash-freedom', 'refuted', 0.0, 'executor', path, model,
                                '%s: %s' % (e.etype, e.msg), e.where)
                ob.expect = None
                ob.config = self.config_name
                self.record(ob)
            except Unsupported as e:
                self.status, self.detail = 'unsupported', str(e)
                break
            except Exception as e:
                self.status, self.detail = 'error', traceback.format_exc()
                break
            finally:
                for t in ctx.trace:
                    if t not in self.trace:
                        self.trace.append(t)
                sym._CTX[0] = None
        self.seconds = time.time() - t0
        return self


# ------------------------------------------------------------------------------------------------
# symbolic inputs
# ------------------------------------------------------------------------------------------------
def _from_model(ctx, name, default=0):
    v = ctx.model.get(name, default)
    if isinstance(v, dict) and 'frac' in v:
        n, d = v['frac'].split('/')
        return Fraction(int(n), int(d))
    return v


def _model_array(ctx, name, shape, dtype):
    m = ctx.model.get(name)
    if not isinstance(m, dict) or not isinstance(m.get('data'), list):
        from .replay import _Skip
        raise _Skip('no model data for array %s' % name)

    def conv(x):
        if isinstance(x, list):
            return [conv(y) for y in x]
        if isinstance(x, dict) and 'frac' in x:
            n, d = x['frac'].split('/')
            return Fraction(int(n), int(d))
        return x
    data = conv(m['data'])
    shp = tuple(m['shape'])

    def fn(*idx):
        d = data
        for i in idx:
            i = int(sym._generic(i))
            if i < 0 or i >= len(d):
                return 0          # out-of-range reads only occur under a guard in contract clauses
            d = d[i]
        return d
    return Arr(shp, fn, dtype, name=name)


class FPDecl(object):
    """IEEE double input: the model value is stored as the exact decimal repr of the double"""
    def __init__(self, name, fpv):
        self.name, self.fpv = name, fpv

    def concretise(self, model):
        v = model.eval(self.fpv.t, model_completion=True)
        if z3.is_fprm_value(v) or not z3.is_fp_value(v):
            return {'fp64': 'nan'}
        if v.isNaN():
            return {'fp64': 'nan'}
        if v.isInf():
            return {'fp64': '-inf' if v.isNegative() else 'inf'}
        sig, exp = v.significand_as_long(), v.exponent_as_long(biased=False)
        import math
        x = math.ldexp(float((1 << 52) + sig if not v.isSubnormal() else sig), (exp if not v.isSubnormal() else -1022) - 52)
        if v.isNegative():
            x = -x
        return {'fp64': repr(x)}


def fp64(ctx, name):
    """an arbitrary IEEE-754 double (any bit pattern); in a replay the python float of the model"""
    if getattr(ctx, 'replay', False):
        m = ctx.model.get(name)
        return float(m['fp64']) if isinstance(m, dict) and 'fp64' in m else 0.0
    v = sym.FPV(z3.FP(name, sym.FP64))
    ctx.inputs.append(FPDecl(name, v))
    return v


def real(ctx, name, *facts):
    if getattr(ctx, 'replay', False):
        v = _from_model(ctx, name)
        for f in facts:
            ctx.assume(f(v))
        return v
    v = SV(z3.Real(name))
    ctx.inputs.append(ScalarDecl(name, v))
    for f in facts:
        ctx.assume(f(v))
    return v


def integer(ctx, name, *facts):
    if getattr(ctx, 'replay', False):
        v = _from_model(ctx, name)
        for f in facts:
            ctx.assume(f(v))
        return v
    v = SV(z3.Int(name))
    ctx.inputs.append(ScalarDecl(name, v))
    for f in facts:
        ctx.assume(f(v))
    return v


def boolean(ctx, name):
    if getattr(ctx, 'replay', False):
        return bool(_from_model(ctx, name, False))
    v = SV(z3.Bool(name))
    ctx.inputs.append(ScalarDecl(name, v))
    return v


def array(ctx, name, shape, dtype='real', fact=None):
    """uninterpreted input array; `fact(value, *idx)` is assumed at every index at which the array is read"""
    shape = tuple(shape)
    if getattr(ctx, 'replay', False):
        return _model_array(ctx, name, shape, dtype)
    rs = {'real': sym.R, 'int': sym.I, 'bool': sym.B}[dtype]
    F = z3.Function(name, *([sym.I] * len(shape) + [rs]))
    ctx.inputs.append(ArrayDecl(name, shape, F, dtype))

    def fn(*idx):
        v = SV(F(*[zterm(sym._generic(i)) for i in idx]))
        if fact is not None:
            inb = sym.and_(*[sym.and_(sym.cmp('>=', i, 0), sym.cmp('<', i, d)) for i, d in zip(idx, shape)])
            sym.CTX().assume(sym.implies(inb, fact(v, *idx)))
        return v
    return Arr(shape, fn, dtype, name=name)


class FuncDecl(object):
    """uninterpreted real function input (an unknown backend function): a counter-model is written down as the table of the applications made on the path"""
    def __init__(self, name):
        self.name, self.apps = name, []

    def concretise(self, model):
        rows = []
        for args, v in self.apps:
            try:
                rows.append([_j(model_value(model, a)) for a in args] + [_j(model_value(model, v))])
            except Exception:
                continue
        return dict(table=rows)


def ufunc(ctx, name, nargs, fact=None):
    """an arbitrary function of `nargs` real arguments (e.g. a quantity returned by the thermodynamics backend); `fact(value, *args)` is assumed at every
    application.  In a replay: the table of the counter-model (nearest recorded argument tuple; 1/2 where the model says nothing)"""
    if getattr(ctx, 'replay', False):
        m = ctx.model.get(name)
        def cv(x):
            if isinstance(x, dict) and 'frac' in x:
                n, d = x['frac'].split('/')
                return Fraction(int(n), int(d))
            return x
        rows = [[cv(x) for x in r] for r in (m.get('table', []) if isinstance(m, dict) else [])]

        def g(*a):
            a = [float(sym._generic(x)) for x in a]
            best, bd = Fraction(1, 2), None
            for r in rows:
                d = sum(abs(float(p) - q) / (abs(q) + 1e-300) for p, q in zip(r[:-1], a))
                if bd is None or d < bd:
                    best, bd = r[-1], d
            return best
        return g
    F = z3.Function(name, *([sym.R] * (nargs + 1)))
    decl = FuncDecl(name)
    ctx.inputs.append(decl)

    def f(*a):
        v = SV(F(*[zterm(x, True) for x in a]))
        decl.apps.append((a, v))
        if fact is not None:
            ctx.assume(fact(v, *a))
        return v
    return f


def new_obj(interp, dotted, clsname, **fields):
    cls = interp.get(dotted, clsname)
    o = Obj(cls)
    o.fields.update(fields)
    o._schema = True
    return o


# ------------------------------------------------------------------------------------------------
# heap snapshots and frame conditions
# ------------------------------------------------------------------------------------------------
class Snap(object):
    def __init__(self, value):
        self.value = value
        if isinstance(value, Arr):
            self.fn, self.shape, self.version = value.snap(), value.shape, value.version
        elif isinstance(value, View):
            self.fn, self.shape, self.version = value.snap(), value.shape, value.base.version
        elif isinstance(value, list):
            self.items = [Snap(v) for v in value]
        elif isinstance(value, dict):
            self.items = {k: Snap(v) for k, v in value.items()}


def snapshot(o):
    """snapshot of an object's fields (one level + arrays + lists)"""
    if isinstance(o, Obj):
        return {k: Snap(v) for k, v in o.fields.items()}
    return Snap(o)


def unchanged(ctx, name, snap, now):
    """obligations: `now` equals the snapshot (same object/identical element function, else pointwise)"""
    ok = True
    v = snap.value
    if isinstance(v, (Arr, View)):
        if now is not v:
            if not isinstance(now, ArrBase):
                ctx.prove(name + '/unchanged', False, kind='frame')
                return False
            # replaced by another array: compare contents
        cur = now.snap()
        if cur is snap.fn and len(now.shape) == len(snap.shape) and all(arr.dim_eq(a, b) for a, b in zip(now.shape, snap.shape)):
            ctx.prove(name + '/unchanged', True, kind='frame')
            return True
        if len(now.shape) != len(snap.shape):
            ctx.prove(name + '/unchanged', False, kind='frame')
            return False
        if getattr(ctx, 'replay', False):
            import itertools
            okk = all(arr.dim_conc(d) for d in now.shape) and tuple(now.shape) == tuple(int(sym._generic(d)) for d in snap.shape)
            res = okk
            if okk:
                for ix in itertools.product(*[range(d) for d in now.shape]):
                    a_, b_ = cur(*ix), snap.fn(*ix)
                    res = sym.and_(res, sym.cmp('==', a_, b_) if not (isinstance(a_, object) and type(a_).__name__ == 'NonFinite') else False)
            return ctx.prove(name + '/unchanged', res, kind='frame')
        idx = [ctx.fresh('fi', 'int') for _ in snap.shape]
        same_shape = sym.and_(*[sym.cmp('==', a, b) for a, b in zip(now.shape, snap.shape)]) if snap.shape else True
        inb = sym.and_(*[sym.and_(i >= 0, sym.cmp('<', i, d)) for i, d in zip(idx, snap.shape)]) if snap.shape else True
        return ctx.prove(name + '/unchanged', sym.and_(same_shape, sym.implies(inb, sym.cmp('==', cur(*idx), snap.fn(*idx)))), kind='frame', inst=idx)
    if isinstance(v, list):
        if not isinstance(now, list) or len(now) != len(snap.items):
            ctx.prove(name + '/unchanged', False, kind='frame')
            return False
        for k, (s, n) in enumerate(zip(snap.items, now)):
            ok = unchanged(ctx, '%s[%d]' % (name, k), s, n) and ok
        return ok
    if isinstance(v, dict):
        if not isinstance(now, dict) or set(now) != set(snap.items):
            ctx.prove(name + '/unchanged', False, kind='frame')
            return False
        for k in snap.items:
            ok = unchanged(ctx, '%s[%r]' % (name, k), snap.items[k], now[k]) and ok
        return ok
    if isinstance(v, (SV, Fraction, int, float)) and not isinstance(v, bool) and isinstance(now, (SV, Fraction, int, float)):
        return ctx.prove(name + '/unchanged', sym.cmp('==', now, v), kind='frame')
    return ctx.prove(name + '/unchanged', now is v or (type(now) == type(v) and isinstance(v, (str, bool, tuple)) and now == v), kind='frame')


def frame(ctx, prefix, o, snap, modifies=()):
    """every field of `o` not listed in `modifies` is unchanged; no field appears or disappears silently"""
    ok = True
    for k, s in snap.items():
        if k in modifies:
            continue
        if k not in o.fields:
            ctx.prove('%s.%s/unchanged' % (prefix, k), False, kind='frame')
            ok = False
            continue
        ok = unchanged(ctx, '%s.%s' % (prefix, k), s, o.fields[k]) and ok
    for k in o.fields:
        if k not in snap and k not in modifies:
            ctx.prove('%s.%s/not-created' % (prefix, k), False, kind='frame')
            ok = False
    return ok


def forall(ctx, name, n_lo, n_hi, body, kind='ensures', inst=(), **kw):
    """pointwise obligation: for a fresh integer i with lo <= i < hi: body(i)"""
    if getattr(ctx, 'replay', False):
        lo, hi = sym._generic(n_lo), sym._generic(n_hi)
        ok = True
        for i in range(int(lo), int(hi)):
            try:
                ok = sym.and_(ok, body(i))
            except ZeroDivisionError:
                pass              # eager evaluation of a guarded sub-term outside its guard
        return ctx.prove(name, ok, kind=kind)
    i = ctx.fresh('k', 'int')
    g = sym.implies(sym.and_(sym.cmp('>=', i, n_lo), sym.cmp('<', i, n_hi)), body(i))
    return ctx.prove(name, g, kind=kind, inst=[i] + list(inst), **kw)


def exists(ctx, name, n_lo, n_hi, body, witnesses, alt=False, kind='ensures', inst=()):
    """existential obligation: `alt` or body(j) for some lo <= j < hi.  Symbolically the witness candidates
    are supplied (skolem constants of amax/argmax/len facts); in a replay the range is enumerated."""
    if getattr(ctx, 'replay', False):
        r = alt
        for j in range(int(sym._generic(n_lo)), int(sym._generic(n_hi))):
            r = sym.or_(r, body(j))
        return ctx.prove(name, r, kind=kind)
    cands = witnesses() if callable(witnesses) else list(witnesses)
    g = alt
    for j in cands:
        g = sym.or_(g, sym.and_(sym.cmp('>=', j, n_lo), sym.cmp('<', j, n_hi), body(j)))
    return ctx.prove(name, g, kind=kind, inst=list(cands) + list(inst))


def steps(ctx, name, n_lo, n_hi, body, kind='ensures', inst=()):
    """pointwise obligation proved through intermediate steps: body(i) -> (hypothesis, step1, ..., goal);
    each step is proved under the hypothesis and the earlier steps, for one shared fresh index"""
    if getattr(ctx, 'replay', False):
        ok = True
        for i in range(int(sym._generic(n_lo)), int(sym._generic(n_hi))):
            parts = body(i)
            ok = sym.and_(ok, sym.implies(parts[0], parts[-1]))
        return ctx.prove(name, ok, kind=kind)
    i = ctx.fresh('k', 'int')
    parts = body(i)
    hyp = sym.and_(sym.cmp('>=', i, n_lo), sym.cmp('<', i, n_hi), parts[0])
    ok = True
    proved = []
    for n, st in enumerate(parts[1:]):
        last = n == len(parts) - 2
        ok = ctx.prove(name if last else '%s/step%d' % (name, n + 1), sym.implies(sym.and_(hyp, *proved), st), kind=kind if last else 'lemma', inst=[i] + list(inst)) and ok
        if not ok:
            break             # later steps would be proved from a failed one
        proved.append(st)
    return ok


def symbolise(ctx, o, prefix, positive=True, keep=()):
    """an object built by its REAL constructor keeps all its fields; every numeric field becomes an arbitrary
    (positive) real named <prefix><field>, so contracts do not depend on default values"""
    from fractions import Fraction as _F
    for k, v in list(o.fields.items()):
        if k in keep or isinstance(v, bool) or not isinstance(v, (int, _F)):
            continue
        o.fields[k] = real(ctx, prefix + k, (lambda x: x > 0) if positive else (lambda x: True))
    return o
