"""kvc.sym -- symbolic scalars, path context, VC discharge.

Scalars are Python ints / Fractions / bools (concrete) or SV (wrapper around a z3 term of sort Int, Real
or Bool).  `bool(SV)` forks the current path through Ctx.branch, so ordinary Python control flow (in the
interpreter, in the numpy model and in contracts) explores all feasible paths by re-execution.
Floats are mathematical reals (DESIGN 3.1): float literals become exact Fractions of their decimal text.
"""
import itertools, time, os, subprocess, tempfile
from fractions import Fraction
import z3

z3.set_param('pp.max_depth', 40)


class Unsupported(Exception):
    """construct outside the front end's subset -> function reported outside reach (exit 2)"""


class Infeasible(Exception):
    """current path has an unsatisfiable path condition"""


class PathEnd(Exception):
    """path ends normally before function exit (loop body after invariant check, assume False)"""


class PyRaise(Exception):
    """an exception raised by the interpreted program (or a crash: AttributeError, UnboundLocalError...)"""
    def __init__(self, etype, msg='', where=''):
        Exception.__init__(self, '%s: %s %s' % (etype, msg, where))
        self.etype = etype
        self.msg = msg
        self.where = where


def to_frac(x):
    if isinstance(x, bool):
        return int(x)
    if isinstance(x, (int, Fraction)):
        return x
    if isinstance(x, float):
        if x != x or x in (float('inf'), float('-inf')):
            raise Unsupported('non-finite float constant %r' % x)
        if x == int(x) and abs(x) < 1e15:
            return Fraction(int(x))
        return Fraction(repr(x))
    raise TypeError(x)


def is_conc(x):
    return isinstance(x, (int, Fraction, float, bool)) and not isinstance(x, SV)


def zterm(x, want_real=False):
    """python scalar or SV -> z3 term"""
    if isinstance(x, SV):
        t = x.t
        if want_real and z3.is_int(t):
            return z3.ToReal(t)
        return t
    if isinstance(x, bool):
        return z3.BoolVal(x)
    if isinstance(x, int):
        return z3.RealVal(x) if want_real else z3.IntVal(x)
    if isinstance(x, Fraction):
        if x.denominator == 1 and not want_real:
            return z3.RealVal(x.numerator)
        return z3.RealVal(str(x.numerator) + '/' + str(x.denominator)) if x.denominator != 1 else z3.RealVal(x.numerator)
    if isinstance(x, float):
        return zterm(to_frac(x), want_real)
    import numpy as _np
    if isinstance(x, _np.generic):
        return zterm(x.item(), want_real)
    raise Unsupported('cannot turn %r (%s) into a term' % (x, type(x).__name__))


def zbool(x):
    if isinstance(x, SV):
        if z3.is_bool(x.t):
            return x.t
        return x.t != 0
    if isinstance(x, (bool, int, Fraction, float)):
        return z3.BoolVal(bool(x))
    if x is None:
        return z3.BoolVal(False)
    raise Unsupported('truth value of %r' % (x,))


def _num(x):
    """z3 numeral term -> python number, else None"""
    if z3.is_int_value(x):
        return x.as_long()
    if z3.is_rational_value(x):
        f = Fraction(x.numerator_as_long(), x.denominator_as_long())
        return f
    if z3.is_true(x):
        return True
    if z3.is_false(x):
        return False
    return None


def wrap(t):
    """z3 term -> SV or python number when it is a numeral"""
    n = _num(t)
    if n is not None:
        return n
    return SV(t)


def _arith2(a, b):
    """coerce two scalars to z3 terms of a common arithmetic sort"""
    ta, tb = zterm(a), zterm(b)
    if z3.is_bool(ta):
        ta = z3.If(ta, z3.IntVal(1), z3.IntVal(0))
    if z3.is_bool(tb):
        tb = z3.If(tb, z3.IntVal(1), z3.IntVal(0))
    if z3.is_int(ta) and z3.is_int(tb):
        return ta, tb
    if z3.is_int(ta):
        ta = z3.ToReal(ta)
    if z3.is_int(tb):
        tb = z3.ToReal(tb)
    return ta, tb


class SV(object):
    __slots__ = ('t',)

    def __init__(self, t):
        self.t = t

    # ---- sorts
    @property
    def is_bool(self):
        return z3.is_bool(self.t)

    @property
    def is_int(self):
        return z3.is_int(self.t)

    def __repr__(self):
        return 'SV(%s)' % (self.t,)

    __hash__ = object.__hash__

    # ---- arithmetic
    def __add__(self, o): return add(self, o)
    def __radd__(self, o): return add(o, self)
    def __sub__(self, o): return sub(self, o)
    def __rsub__(self, o): return sub(o, self)
    def __mul__(self, o): return mul(self, o)
    def __rmul__(self, o): return mul(o, self)
    def __truediv__(self, o): return div(self, o)
    def __rtruediv__(self, o): return div(o, self)
    def __floordiv__(self, o): return floordiv(self, o)
    def __rfloordiv__(self, o): return floordiv(o, self)
    def __mod__(self, o): return mod(self, o)
    def __rmod__(self, o): return mod(o, self)
    def __pow__(self, o): return power(self, o)
    def __rpow__(self, o): return power(o, self)
    def __neg__(self): return sub(0, self)
    def __pos__(self): return self
    def __abs__(self): return absv(self)
    # ---- comparisons
    def __lt__(self, o): return cmp('<', self, o)
    def __le__(self, o): return cmp('<=', self, o)
    def __gt__(self, o): return cmp('>', self, o)
    def __ge__(self, o): return cmp('>=', self, o)
    def __eq__(self, o): return cmp('==', self, o)
    def __ne__(self, o): return cmp('!=', self, o)
    # ---- boolean connectives (numpy style & | ~)
    def __and__(self, o): return and_(self, o)
    def __rand__(self, o): return and_(o, self)
    def __or__(self, o): return or_(self, o)
    def __ror__(self, o): return or_(o, self)
    def __invert__(self): return not_(self)
    def __xor__(self, o): return wrap(z3.Xor(zbool(self), zbool(o)))

    def __bool__(self):
        return CTX().branch(zbool(self))

    def __index__(self):
        raise Unsupported('symbolic value used as a concrete index/size: %s' % self.t)

    def __int__(self):
        raise Unsupported('int() of symbolic value handled by builtin model only')

    def __float__(self):
        raise Unsupported('float() of a symbolic value')


class Inf(object):
    """+infinity / -infinity as they occur in default arguments and class constants (np.inf); only comparisons and the
    few arithmetic forms the modelled code uses are defined"""
    def __init__(self, sign=1):
        self.sign = sign

    def __repr__(self):
        return 'inf' if self.sign > 0 else '-inf'

    def __neg__(self):
        return Inf(-self.sign)

    def _cmp(self, op, o, rev=False):
        if isinstance(o, Inf):
            a, b = (o.sign, self.sign) if rev else (self.sign, o.sign)
            return {'<': a < b, '<=': a <= b, '>': a > b, '>=': a >= b, '==': a == b, '!=': a != b}[op]
        big = self.sign > 0
        if rev:     # o op self
            return {'<': big, '<=': big, '>': not big, '>=': not big, '==': False, '!=': True}[op]
        return {'<': not big, '<=': not big, '>': big, '>=': big, '==': False, '!=': True}[op]

    def __lt__(self, o): return self._cmp('<', o)
    def __le__(self, o): return self._cmp('<=', o)
    def __gt__(self, o): return self._cmp('>', o)
    def __ge__(self, o): return self._cmp('>=', o)
    def __eq__(self, o): return self._cmp('==', o)
    def __ne__(self, o): return self._cmp('!=', o)
    __hash__ = object.__hash__

    def __rtruediv__(self, o):
        return 0            # finite / inf

    def __mul__(self, o):
        o = _generic(o)
        if _isnum(o) and _c(o) != 0:
            return Inf(self.sign if _c(o) > 0 else -self.sign)
        raise Unsupported('inf * symbolic')
    __rmul__ = __mul__

    def __add__(self, o): return self
    __radd__ = __add__
    def __sub__(self, o): return self
    def __rsub__(self, o): return Inf(-self.sign)


def _isnum(x):
    return isinstance(x, (int, Fraction, bool)) or isinstance(x, float)


def _c(x):
    return to_frac(x) if isinstance(x, (float, bool)) else x


def _generic(x):
    import numpy as _np
    if isinstance(x, _np.generic):
        return x.item()
    if type(x).__module__ == 'kvc.arr' and hasattr(x, 'snap') and x.shape == ():
        return _generic(x.get())          # 0-d array of the numpy model: its value
    return x


def add(a, b):
    a, b = _generic(a), _generic(b)
    if _isnum(a) and _isnum(b):
        return _c(a) + _c(b)
    if _isnum(a) and _c(a) == 0 and not isinstance(a, bool):
        return b
    if _isnum(b) and _c(b) == 0 and not isinstance(b, bool):
        return a
    if not isinstance(a, SV) and not _isnum(a): return NotImplemented
    if not isinstance(b, SV) and not _isnum(b): return NotImplemented
    ta, tb = _arith2(a, b)
    return SV(ta + tb)


def sub(a, b):
    a, b = _generic(a), _generic(b)
    if _isnum(a) and _isnum(b):
        return _c(a) - _c(b)
    if _isnum(b) and _c(b) == 0:
        return a
    if not isinstance(a, SV) and not _isnum(a): return NotImplemented
    if not isinstance(b, SV) and not _isnum(b): return NotImplemented
    ta, tb = _arith2(a, b)
    return SV(ta - tb)


def mul(a, b):
    a, b = _generic(a), _generic(b)
    if _isnum(a) and _isnum(b):
        return _c(a) * _c(b)
    if _isnum(a):
        if _c(a) == 0: return 0
        if _c(a) == 1: return b
    if _isnum(b):
        if _c(b) == 0: return 0
        if _c(b) == 1: return a
    if not isinstance(a, SV) and not _isnum(a): return NotImplemented
    if not isinstance(b, SV) and not _isnum(b): return NotImplemented
    ta, tb = _arith2(a, b)
    return SV(ta * tb)


def div(a, b):
    a, b = _generic(a), _generic(b)
    if isinstance(b, Inf) and not isinstance(a, Inf):
        return 0
    if _isnum(a) and _isnum(b):
        if _c(b) == 0:
            raise PyRaise('ZeroDivisionError', 'division by zero')
        return Fraction(_c(a)) / Fraction(_c(b))
    if _isnum(b):
        if _c(b) == 0:
            # numpy semantics would give inf/nan; mathematical-real model cannot express it
            CTX().side('div-by-zero', z3.BoolVal(False))
            return SV(z3.FreshReal('divz'))
        if _c(b) == 1:
            return a if not (isinstance(a, SV) and a.is_int) else SV(z3.ToReal(a.t))
    if _isnum(a) and _c(a) == 0:
        CTX().note_divisor(b)
        return 0
    if not isinstance(a, SV) and not _isnum(a): return NotImplemented
    if not isinstance(b, SV) and not _isnum(b): return NotImplemented
    ta, tb = zterm(a, True), zterm(b, True)
    CTX().note_divisor(b)
    return SV(ta / tb)


def floordiv(a, b):
    a, b = _generic(a), _generic(b)
    if _isnum(a) and _isnum(b):
        return _c(a) // _c(b)
    ta, tb = _arith2(a, b)
    if z3.is_int(ta) and z3.is_int(tb) and _isnum(b) and _c(b) > 0:
        return SV(ta / tb)            # z3 int division: floor for positive divisor
    raise Unsupported('floor division with symbolic/negative divisor or real operands')


def mod(a, b):
    a, b = _generic(a), _generic(b)
    if _isnum(a) and _isnum(b):
        return _c(a) % _c(b)
    ta, tb = _arith2(a, b)
    if z3.is_int(ta) and z3.is_int(tb) and _isnum(b) and _c(b) > 0:
        return SV(ta % tb)
    raise Unsupported('modulo with symbolic/negative divisor or real operands')


_UF = {}


def uf(name, *sorts):
    key = (name,) + tuple(str(s) for s in sorts)
    if key not in _UF:
        _UF[key] = z3.Function(name, *sorts)
    return _UF[key]


R = z3.RealSort()
I = z3.IntSort()
B = z3.BoolSort()



def _replay_num(fn, *xs):
    """in a replay (concrete numbers, native comparison with a relative tolerance) the transcendental functions take their floating-point values"""
    c = _CTX[0]
    if c is None or not getattr(c, 'replay', False) or not all(_isnum(x) for x in xs):
        return None
    import math
    try:
        return Fraction(fn(*[float(Fraction(_c(x))) for x in xs]))
    except (ValueError, OverflowError, ZeroDivisionError):
        return None


def sqrt(x):
    x = _generic(x)
    import math as _m
    r_ = _replay_num(_m.sqrt, x)
    if r_ is not None and not (_isnum(x) and Fraction(_c(x)) >= 0 and _m.isqrt(Fraction(_c(x)).numerator) ** 2 == Fraction(_c(x)).numerator and _m.isqrt(Fraction(_c(x)).denominator) ** 2 == Fraction(_c(x)).denominator):
        return r_
    if _isnum(x):
        f = Fraction(_c(x))
        if f < 0:
            CTX().side('sqrt-domain', z3.BoolVal(False))
        import math
        n, d = f.numerator, f.denominator
        rn, rd = math.isqrt(n) if n >= 0 else 0, math.isqrt(d)
        if n >= 0 and rn * rn == n and rd * rd == d:
            return Fraction(rn, rd)
    t = zterm(x, True)
    s = uf('sqrt', R, R)(t)
    c = CTX()
    c.side('sqrt-domain', t >= 0)
    c.axiom(z3.And(s >= 0, s * s == t))
    _enclose(s)
    return SV(s)


def cbrt(x):
    x = _generic(x)
    import math as _m
    r_ = _replay_num(_m.cbrt, x)
    if r_ is not None:
        return r_
    if _isnum(x):
        f = Fraction(_c(x))
        for sign in (1,):
            n, d = abs(f.numerator), f.denominator
            rn, rd = round(n ** (1.0 / 3)), round(d ** (1.0 / 3))
            for a in (rn - 1, rn, rn + 1):
                for b in (rd - 1, rd, rd + 1):
                    if a >= 0 and b > 0 and a ** 3 == n and b ** 3 == d:
                        return Fraction(a, b) * (1 if f >= 0 else -1)
    t = zterm(x, True)
    s = uf('cbrt', R, R)(t)
    CTX().axiom(z3.And(s * s * s == t, z3.Implies(t >= 0, s >= 0), z3.Implies(t > 0, s > 0),
                       z3.Implies(t <= 0, s <= 0)))
    _enclose(s)
    return SV(s)


# ------------------------------------------------------------------------------------------------
# numeric enclosures of CLOSED transcendental terms (no free constants): outward-rounded interval arithmetic (mpmath.iv, 40 digits).
# The enclosure is true of the real function, so adding it to the axioms of the uninterpreted symbol is sound.
# ------------------------------------------------------------------------------------------------
def _iv_eval(t):
    """interval value of a closed z3 real term over + - * / numerals pi and sqrt/cbrt/exp/log/sin/cos/arcsin/arccos/arctan applications; None if not closed"""
    from mpmath import iv
    iv.dps = 40
    if z3.is_rational_value(t) or z3.is_int_value(t):
        f = Fraction(t.numerator_as_long(), t.denominator_as_long()) if z3.is_rational_value(t) else Fraction(t.as_long())
        return iv.mpf(f.numerator) / iv.mpf(f.denominator)
    if not z3.is_app(t):
        return None
    k = t.decl().kind()
    nm = t.decl().name()
    if t.num_args() == 0:
        if nm == 'pi':
            return iv.pi
        return None
    ch = [_iv_eval(c) for c in t.children()]
    if any(c is None for c in ch):
        return None
    try:
        if k == z3.Z3_OP_ADD:
            r = ch[0]
            for c in ch[1:]:
                r = r + c
            return r
        if k == z3.Z3_OP_SUB:
            r = ch[0]
            for c in ch[1:]:
                r = r - c
            return r
        if k == z3.Z3_OP_UMINUS:
            return -ch[0]
        if k == z3.Z3_OP_MUL:
            r = ch[0]
            for c in ch[1:]:
                r = r * c
            return r
        if k == z3.Z3_OP_DIV:
            if ch[1].a <= 0 <= ch[1].b:
                return None
            return ch[0] / ch[1]
        if k == z3.Z3_OP_TO_REAL:
            return ch[0]
        if k == z3.Z3_OP_UNINTERPRETED:
            x = ch[0]
            if nm == 'sqrt' and x.a >= 0:
                return iv.sqrt(x)
            if nm == 'cbrt':
                if x.a >= 0:
                    return iv.exp(iv.log(x) / 3) if x.a > 0 else None
                return None
            if nm == 'exp':
                return iv.exp(x)
            if nm == 'log' and x.a > 0:
                return iv.log(x)
            if nm == 'sin':
                return iv.sin(x)
            if nm == 'cos':
                return iv.cos(x)
            if nm == 'arctan':
                return iv.atan(x)
    except Exception:
        return None
    return None


def _enclose(app):
    """lo <= app <= hi for a closed application (rational bounds rounded outward)"""
    c = CTX()
    if c is None or getattr(c, 'replay', False):
        return
    if app.decl().name() in ('sqrt', 'cbrt') and all(z3.is_rational_value(x) or z3.is_int_value(x) for x in app.children()):
        return           # root of a numeral: already pinned down exactly by its defining axiom (s*s = t, s >= 0); an extra numeric bound only slows other proofs
    r = _iv_eval(app)
    if r is None:
        return
    import mpmath
    from fractions import Fraction as F
    # exact rational end points from the interval's internal (sign, mantissa, exponent) pairs -- no re-rounding
    def rat(m):
        sign, man, exp, bc = m
        v = F(int(man)) * (F(2) ** int(exp))
        return -v if sign else v
    a_, b_ = r._mpi_
    lo, hi = rat(a_), rat(b_)
    if lo > hi:
        return
    # keep the numerals short (12 significant digits, rounded OUTWARD): long rationals slow the nonlinear solver down for no benefit
    import math
    mag = max(abs(lo), abs(hi))
    k = 12 - (0 if mag == 0 else int(math.floor(math.log10(float(mag))) + 1))
    scale = F(10) ** k
    lo2 = F(math.floor(lo * scale)) / scale
    hi2 = F(math.ceil(hi * scale)) / scale
    c.axiom(z3.And(app >= z3.RealVal(str(lo2)), app <= z3.RealVal(str(hi2))))


def exp(x):
    x = _generic(x)
    import math as _m
    r_ = _replay_num(_m.exp, x)
    if r_ is not None:
        return r_
    if _isnum(x) and _c(x) == 0:
        return 1
    t = zterm(x, True)
    e = uf('exp', R, R)(t)
    c = CTX()
    c.axiom(z3.And(e > 0, z3.Implies(t <= 0, e <= 1), z3.Implies(t >= 0, e >= 1), z3.Implies(t < 0, e < 1),
                   z3.Implies(t > 0, e > 1)))
    c.mono_pair('exp', t, e, strict=True)
    _enclose(e)
    return SV(e)


def log(x):
    x = _generic(x)
    import math as _m
    r_ = _replay_num(_m.log, x)
    if r_ is not None:
        return r_
    if _isnum(x) and _c(x) == 1:
        return 0
    t = zterm(x, True)
    l = uf('log', R, R)(t)
    c = CTX()
    c.side('log-domain', t > 0)
    c.axiom(z3.And(z3.Implies(t >= 1, l >= 0), z3.Implies(t <= 1, l <= 0), z3.Implies(t > 1, l > 0),
                   z3.Implies(z3.And(t < 1, t > 0), l < 0)))
    c.mono_pair('log', t, l, strict=True)
    _enclose(l)
    return SV(l)


def opaque_fn(name, *args):
    """uninterpreted real function of real arguments (sin, cos, arcsin, ...)"""
    ts = [zterm(_generic(a), True) for a in args]
    return SV(uf(name, *([R] * (len(ts) + 1)))(*ts))


def power(a, b):
    a, b = _generic(a), _generic(b)
    if _isnum(b):
        e = Fraction(_c(b))
        if e.denominator == 1:
            n = int(e)
            if _isnum(a):
                if n >= 0:
                    return _c(a) ** n
                if _c(a) == 0:
                    raise PyRaise('ZeroDivisionError', '0 ** negative')
                return Fraction(_c(a)) ** n
            if n == 0:
                return 1
            if abs(n) <= 12:
                r = a
                for _ in range(abs(n) - 1):
                    r = mul(r, a)
                return r if n > 0 else div(1, r)
        else:
            num, den = e.numerator, e.denominator
            if den == 2:
                return power(sqrt(a), num)
            if den == 3:
                return power(cbrt(a), num)
            if den == 4:
                return power(sqrt(sqrt(a)), num)
            if den == 6:
                return power(cbrt(sqrt(a)), num)
    # general power: uninterpreted with sign / unit axioms
    ta, tb = zterm(a, True), zterm(b, True)
    p = uf('pow', R, R, R)(ta, tb)
    c = CTX()
    c.axiom(z3.And(z3.Implies(ta > 0, p > 0), z3.Implies(tb == 0, p == 1), z3.Implies(tb == 1, p == ta),
                   z3.Implies(ta == 1, p == 1), z3.Implies(z3.And(ta == 0, tb > 0), p == 0),
                   z3.Implies(z3.And(ta >= 1, tb >= 0), p >= 1),
                   z3.Implies(z3.And(ta >= 0, ta <= 1, tb >= 0), z3.And(p <= 1, p >= 0)),
                   z3.Implies(z3.And(ta >= 0, ta <= 1, tb >= 1), p <= ta),
                   z3.Implies(z3.And(ta >= 1, tb >= 1), p >= ta)))
    # (u^v)^w = u when v*w = 1 and u >= 0
    if z3.is_app(ta) and ta.decl().name() == 'pow' and ta.num_args() == 2:
        u, v = ta.arg(0), ta.arg(1)
        c.axiom(z3.Implies(z3.And(u >= 0, v * tb == 1), p == u))
    c.pow_pair(ta, tb, p)
    return SV(p)


def absv(a):
    a = _generic(a)
    if _isnum(a):
        return abs(_c(a))
    t = zterm(a)
    return SV(z3.If(t >= 0, t, -t))


REPLAY_TOL = None       # set by kvc.replay: relative tolerance for comparisons of concrete reals


def cmp(op, a, b):
    a, b = _generic(a), _generic(b)
    if isinstance(a, Inf):
        return a._cmp(op, b)
    if isinstance(b, Inf):
        return b._cmp(op, a, rev=True)
    if _isnum(a) and _isnum(b):
        a, b = _c(a), _c(b)
        if REPLAY_TOL is not None and not (isinstance(a, int) and isinstance(b, int)):
            tol = REPLAY_TOL * max(abs(a), abs(b)) + Fraction(1, 10 ** 200)      # relative: physical quantities span 1e-30 .. 1e30
            return {'<': a < b + tol, '<=': a <= b + tol, '>': a > b - tol, '>=': a >= b - tol,
                    '==': abs(a - b) <= tol, '!=': abs(a - b) > tol}[op]
        return {'<': a < b, '<=': a <= b, '>': a > b, '>=': a >= b, '==': a == b, '!=': a != b}[op]
    if isinstance(a, SV) and a.is_bool or isinstance(b, SV) and b.is_bool:
        if op in ('==', '!='):
            if (isinstance(a, SV) and a.is_bool or isinstance(a, bool)) and (isinstance(b, SV) and b.is_bool or isinstance(b, bool)):
                r = zbool(a) == zbool(b)
                return wrap(z3.simplify(r if op == '==' else z3.Not(r)))
    if not (isinstance(a, SV) or _isnum(a)) or not (isinstance(b, SV) or _isnum(b)):
        if op in ('==', '!='):
            try:
                same = bool(a == b) if type(a) == type(b) or (a is None or b is None) else False
            except Exception:
                same = False
            return same if op == '==' else not same
        raise PyRaise('TypeError', 'comparison %s between %s and %s' % (op, type(a).__name__, type(b).__name__))
    ta, tb = _arith2(a, b)
    r = {'<': ta < tb, '<=': ta <= tb, '>': ta > tb, '>=': ta >= tb, '==': ta == tb, '!=': ta != tb}[op]
    return SV(r)


def and_(*xs):
    ts = []
    for x in xs:
        x = _generic(x)
        if isinstance(x, (bool, int, Fraction, float)):
            if not x:
                return False
            continue
        ts.append(zbool(x))
    if not ts:
        return True
    return SV(z3.And(*ts)) if len(ts) > 1 else SV(ts[0])


def or_(*xs):
    ts = []
    for x in xs:
        x = _generic(x)
        if isinstance(x, (bool, int, Fraction, float)):
            if x:
                return True
            continue
        ts.append(zbool(x))
    if not ts:
        return False
    return SV(z3.Or(*ts)) if len(ts) > 1 else SV(ts[0])


def not_(x):
    x = _generic(x)
    if isinstance(x, (bool, int, Fraction, float)):
        return not x
    return SV(z3.Not(zbool(x)))


def implies(a, b):
    return or_(not_(a), b)


def ite(c, a, b):
    c = _generic(c)
    if isinstance(c, (bool, int, Fraction, float)):
        return a if c else b
    if a is b:
        return a
    if (isinstance(a, SV) and a.is_bool or isinstance(a, bool)) and (isinstance(b, SV) and b.is_bool or isinstance(b, bool)):
        return SV(z3.If(zbool(c), zbool(a), zbool(b)))
    if not (isinstance(a, SV) or _isnum(_generic(a))) or not (isinstance(b, SV) or _isnum(_generic(b))):
        # non-scalar alternatives: fork
        return a if CTX().branch(zbool(c)) else b
    ta, tb = _arith2(_generic(a), _generic(b))
    if ta.eq(tb):
        return wrap(ta)
    return SV(z3.If(zbool(c), ta, tb))


def vmax(a, b):
    a, b = _generic(a), _generic(b)
    if _isnum(a) and _isnum(b):
        return max(_c(a), _c(b))
    return ite(cmp('>=', a, b), a, b)


def vmin(a, b):
    a, b = _generic(a), _generic(b)
    if _isnum(a) and _isnum(b):
        return min(_c(a), _c(b))
    return ite(cmp('<=', a, b), a, b)


def sign(a):
    a = _generic(a)
    if _isnum(a):
        a = _c(a)
        return (a > 0) - (a < 0)
    t = zterm(a)
    if z3.is_int(t):
        return SV(z3.If(t > 0, z3.IntVal(1), z3.If(t < 0, z3.IntVal(-1), z3.IntVal(0))))
    return SV(z3.If(t > 0, z3.RealVal(1), z3.If(t < 0, z3.RealVal(-1), z3.RealVal(0))))


def trunc_int(a):
    """int(x): truncation toward zero"""
    a = _generic(a)
    if _isnum(a):
        import math
        f = Fraction(_c(a))
        return int(f)  # Fraction.__int__ truncates toward zero
    t = zterm(a)
    if z3.is_int(t):
        return a
    fl = z3.ToInt(t)                      # floor
    return SV(z3.If(t >= 0, fl, z3.If(z3.ToReal(fl) == t, fl, fl + 1)))


def to_real(a):
    a = _generic(a)
    if _isnum(a):
        return Fraction(_c(a))
    if a.is_int:
        return SV(z3.ToReal(a.t))
    if a.is_bool:
        return SV(z3.If(a.t, z3.RealVal(1), z3.RealVal(0)))
    return a


# ----------------------------------------------------------------------------------------------------
# path context
# ----------------------------------------------------------------------------------------------------
_CTX = [None]


def CTX():
    c = _CTX[0]
    if c is None:
        raise RuntimeError('no active kvc context')
    return c


class Obligation(object):
    def __init__(self, name, kind, verdict, seconds, backend, path, model=None, reason='', where=''):
        self.name, self.kind, self.verdict, self.seconds = name, kind, verdict, seconds
        self.backend, self.path, self.model, self.reason, self.where = backend, path, model, reason, where

    def to_json(self):
        d = dict(name=self.name, kind=self.kind, verdict=self.verdict, seconds=round(self.seconds, 4),
                 backend=self.backend, path=self.path)
        if self.reason:
            d['reason'] = self.reason
        if self.where:
            d['where'] = self.where
        if self.model is not None:
            d['model'] = self.model
        return d


SOLVER_TIMEOUT_MS = int(os.environ.get('KVC_TIMEOUT_MS', '20000'))
AUTO_LEMMA_MS = int(os.environ.get('KVC_AUTO_LEMMA_MS', '1500'))     # budget of the silently applied sum lemmas
BRANCH_TIMEOUT_MS = 3000
# robustness knob: shift z3's internal term numbering (argument order of normal forms depends on it); verdicts must not change
_PERTURB = [z3.Real('perturb!%d' % i) + i for i in range(int(os.environ.get('KVC_PERTURB', '0') or 0))]


class Ctx(object):
    """one symbolic path.  decisions: list of bools (prefix to follow)."""

    def __init__(self, run, decisions):
        self.run = run                       # the Run (collects obligations over all paths)
        self.decisions = list(decisions)
        self.pos = 0
        self.pc = []                         # hypotheses: requires, path condition, instantiated facts
        self.axioms = []                     # axioms for opaque functions (always hypotheses)
        self._axiom_keys = set()
        self.qfacts = []                     # (name, fn(i)->z3 bool): universally quantified facts
        self.skolems = []                    # index terms at which qfacts are always instantiated
        self.mono = {}                       # name -> list of (arg, val) for monotone opaque functions
        self.pows = []
        self.sums = []                       # registry of opaque sums: dict(n, fn, term)
        self.fresh_n = itertools.count()
        self.side_on = True
        self.inputs = []                     # declared symbolic inputs (for model concretisation)
        self.trace = []                      # notes for evidence
        self.divisors = []
        self.reads = set()                   # (objid, field) field reads (for frame "reads nowhere")
        self.crashed = None

    # --- naming
    def fresh(self, base, sort='real'):
        n = '%s!%d' % (base, next(self.fresh_n))
        if sort == 'real':
            return SV(z3.Real(n))
        if sort == 'int':
            return SV(z3.Int(n))
        if sort == 'bool':
            return SV(z3.Bool(n))
        raise ValueError(sort)

    def fresh_fn(self, base, nargs=1, sort='real'):
        n = '%s!%d' % (base, next(self.fresh_n))
        rs = {'real': R, 'int': I, 'bool': B}[sort]
        return z3.Function(n, *([I] * nargs + [rs]))

    # --- hypotheses
    def assume(self, *conds):
        for c in conds:
            if isinstance(c, (list, tuple)):
                self.assume(*c)
                continue
            c = _generic(c)
            if isinstance(c, (bool, int)):
                if not c:
                    raise Infeasible()
                continue
            self.pc.append(zbool(c))

    def axiom(self, t):
        k = t.get_id()
        if k not in self._axiom_keys:
            self._axiom_keys.add(k)
            self.axioms.append(t)

    def mono_pair(self, name, arg, val, strict=True):
        lst = self.mono.setdefault(name, [])
        for (a2, v2) in lst:
            if a2.eq(arg):
                return
        for (a2, v2) in lst[-12:]:
            self.axiom(z3.And(z3.Implies(arg < a2, val < v2), z3.Implies(arg > a2, val > v2),
                              z3.Implies(arg == a2, val == v2)))
        lst.append((arg, val))

    def pow_pair(self, a, b, p):
        for (a2, b2, p2) in self.pows[-8:]:
            if a2.eq(a) and b2.eq(b):
                return
            # monotone in the base for a positive exponent, in the exponent for base >= 1 / <= 1
            self.axiom(z3.Implies(z3.And(b == b2, b > 0, a >= 0, a2 >= 0),
                                  z3.And(z3.Implies(a <= a2, p <= p2), z3.Implies(a >= a2, p >= p2))))
            self.axiom(z3.Implies(z3.And(a == a2, a >= 1), z3.And(z3.Implies(b <= b2, p <= p2), z3.Implies(b >= b2, p >= p2))))
            self.axiom(z3.Implies(z3.And(a == a2, a > 0, a <= 1), z3.And(z3.Implies(b <= b2, p >= p2), z3.Implies(b >= b2, p <= p2))))
        self.pows.append((a, b, p))

    def note_divisor(self, b):
        if isinstance(b, SV):
            self.divisors.append(b.t)

    def qfact(self, name, fn):
        self.qfacts.append((name, fn))

    def hyps(self, inst=()):
        """hypotheses for a VC: axioms, path condition, quantified facts instantiated at the skolem
        constants and at the index terms `inst` (no solver quantifiers, DESIGN 2.4)"""
        idx = list(self.skolems) + [zterm(_generic(i)) for i in inst]
        inst_terms = []
        seen = set()
        k = 0
        while k < len(self.qfacts):          # instantiation may register further facts
            name, fn = self.qfacts[k]
            for i in idx:
                key = (k, i.get_id())
                if key in seen:
                    continue
                seen.add(key)
                n = _num(i)
                f = fn(SV(i) if n is None else n)
                if isinstance(f, SV):
                    inst_terms.append(zbool(f))
                elif isinstance(f, bool) and not f:
                    inst_terms.append(z3.BoolVal(False))
            k += 1
        out, ids = [], set()
        for h in list(self.axioms) + list(self.pc) + inst_terms:
            if h.get_id() not in ids:
                ids.add(h.get_id())
                out.append(h)
        return out

    # --- branching
    def branch(self, cond):
        c = z3.simplify(cond)
        if z3.is_true(c):
            return True
        if z3.is_false(c):
            return False
        if self.pos < len(self.decisions):
            d = self.decisions[self.pos]
            self.pos += 1
            self.pc.append(c if d else z3.Not(c))
            return d
        hs = self.hyps()
        st = check_sat(hs + [c], BRANCH_TIMEOUT_MS)
        sf = check_sat(hs + [z3.Not(c)], BRANCH_TIMEOUT_MS)
        if st == 'unsat' and sf == 'unsat':
            raise Infeasible()
        if st == 'unsat':
            d = False
        elif sf == 'unsat':
            d = True
        else:
            d = True
            self.run.worklist.append(self.decisions[:self.pos] + [False])
        self.decisions.append(d)
        self.pos += 1
        self.pc.append(c if d else z3.Not(c))
        return d

    def known(self, cond):
        """True / False if the hypotheses decide `cond` (quick query, cached per path), else None"""
        cond = _generic(cond)
        if isinstance(cond, (bool, int, Fraction)):
            return bool(cond)
        if getattr(self, 'replay', False):
            return None
        t = z3.simplify(zbool(cond))
        if z3.is_true(t):
            return True
        if z3.is_false(t):
            return False
        cache = self.__dict__.setdefault('_known', {})
        k = (t.get_id(), len(self.pc), len(self.axioms))
        if k in cache:
            return cache[k][0]
        hs = [h for h in self.hyps() if _is_linear(h)]     # dropping hypotheses is sound; keeps these queries in LIA/LRA
        if not _is_linear(t):
            cache[k] = (None, t)
            return None
        r = None
        if check_sat(hs + [z3.Not(t)], 1500) == 'unsat':
            r = True
        elif check_sat(hs + [t], 1500) == 'unsat':
            r = False
        cache[k] = (r, t)
        return r

    # --- obligations
    def side(self, name, cond, where=''):
        """engine generated side obligation (index in bounds, domain of sqrt/log, ...)"""
        if not self.side_on:
            return
        if name.endswith('-domain') and self.__dict__.get('domain_off', 0):
            return
        if isinstance(cond, SV):
            cond = zbool(cond)
        if isinstance(cond, bool):
            cond = z3.BoolVal(cond)
        self.prove('side:' + name, SV(cond), kind='side', where=where, assume_after=True)

    def prove(self, name, goal, kind='ensures', inst=(), where='', assume_after=False, timeout=None, expect=None):
        """discharge `hyps => goal`.  expect='refuted' marks a canary (must be refuted)."""
        goal = _generic(goal)
        t0 = time.time()
        path = ''.join('T' if d else 'F' for d in self.decisions[:self.pos])
        if isinstance(goal, (bool, int, Fraction)):
            g = z3.BoolVal(bool(goal))
        else:
            g = zbool(goal)
        gs = z3.simplify(g)
        if z3.is_true(gs):
            ob = Obligation(name, kind, 'proved', 0.0, 'simplifier', path, where=where)
        elif z3.is_false(gs):
            # concretely false on this path: any model of the path condition is a counterexample
            mj = None
            try:
                sl = z3.Solver()
                sl.set('timeout', 5000)
                for h in self.hyps(inst):
                    sl.add(h)
                if sl.check() == z3.sat:
                    mj = self.concretise(sl.model())
            except Exception:
                pass
            ob = Obligation(name, kind, 'refuted', time.time() - t0, 'simplifier', path, mj, 'clause is false on this path', where)
        else:
            hs = self.hyps(inst)
            verdict, model, backend, reason = discharge(hs, g, timeout or self.run.timeout_ms, refute_first=(expect == 'refuted'))
            if verdict == 'refuted' and expect != 'refuted' and self.qfacts and not os.environ.get('KVC_NO_SATURATE'):
                # the counter-model satisfies the quantified hypotheses only at the index terms they were instantiated at: instantiate them over the index
                # range of that model (and at the ends of every declared array) and try once more; adding instances of assumed facts is sound
                extra = self._saturation_terms(model)
                hs2 = self.hyps(list(inst) + extra)
                if len(hs2) > len(hs):
                    v2, m2, b2, r2 = discharge(hs2, g, timeout or self.run.timeout_ms)
                    if v2 == 'proved':
                        verdict, model, backend, reason = 'proved', None, b2 + ' (quantified facts instantiated over the index range of a spurious counter-model)', ''
                    elif v2 == 'refuted':
                        model = m2
            mj = model if verdict == 'refuted' else None
            ob = Obligation(name, kind, verdict, time.time() - t0, backend, path, mj, reason, where)
        ob.expect = expect
        ob.config = self.run.config_name
        self.run.record(ob)
        if assume_after and ob.verdict != 'proved':
            # keep going as if it held, so one failure does not cascade into every later obligation
            pass
        if assume_after:
            self.pc.append(g)
        return ob.verdict == 'proved'

    def _saturation_terms(self, mj):
        """index terms for a second instantiation round: 0 .. K-1 for the largest array extent K of the counter-model (at most 6), and the last two
        positions of every symbolic array extent"""
        K = 0
        for v in (mj or {}).values():
            if isinstance(v, dict) and isinstance(v.get('shape'), list):
                for d in v['shape']:
                    if isinstance(d, int):
                        K = max(K, d)
        out = list(range(0, min(K, 6)))
        seen = set()
        for decl in self.inputs:
            for d in getattr(decl, 'shape', ()) or ():
                d = _generic(d)
                if isinstance(d, SV) and d.t.get_id() not in seen:
                    seen.add(d.t.get_id())
                    out += [d - 1, d - 2]
        return out

    def concretise(self, model):
        out = {}
        for decl in self.inputs:
            try:
                out[decl.name] = decl.concretise(model)
            except Exception as e:  # pragma: no cover
                out[decl.name] = 'ERR %s' % e
        return out

    # --- sums
    def sum_term(self, n, fn, label='sum'):
        """opaque term for  sum_{0<=i<n} fn(i)  (n symbolic).
        * congruence: sums whose summands are the same term at a canonical index (same length) are the same
          opaque constant;
        * linearity (sum_lin): factors of the summand that do not mention the index are pulled out, so
          sum(c*g) is the term c*sum(g);
        * sum_nonneg: if the summand is provably >= 0 pointwise, sum >= 0 is assumed (lemma schema of DESIGN 2.5)."""
        if getattr(self, 'replay', False):
            tot = 0
            for i in range(int(_generic(n))):
                tot = add(tot, fn(i))
            return tot
        j0 = SV(z3.Int('j0!canon'))
        try:
            body = _generic(fn(j0))
        except (Unsupported, PyRaise):
            body = None
        if body is None or _isnum(body):
            if body is not None and _c(body) == 0:
                return 0
            if body is not None:
                return mul(_c(body), to_real(n))        # sum of a constant
            s = self.fresh(label)
            self.sums.append(dict(n=n, fn=fn, term=s, key=None))
            return s
        bt = z3.simplify(zterm(body, True))      # canonical form: congruence up to simple arithmetic identities
        const, varying = _split_factors(bt, j0.t)
        varying = z3.simplify(varying)
        ng = _generic(n)
        nkey = ('c', int(ng)) if _isnum(ng) else zterm(ng).get_id()
        key = (nkey, varying.get_id())
        inner = None
        for srec in self.sums:
            if srec.get('key') == key:
                inner = srec['term']
                break
        if inner is None:
            # sum_ext applied automatically: a registered sum of the same length whose summand is provably equal
            # pointwise (fresh index, quick query) is the same sum
            for srec in self.sums:
                if srec.get('key') is None:
                    continue
                if srec['key'][0] != nkey and self.known(cmp('==', srec['n'], n)) is not True:
                    continue
                i = self.fresh('se', 'int')
                a_ = z3.substitute(varying, (j0.t, i.t))
                b_ = z3.substitute(srec['keep'][1], (j0.t, i.t))
                rng = z3.And(i.t >= 0, i.t < zterm(_generic(n)))
                v, _m, _b, _r = discharge(self.hyps([i]) + [rng], a_ == b_, AUTO_LEMMA_MS, quick=True)
                if v == 'proved':
                    inner = srec['term']
                    if 'lemma sum_ext applied automatically' not in self.trace:
                        self.trace.append('lemma sum_ext applied automatically')
                    break
        if inner is None:
            inner = self.fresh(label)
            if const is None:
                ifn = fn
            else:
                def ifn(i, _v=varying, _fn=fn):
                    _fn(i)                      # instantiate lazy array facts at this index
                    return SV(z3.substitute(_v, (j0.t, zterm(_generic(i)))))
            self.sums.append(dict(n=n, fn=ifn, term=inner, key=key, keep=(body, varying)))
            # sum_nonneg / sum of zeros, decided silently on a fresh index
            i = self.fresh('sn', 'int')
            vi = SV(z3.substitute(varying, (j0.t, i.t)))
            fn(i)
            hs = self.hyps([i])
            rng = z3.And(i.t >= 0, i.t < zterm(_generic(n)))
            v, _m, _b, _r = discharge(hs + [rng], zbool(vi >= 0), AUTO_LEMMA_MS, quick=True)
            if v == 'proved':
                self.pc.append(zbool(inner >= 0))
                self.trace.append('lemma sum_nonneg applied automatically') if 'lemma sum_nonneg applied automatically' not in self.trace else None
        if const is None:
            return inner
        r = SV(const * inner.t)
        self.__dict__.setdefault('sum_alias', []).append((r, const, inner))
        return r

    def find_sum(self, term):
        """-> (record, constant factor) for a sum term (possibly const*sum after automatic linearity)"""
        for s in self.sums:
            if s['term'] is term or (isinstance(term, SV) and s['term'].t.eq(term.t)):
                return s, 1
        for r, const, inner in self.__dict__.get('sum_alias', []):
            if r is term or (isinstance(term, SV) and r.t.eq(term.t)):
                return self.find_sum(inner)[0], SV(const)
        return None, None

    def sum_lemma(self, name, parts, F, rel='==', extra_const=0, inst=()):
        """linear-sum lemma (DESIGN 2.5).  parts = [(coef, sumterm)], all sums over the same n.
        Side VC:  for fresh 0<=i<n:  sum_k coef_k*g_k(i)  rel  F(i+1)-F(i).
        Conclusion (assumed after the side VC is proved):  sum_k coef_k*S_k  rel  F(n)-F(0)."""
        recs = []
        for coef, st in parts:
            r, k = self.find_sum(st)
            if r is None:
                raise Unsupported('sum_lemma: term is not a registered sum')
            recs.append((mul(coef, k), r))
        n = recs[0][1]['n']
        for _, r in recs[1:]:
            if not (zterm(r['n']).eq(zterm(n))):
                self.prove(name + '/same-length', cmp('==', r['n'], n), kind='lemma')
        i = self.fresh('i', 'int')
        lhs = 0
        for coef, r in recs:
            lhs = add(lhs, mul(coef, r['fn'](i)))
        rhs = sub(F(add(i, 1)), F(i))
        goal = implies(and_(cmp('>=', i, 0), cmp('<', i, n)), cmp(rel, lhs, rhs))
        ok = self.prove(name + '/pointwise', goal, kind='lemma', inst=[i, add(i, 1)] + list(inst))
        tot = 0
        for coef, r in recs:
            tot = add(tot, mul(coef, r['term']))
        concl = implies(cmp('>=', n, 0), cmp(rel, tot, sub(F(n), F(0))))
        if ok:
            self.assume(concl)
        return ok


def _mentions(t, v):
    seen = set()
    stack = [t]
    while stack:
        x = stack.pop()
        if x.get_id() in seen:
            continue
        seen.add(x.get_id())
        if x.eq(v):
            return True
        stack.extend(x.children())
    return False


_LIN = {}


def _is_linear(t):
    k = t.get_id()
    if k in _LIN:
        return _LIN[k][0]
    r = True
    stack = [t]
    seen = set()
    while stack:
        x = stack.pop()
        if x.get_id() in seen:
            continue
        seen.add(x.get_id())
        if z3.is_app_of(x, z3.Z3_OP_MUL):
            if sum(1 for c in x.children() if _num(c) is None) > 1:
                r = False
                break
        elif z3.is_app_of(x, z3.Z3_OP_DIV) or z3.is_app_of(x, z3.Z3_OP_IDIV) or z3.is_app_of(x, z3.Z3_OP_MOD):
            if _num(x.arg(1)) is None:
                r = False
                break
        elif z3.is_app_of(x, z3.Z3_OP_POWER):
            r = False
            break
        stack.extend(x.children())
    _LIN[k] = (r, t)
    return r


def _split_factors(t, j):
    """t = const * varying with `const` free of the index j (None if nothing can be pulled out)"""
    consts, vary = [], []

    def walk(x, inv):
        if z3.is_app_of(x, z3.Z3_OP_MUL):
            for c in x.children():
                walk(c, inv)
        elif z3.is_app_of(x, z3.Z3_OP_DIV):
            a, b = x.children()
            walk(a, inv)
            walk(b, not inv)
        elif z3.is_app_of(x, z3.Z3_OP_TO_REAL) and z3.is_app_of(x.arg(0), z3.Z3_OP_MUL):
            walk(x.arg(0), inv)
        else:
            (vary if _mentions(x, j) else consts).append((x if z3.is_real(x) else z3.ToReal(x), inv))
    walk(t, False)
    if not consts or not vary:
        return None, t

    def build(lst):
        r = None
        for x, inv in lst:
            f = (z3.RealVal(1) / x) if inv else x
            r = f if r is None else r * f
        return r
    return build(consts), build(vary)


def check_sat(assertions, timeout_ms):
    """satisfiability of a set of assertions: 'unsat' only when certain"""
    try:
        c = _CTX[0]
        abst = c.__dict__.setdefault('_abst', _Abstraction()) if c is not None else None
        ab, nfresh = _abstract_nl(list(assertions), abst)
        s = z3.Solver()
        s.set('timeout', max(timeout_ms, 2000))
        for a in ab:
            s.add(a)
        r = s.check()
        if r == z3.unsat:
            return 'unsat'
        if nfresh == 0:
            return str(r)
    except z3.Z3Exception:
        pass
    r, _m, _w = _forked(list(assertions), max(1, timeout_ms // 1000))
    return r


def _external(smt2, timeout_ms):
    """try the other installed solvers on an SMT-LIB dump; return 'unsat'/'sat'/'unknown', name"""
    res = []
    with tempfile.NamedTemporaryFile('w', suffix='.smt2', delete=False) as f:
        f.write(smt2)
        fn = f.name
    try:
        for name, cmd in (('cvc5-1.0.3', ['/usr/bin/cvc5', '--tlimit=%d' % timeout_ms, fn]),
                          ('z3-4.8.12', ['/usr/bin/z3', '-T:%d' % max(1, timeout_ms // 1000), fn])):
            try:
                p = subprocess.run(cmd, capture_output=True, text=True, timeout=timeout_ms / 1000.0 + 5)
                out = p.stdout.strip().splitlines()
                if out and out[0] in ('unsat', 'sat'):
                    return out[0], name
            except Exception:
                pass
    finally:
        os.unlink(fn)
    return 'unknown', ''


class _Abstraction(object):
    """replace every maximal nonlinear arithmetic sub-term by a fresh constant (same term -> same constant).
    The abstraction only forgets facts, so `unsat` of the abstracted query implies `unsat` of the original.
    One instance per path: hypotheses are abstracted once and reused by every obligation of the path."""

    def __init__(self):
        self.cache = {}       # term id -> (abstracted term, term)   (terms kept alive: ids are unique among live terms)
        self.fresh = {}       # id of rebuilt nonlinear node -> (constant, node)
        self.top = {}         # id of original hypothesis -> (abstracted simplified hypothesis, original)
        self.lemmas = []      # sound sign facts about the named products / quotients (keep the query linear)
        self.keep = []

    @staticmethod
    def sign_lemmas(x, ch, v):
        """facts true of real multiplication / division, stated over the abstracted children"""
        out = []
        if z3.is_app_of(x, z3.Z3_OP_MUL):
            nonneg = z3.And(*[c >= 0 for c in ch])
            pos = z3.And(*[c > 0 for c in ch])
            out += [z3.Implies(nonneg, v >= 0), z3.Implies(pos, v > 0), z3.Implies(z3.Or(*[c == 0 for c in ch]), v == 0)]
            if len(ch) == 2:
                a, b = ch
                out += [z3.Implies(z3.And(a >= 0, b <= 0), v <= 0), z3.Implies(z3.And(a <= 0, b >= 0), v <= 0), z3.Implies(z3.And(a <= 0, b <= 0), v >= 0),
                        z3.Implies(b == 1, v == a), z3.Implies(a == 1, v == b)]
                if a.eq(b):
                    out.append(v >= 0)
        elif z3.is_app_of(x, z3.Z3_OP_DIV):
            a, b = ch
            out += [z3.Implies(z3.And(a >= 0, b > 0), v >= 0), z3.Implies(z3.And(a > 0, b > 0), v > 0), z3.Implies(z3.And(a <= 0, b > 0), v <= 0),
                    z3.Implies(z3.And(a == 0, b != 0), v == 0), z3.Implies(b == 1, v == a), z3.Implies(z3.And(a == b, b != 0), v == 1)]
        return out

    @staticmethod
    def nl(x):
        if z3.is_app_of(x, z3.Z3_OP_MUL):
            return sum(1 for c in x.children() if _num(c) is None) > 1
        if z3.is_app_of(x, z3.Z3_OP_DIV) or z3.is_app_of(x, z3.Z3_OP_IDIV) or z3.is_app_of(x, z3.Z3_OP_MOD):
            return _num(x.arg(1)) is None
        return z3.is_app_of(x, z3.Z3_OP_POWER)

    def go(self, x):
        k = x.get_id()
        hit = self.cache.get(k)
        if hit is not None:
            return hit[0]
        if z3.is_quantifier(x) or z3.is_var(x) or not z3.is_app(x) or x.num_args() == 0:
            r = x
        elif self.nl(x) and z3.is_app_of(x, z3.Z3_OP_MUL) and any(z3.is_app_of(c, z3.Z3_OP_ITE) for c in x.children()) \
                and sum(1 for c in x.children() if z3.is_app_of(c, z3.Z3_OP_ITE)) <= 3:
            # lift if-then-else out of products:  ite(c, a, b) * d  ->  ite(c, a*d, b*d)   (then simplify and abstract again)
            cs = x.children()
            k = [i for i, c in enumerate(cs) if z3.is_app_of(c, z3.Z3_OP_ITE)][0]
            cond, a, b = cs[k].children()
            rest = cs[:k] + cs[k + 1:]

            def prod(h):
                p = h
                for t in rest:
                    p = p * t
                return p
            lifted = z3.simplify(z3.If(cond, prod(a), prod(b)), som=True)
            self.keep.append(lifted)
            r = self.go(lifted)
        else:
            ch = [self.go(c) for c in x.children()]
            y = x.decl()(*ch)
            if self.nl(x):
                kk = y.get_id()
                if kk not in self.fresh:
                    v = z3.Real('nl!%d' % len(self.fresh)) if z3.is_real(x) else z3.Int('nl!%d' % len(self.fresh))
                    self.fresh[kk] = (v, y)
                    self.lemmas.extend(self.sign_lemmas(x, ch, v))
                r = self.fresh[kk][0]
            else:
                r = y
        self.cache[k] = (r, x)
        return r

    def term(self, t):
        k = t.get_id()
        hit = self.top.get(k)
        if hit is None:
            s = z3.simplify(t, som=True, som_blowup=10)      # sum-of-monomials: (1+j)*w - j*w cancels to w before products are named
            g = self.go(s)
            hit = (g, t, s, not g.eq(s))
            self.top[k] = hit
        return hit[0]

    def is_nonlinear(self, t):
        hit = self.top.get(t.get_id())
        return True if hit is None else hit[3]


class _UFAbstraction(object):
    """second, more robust over-approximation (used when the constant abstraction is inconclusive):
    (1) every arithmetic if-then-else is NAMED by a fresh constant with its two defining implications (no lifting out of
        products, so nested case distinctions do not multiply);
    (2) each formula is brought to sum-of-monomials form;
    (3) products / quotients / powers of non-numeric terms become applications of uninterpreted functions (congruence is kept:
        equal factors give equal products), with commutativity instances and the sign facts of real multiplication.
    Only facts are forgotten, so `unsat` carries over to the original query."""

    def __init__(self):
        self.c1, self.c3, self.top = {}, {}, {}
        self.defs, self.lemmas, self.keep = [], [], []
        self.named, self.prods, self.byconst = {}, {}, {}
        self.fn = {}
        self.pending = []

    def f(self, name, *sorts):
        k = (name,) + tuple(str(x) for x in sorts)
        if k not in self.fn:
            self.fn[k] = z3.Function('%s!%d' % (name, len(self.fn)), *sorts)
        return self.fn[k]

    def ites(self, x):
        k = x.get_id()
        hit = self.c1.get(k)
        if hit is not None:
            return hit[0]
        if z3.is_quantifier(x) or z3.is_var(x) or not z3.is_app(x) or x.num_args() == 0:
            r = x
        else:
            ch = [self.ites(c) for c in x.children()]
            y = x.decl()(*ch)
            if z3.is_app_of(x, z3.Z3_OP_ITE) and z3.is_arith(x):
                kk = y.get_id()
                if kk not in self.named:
                    v = z3.Real('ite!%d' % len(self.named)) if z3.is_real(x) else z3.Int('ite!%d' % len(self.named))
                    self.named[kk] = (v, y)
                    self.byconst[v.get_id()] = (ch[0], ch[1], ch[2])
                    self.defs += [z3.Implies(ch[0], v == ch[1]), z3.Implies(z3.Not(ch[0]), v == ch[2])]
                r = self.named[kk][0]
            else:
                r = y
        self.c1[k] = (r, x)
        return r

    def mk(self, name, a, b, orig_kind):
        fn = self.f(name, a.sort(), b.sort(), z3.RealSort() if (z3.is_real(a) or z3.is_real(b) or name == 'div') else z3.IntSort())
        t = fn(a, b)
        k = t.get_id()
        if k not in self.prods:
            self.prods[k] = t
            if orig_kind == 'mul':
                self.lemmas.append(t == self.f(name, b.sort(), a.sort(), t.sort())(b, a))
                self.lemmas += _Abstraction.sign_lemmas(a * b, [a, b], t)
                # a factor that is a named if-then-else: the product distributes over its two cases (one level; the cases
                # mention further named constants, whose products get their own instances when they are built)
                for v, o in ((a, b), (b, a)):
                    d = self.byconst.get(v.get_id())
                    if d is not None:
                        self.pending.append((t, o, d))
            elif orig_kind == 'div':
                self.lemmas += _Abstraction.sign_lemmas(a / b, [a, b], t)
        return t

    def prods_(self, x):
        k = x.get_id()
        hit = self.c3.get(k)
        if hit is not None:
            return hit[0]
        if z3.is_quantifier(x) or z3.is_var(x) or not z3.is_app(x) or x.num_args() == 0:
            r = x
        else:
            ch = [self.prods_(c) for c in x.children()]
            if z3.is_app_of(x, z3.Z3_OP_MUL):
                nums = [c for c in ch if _num(c) is not None]
                fs = sorted([c for c in ch if _num(c) is None], key=lambda t: t.get_id())
                if len(fs) > 1:
                    if any(z3.is_real(c) for c in fs):
                        fs = [z3.ToReal(c) if z3.is_int(c) else c for c in fs]
                    p = fs[0]
                    for g in fs[1:]:
                        p = self.mk('mul', p, g, 'mul')
                    for n in nums:
                        p = n * p
                    r = p
                else:
                    r = x.decl()(*ch)
            elif z3.is_app_of(x, z3.Z3_OP_DIV) and _num(ch[1]) is None:
                a, b = ch
                r = self.mk('div', z3.ToReal(a) if z3.is_int(a) else a, z3.ToReal(b) if z3.is_int(b) else b, 'div')
            elif (z3.is_app_of(x, z3.Z3_OP_IDIV) or z3.is_app_of(x, z3.Z3_OP_MOD)) and _num(ch[1]) is None:
                r = self.mk('idiv' if z3.is_app_of(x, z3.Z3_OP_IDIV) else 'mod', ch[0], ch[1], 'other')
            elif z3.is_app_of(x, z3.Z3_OP_POWER):
                n = _num(ch[1])
                if n is not None and n == int(n) and 2 <= n <= 4:
                    p = ch[0]
                    for _ in range(int(n) - 1):
                        p = self.mk('mul', p, ch[0], 'mul')
                    r = p
                else:
                    r = self.mk('pow', ch[0], ch[1], 'other')
            else:
                r = x.decl()(*ch)
        self.c3[k] = (r, x)
        return r

    def term(self, t):
        k = t.get_id()
        hit = self.top.get(k)
        if hit is None:
            a = self.ites(t)
            nd = len(self.defs)
            b = z3.simplify(a, som=True, som_blowup=10)
            c = self.prods_(b)
            hit = (c, t, a, b)
            self.top[k] = hit
        return hit[0]

    def query(self, terms):
        out = [self.term(t) for t in terms]
        # definitions of the named ites may themselves contain products / further ites: process to a fixed point
        done = self.__dict__.setdefault('_defs_done', [])
        st = self.__dict__.setdefault('_defs_i', [0])
        while st[0] < len(self.defs) or self.pending:
            while st[0] < len(self.defs):
                d = self.defs[st[0]]
                done.append(self.prods_(z3.simplify(d, som=True, som_blowup=10)))
                self.keep.append(d)
                st[0] += 1
            while self.pending:
                t, o, (cnd, a, b) = self.pending.pop()
                ca = self.prods_(z3.simplify(o * a, som=True, som_blowup=10))
                cb = self.prods_(z3.simplify(o * b, som=True, som_blowup=10))
                cc = self.prods_(z3.simplify(cnd, som=True, som_blowup=10))
                done += [z3.Implies(cc, t == ca), z3.Implies(z3.Not(cc), t == cb)]
                self.keep += [ca, cb, cc]
        return out + list(done) + list(self.lemmas)


def _abstract_nl(terms, ab=None):
    """-> (abstracted terms + sign lemmas, number of the given terms that contain a nonlinear sub-term)"""
    ab = ab or _Abstraction()
    out = [ab.term(t) for t in terms]
    nl = sum(1 for t in terms if ab.is_nonlinear(t))
    return out + (list(ab.lemmas) if nl else []), nl


class _TransModel(object):
    """model of a query that was solved in another z3 context: terms are translated there, values back"""
    def __init__(self, model, ctx):
        self.model, self.ctx = model, ctx

    def eval(self, t, model_completion=False):
        return self.model.eval(t.translate(self.ctx), model_completion=model_completion).translate(z3.main_ctx())


def _forked(assertions, cpu_s, want_model=False, tactic=None, want_model_terms=False):
    """full (nonlinear) query in a forked child with a hard CPU limit: z3's own timeout is not honoured by every
    nonlinear routine, and a CPU limit keeps verdicts independent of machine load.  -> (result, model-json or None)"""
    import resource, select, json, signal
    r, w = os.pipe()
    pid = os.fork()
    if pid == 0:
        try:
            os.close(r)
            resource.setrlimit(resource.RLIMIT_CPU, (int(cpu_s) + 1, int(cpu_s) + 2))
            # the query is re-parsed into a FRESH z3 context: term numbering (on which the nonlinear solver's variable order and
            # the argument order of normal forms depend) is then a function of the query text alone, not of everything
            # the parent process has built before -- verdict and time do not depend on unrelated history
            fresh = None
            if True:
                try:
                    s0 = z3.Solver()
                    for a in assertions:
                        s0.add(a)
                    fresh = z3.Context()
                    parsed = z3.parse_smt2_string(s0.to_smt2(), ctx=fresh)
                except z3.Z3Exception:
                    fresh = None
            if tactic:
                sl = z3.Then(*[z3.Tactic(t, ctx=fresh) for t in tactic], ctx=fresh).solver() if fresh is not None else z3.Then(*tactic).solver()
            else:
                sl = z3.Solver(ctx=fresh) if fresh is not None else z3.Solver()
            # no z3 timeout here: z3 implements it with a timer thread, and thread state does not survive fork();
            # the CPU rlimit (and the parent's wall-clock deadline) bound the query instead
            if fresh is not None:
                for a in parsed:
                    sl.add(a)
            else:
                for a in assertions:
                    sl.add(a)
            res = sl.check()
            out = {'r': str(res)}
            if res == z3.sat and want_model:
                c = _CTX[0]
                try:
                    out['m'] = c.concretise(_TransModel(sl.model(), fresh) if fresh is not None else sl.model()) if c is not None else None
                except Exception as e:
                    out['m'] = None
            if res == z3.unknown:
                out['why'] = sl.reason_unknown()
            os.write(w, json.dumps(out, default=str).encode())
        except BaseException:
            pass
        finally:
            os._exit(0)
    os.close(w)
    buf = b''
    deadline = time.time() + cpu_s * 4 + 10
    try:
        while True:
            left = deadline - time.time()
            if left <= 0:
                break
            ready, _, _ = select.select([r], [], [], min(left, 5.0))
            if ready:
                chunk = os.read(r, 1 << 16)
                if not chunk:
                    break
                buf += chunk
    finally:
        os.close(r)
        try:
            os.kill(pid, signal.SIGKILL)
        except OSError:
            pass
        try:
            os.waitpid(pid, 0)
        except OSError:
            pass
    if not buf:
        return 'unknown', None, 'resource limit (%ss cpu)' % cpu_s
    d = json.loads(buf.decode())
    return d['r'], d.get('m'), d.get('why', '')


class _AssignModel(object):
    """a model given by an explicit assignment of the free constants and of the uninterpreted applications that occur (found by random search and
    VERIFIED by evaluation: every hypothesis simplifies to true and the goal to false under it)"""
    def __init__(self, consts, apps):
        self.consts, self.apps = consts, apps          # lists of (term, value)

    def eval(self, t, model_completion=False):
        r = z3.simplify(z3.substitute(t, *self.consts)) if self.consts else z3.simplify(t)
        for _ in range(6):
            if not self.apps:
                break
            r2 = z3.simplify(z3.substitute(r, *self.apps))
            if r2.eq(r):
                break
            r = r2
        if model_completion and not (z3.is_rational_value(r) or z3.is_int_value(r) or z3.is_true(r) or z3.is_false(r) or z3.is_algebraic_value(r)):
            # constants that did not occur in the query: any value will do
            left = _free_consts([r])
            if left:
                r = z3.simplify(z3.substitute(r, *[(c, z3.RealVal(1) if z3.is_real(c) else (z3.IntVal(1) if z3.is_int(c) else z3.BoolVal(False))) for c in left]))
        return r


def _free_consts(fs):
    seen, out, stack = set(), [], list(fs)
    while stack:
        t = stack.pop()
        k = t.get_id()
        if k in seen:
            continue
        seen.add(k)
        if z3.is_quantifier(t):
            continue
        if z3.is_app(t):
            if t.num_args() == 0 and t.decl().kind() == z3.Z3_OP_UNINTERPRETED:
                out.append(t)
            stack.extend(t.children())
    return out


def _uf_apps(fs):
    seen, out, stack = set(), [], list(fs)
    while stack:
        t = stack.pop()
        k = t.get_id()
        if k in seen:
            continue
        seen.add(k)
        if z3.is_app(t) and not z3.is_quantifier(t):
            if t.num_args() > 0 and t.decl().kind() == z3.Z3_OP_UNINTERPRETED:
                out.append(t)
            stack.extend(t.children())
    return out


def _random_refute(hyps, goal, tries=3, timeout_ms=3000):
    """cheap search for a counter-model of  hyps => goal : the constants and uninterpreted applications that occur only in the GOAL get random
    values, z3 completes the assignment so that every hypothesis holds (without the negated goal the query is easy), and the goal is then EVALUATED in
    that model.  Finds the counterexamples of failed polynomial identities, where the nonlinear solver's own model search is slow."""
    import random
    hyps = list(hyps)
    if z3.is_quantifier(goal) or any(z3.is_quantifier(h) for h in hyps):
        return None
    hc = set(t.get_id() for t in _free_consts(hyps))
    ha = set(t.get_id() for t in _uf_apps(hyps))
    gconsts = [t for t in _free_consts([goal]) if t.get_id() not in hc]
    gapps = [t for t in _uf_apps([goal]) if t.get_id() not in ha]
    if len(gconsts) + len(gapps) > 600:
        return None
    rnd = random.Random(12345)
    pool = [Fraction(1, 2), Fraction(1), Fraction(2), Fraction(3), Fraction(3, 2), Fraction(5, 7), Fraction(7, 3), Fraction(11, 5), Fraction(1, 3), Fraction(13, 4)]

    def val(t, salt):
        if z3.is_bool(t):
            return z3.BoolVal(rnd.random() < 0.5)
        if z3.is_int(t):
            return z3.IntVal(rnd.choice([1, 2, 3, 4, 5]))
        if z3.is_real(t):
            return z3.RealVal(str(rnd.choice(pool) + Fraction(rnd.randint(0, 40), salt)))
        return None
    for k in range(tries):
        sl = z3.Solver()
        sl.set('timeout', timeout_ms)
        for h in hyps:
            sl.add(h)
        ok = True
        for t in gconsts:
            v_ = val(t, 41)
            if v_ is None:
                ok = False
                break
            sl.add(t == v_)
        if not ok:
            return None
        for t in gapps:
            v_ = val(t, 43)
            if v_ is not None:
                sl.add(t == v_)
        if sl.check() != z3.sat:
            continue
        m = sl.model()
        g = m.eval(goal, model_completion=True)
        if z3.is_false(g):
            return m
    return None


# ------------------------------------------------------------------------------------------------
# (R2) counter-models in the STANDARD model: sqrt, cbrt, exp, log, sin, cos, arctan, pow and pi take their real meaning, the free constants and the
# remaining uninterpreted applications (input arrays, callbacks) get random values, every formula is evaluated with outward-rounded intervals and a
# candidate counts only if each hypothesis is CERTAINLY true and the goal CERTAINLY false.  All axioms of the opaque symbols are true of the real
# functions, so such an assignment is a genuine counterexample of the obligation.
# ------------------------------------------------------------------------------------------------
_STD = ('sqrt', 'cbrt', 'exp', 'log', 'sin', 'cos', 'arctan', 'pow', 'arcsin', 'arccos')


class _Unknown(Exception):
    pass


def _std_eval(t, env, rnd, memo):
    """-> mpmath interval for arithmetic terms, True/False for boolean terms; raises _Unknown when a value cannot be certified"""
    from mpmath import iv
    k0 = t.get_id()
    if k0 in memo:
        return memo[k0]
    r = _std_eval1(t, env, rnd, memo)
    memo[k0] = r
    return r


def _std_eval1(t, env, rnd, memo):
    from mpmath import iv
    if z3.is_true(t):
        return True
    if z3.is_false(t):
        return False
    if z3.is_rational_value(t):
        return iv.mpf(t.numerator_as_long()) / iv.mpf(t.denominator_as_long())
    if z3.is_int_value(t):
        return iv.mpf(t.as_long())
    if z3.is_algebraic_value(t):
        a = t.approx(30)
        return iv.mpf(a.numerator_as_long()) / iv.mpf(a.denominator_as_long())
    if z3.is_quantifier(t) or z3.is_var(t) or not z3.is_app(t):
        raise _Unknown('u1')
    k, nm, n = t.decl().kind(), t.decl().name(), t.num_args()
    ev = lambda c: _std_eval(c, env, rnd, memo)
    if n == 0:
        if nm == 'pi':
            return iv.pi
        key = ('c', t.get_id())
        if key not in env:
            if z3.is_bool(t):
                env[key] = (t, rnd.random() < 0.5)
            elif z3.is_int(t):
                env[key] = (t, rnd.choice([1, 2, 3, 4, 5, 7]))
            elif z3.is_real(t):
                env[key] = (t, Fraction(rnd.randint(1, 400), rnd.choice([3, 7, 10, 40, 100])))
            else:
                raise _Unknown('u2')
        v = env[key][1]
        return v if isinstance(v, bool) else iv.mpf(v.numerator) / iv.mpf(v.denominator) if isinstance(v, Fraction) else iv.mpf(v)
    if k == z3.Z3_OP_AND:
        vals = [ev(c) for c in t.children()]
        return all(vals)
    if k == z3.Z3_OP_OR:
        return any([ev(c) for c in t.children()])
    if k == z3.Z3_OP_NOT:
        return not ev(t.arg(0))
    if k == z3.Z3_OP_IMPLIES:
        return (not ev(t.arg(0))) or ev(t.arg(1))
    if k == z3.Z3_OP_ITE:
        return ev(t.arg(1)) if ev(t.arg(0)) else ev(t.arg(2))
    if k in (z3.Z3_OP_EQ, z3.Z3_OP_IFF) and z3.is_bool(t.arg(0)):
        return ev(t.arg(0)) == ev(t.arg(1))
    if k in (z3.Z3_OP_LE, z3.Z3_OP_LT, z3.Z3_OP_GE, z3.Z3_OP_GT, z3.Z3_OP_EQ, z3.Z3_OP_DISTINCT):
        a, b = ev(t.arg(0)), ev(t.arg(1))
        d = a - b
        if k == z3.Z3_OP_LE or k == z3.Z3_OP_LT:
            if d.b < 0 or (k == z3.Z3_OP_LE and d.b <= 0):
                return True
            if d.a > 0 or (k == z3.Z3_OP_LT and d.a >= 0):
                return False
            raise _Unknown('u3')
        if k == z3.Z3_OP_GE or k == z3.Z3_OP_GT:
            if d.a > 0 or (k == z3.Z3_OP_GE and d.a >= 0):
                return True
            if d.b < 0 or (k == z3.Z3_OP_GT and d.b <= 0):
                return False
            raise _Unknown('u4')
        if d.a > 0 or d.b < 0:
            return k == z3.Z3_OP_DISTINCT
        if d.a == 0 and d.b == 0:
            return k == z3.Z3_OP_EQ
        if env.get('__hyp__') and (d.b - d.a) < iv.mpf(10) ** -20 * (1 + abs(a.mid)):
            # a HYPOTHESIS that is an identity of the real functions (e.g. an assumed log(u/v) = log u - log v) cannot be certified exactly by intervals;
            # it is accepted when both sides agree to 20 digits (the goal itself is never judged this way)
            return k == z3.Z3_OP_EQ
        raise _Unknown('u5')
    if k == z3.Z3_OP_ADD:
        r = ev(t.arg(0))
        for c in t.children()[1:]:
            r = r + ev(c)
        return r
    if k == z3.Z3_OP_SUB:
        r = ev(t.arg(0))
        for c in t.children()[1:]:
            r = r - ev(c)
        return r
    if k == z3.Z3_OP_UMINUS:
        return -ev(t.arg(0))
    if k == z3.Z3_OP_MUL:
        r = ev(t.arg(0))
        for c in t.children()[1:]:
            r = r * ev(c)
        return r
    if k == z3.Z3_OP_DIV:
        a, b = ev(t.arg(0)), ev(t.arg(1))
        if b.a <= 0 <= b.b:
            raise _Unknown('u6')
        return a / b
    if k in (z3.Z3_OP_TO_REAL, z3.Z3_OP_TO_INT):
        a = ev(t.arg(0))
        if k == z3.Z3_OP_TO_INT:
            if a.a != a.b:
                raise _Unknown('u7')
            import math
            return iv.mpf(math.floor(float(a.a)))
        return a
    if k == z3.Z3_OP_POWER:
        a, b = ev(t.arg(0)), ev(t.arg(1))
        if a.a <= 0:
            raise _Unknown('u8')
        return iv.exp(b * iv.log(a))
    if k == z3.Z3_OP_UNINTERPRETED:
        args = [ev(c) for c in t.children()]
        base = nm.split('!')[0]
        if base in _STD and nm == base:
            x = args[0]
            if base == 'sqrt':
                if x.a < 0:
                    raise _Unknown('u9')
                return iv.sqrt(x)
            if base == 'cbrt':
                if x.a > 0:
                    return iv.exp(iv.log(x) / 3)
                if x.b < 0:
                    return -iv.exp(iv.log(-x) / 3)
                raise _Unknown('u10')
            if base == 'exp':
                return iv.exp(x)
            if base == 'log':
                if x.a <= 0:
                    raise _Unknown('u11')
                return iv.log(x)
            if base == 'sin':
                return iv.sin(x)
            if base == 'cos':
                return iv.cos(x)
            if base == 'arctan':
                return iv.atan(x)
            if base == 'pow':
                if x.a <= 0:
                    raise _Unknown('u12')
                return iv.exp(args[1] * iv.log(x))
            raise _Unknown('u13')                      # arcsin / arccos: no interval routine
        # any other uninterpreted function (input array, callback result): a random value per distinct argument tuple
        if any(not isinstance(a, bool) and a.a != a.b for a in args):
            raise _Unknown('u14')
        key = ('f', nm) + tuple(a if isinstance(a, bool) else str(a.a) for a in args)
        if key not in env:
            if z3.is_bool(t):
                env[key] = (t, rnd.random() < 0.5)
            elif z3.is_int(t):
                env[key] = (t, rnd.choice([0, 1, 2, 3]))
            else:
                env[key] = (t, Fraction(rnd.randint(1, 400), rnd.choice([3, 7, 10, 40, 100])))
        v = env[key][1]
        return v if isinstance(v, bool) else (iv.mpf(v.numerator) / iv.mpf(v.denominator) if isinstance(v, Fraction) else iv.mpf(v))
    raise _Unknown('u15')


def _standard_refute(hyps, goal, tries=40):
    import random
    from mpmath import iv
    iv.dps = 30
    rnd = random.Random(4242)
    c = _CTX[0]
    ax = c._axiom_keys if c is not None else set()
    hyps = [h for h in hyps if h.get_id() not in ax]          # the axioms of sqrt, exp, log, ... hold in the standard model by definition
    for _ in range(tries):
        env, memo = {}, {}
        try:
            ok = True
            env['__hyp__'] = True
            for h in hyps:
                if _std_eval(h, env, rnd, memo) is not True:
                    ok = False
                    break
            env['__hyp__'] = False
            if not ok:
                continue
            if _std_eval(goal, env, rnd, {}) is False:
                return env
        except (_Unknown, ZeroDivisionError, OverflowError, ValueError) as e_:
            if os.environ.get('KVC_DEBUG_RANDOM'):
                print('STD-REFUTE candidate rejected:', type(e_).__name__, e_, flush=True)
            continue
        except Exception as e_:
            if os.environ.get('KVC_DEBUG_RANDOM'):
                import traceback
                traceback.print_exc()
            return None
        if os.environ.get('KVC_DEBUG_RANDOM'):
            bad = [str(h)[:200] for h in hyps if _std_eval(h, env, rnd, memo) is not True]
            print('STD-REFUTE: hyps not true %d %s | goal %s' % (len(bad), bad[:2], 'n/a' if bad else _std_eval(goal, env, rnd, memo)), flush=True)
    return None


class _StdModel(object):
    """model interface over a standard-model assignment (see _standard_refute): values are interval mid points as rationals"""
    def __init__(self, env):
        import random
        self.env, self.rnd = env, random.Random(99)

    def eval(self, t, model_completion=False):
        try:
            r = _std_eval(t, self.env, self.rnd, {})
        except Exception:
            return t
        if isinstance(r, bool):
            return z3.BoolVal(r)
        import mpmath
        sign, man, exp, bc = r.mid._mpi_[0] if hasattr(r.mid, '_mpi_') else mpmath.mpf(r.mid)._mpf_
        v = Fraction(int(man)) * (Fraction(2) ** int(exp))
        v = -v if sign else v
        if z3.is_int(t):
            return z3.IntVal(int(v))
        return z3.RealVal(str(v.limit_denominator(10 ** 18)))


def _mentions_std(fs):
    seen, stack = set(), list(fs)
    while stack:
        t = stack.pop()
        k = t.get_id()
        if k in seen or z3.is_quantifier(t) or not z3.is_app(t):
            continue
        seen.add(k)
        if t.num_args() > 0 and t.decl().kind() == z3.Z3_OP_UNINTERPRETED and t.decl().name() in _STD:
            return True
        stack.extend(t.children())
    return False


_DUMPN = [0]


def discharge(hyps, goal, timeout_ms, quick=False, refute_first=False):
    """returns verdict ('proved'|'refuted'|'undecided'), model (concretised dict) or None, backend, reason.
    (A) nonlinear sub-terms abstracted to fresh constants + sign lemmas: linear + UF, in process, only `unsat` is used
        (exact when the query has no nonlinear term);
    (B) the full query in a forked child with a CPU limit (skipped for `quick`, i.e. the silently applied lemmas);
    (C) nlsat tactic, then cvc5 / z3 4.8 on an SMT-LIB dump."""
    ver = 'z3-' + z3.get_version_string()
    nfresh = 1
    if os.environ.get('KVC_DUMP_DIR') and not quick:
        _DUMPN[0] += 1
        _s = z3.Solver()
        for h in hyps:
            _s.add(h)
        _s.add(z3.Not(goal))
        open(os.path.join(os.environ['KVC_DUMP_DIR'], 'q%04d.smt2' % _DUMPN[0]), 'w').write(_s.to_smt2())
    # (A0) polynomial identities: lhs - rhs normalises to 0 (sum-of-monomials normal form of the simplifier)
    try:
        gs = z3.simplify(goal)
        if z3.is_eq(gs) and z3.is_arith(gs.arg(0)):
            dlt = z3.simplify(gs.arg(0) - gs.arg(1), som=True, som_blowup=1000000)
            n0 = _num(dlt)
            if n0 is not None and n0 == 0:
                return 'proved', None, ver + ' simplifier (polynomial normal form)', ''
            if not quick and len(dlt.sexpr()) > 20000:
                refute_first = True          # a large polynomial that does not cancel: a counter-model is far cheaper to find than a proof attempt
    except z3.Z3Exception:
        pass
    if refute_first and not quick:
        # deliberately wrong clause (canary): look for a counter-model before spending time on proof attempts
        try:
            am = _random_refute(hyps, goal)
            if am is None and _mentions_std([goal]):
                env_ = _standard_refute(hyps, goal)
                am = _StdModel(env_) if env_ is not None else None
            if am is not None:
                c0 = _CTX[0]
                mm = None
                if c0 is not None:
                    try:
                        mm = c0.concretise(am)
                    except Exception:
                        mm = None
                return 'refuted', mm, ver + ' (counter-model found by random search, verified by evaluation)' if not isinstance(am, _StdModel) else ver + ' (counter-model in the standard model of the transcendental functions, certified by interval evaluation)', ''
        except z3.Z3Exception:
            pass
    try:
        c = _CTX[0]
        abst = c.__dict__.setdefault('_abst', _Abstraction()) if c is not None else None
        ab, nfresh = _abstract_nl(list(hyps) + [z3.Not(goal)], abst)
        sa = z3.Solver()
        sa.set('timeout', min(max(timeout_ms, 2000), 10000))
        for h in ab:
            sa.add(h)
        ra = sa.check()
        if ra == z3.unsat:
            return 'proved', None, ver + (' (nonlinear terms abstracted)' if nfresh else ''), ''
        if ra == z3.sat and nfresh == 0:
            m = None
            if not quick and c is not None:
                try:
                    m = c.concretise(sa.model())
                except Exception:
                    m = None
            return 'refuted', m, ver, ''
    except z3.Z3Exception:
        pass
    if quick:
        return 'undecided', None, ver, 'abstraction inconclusive'
    # (A2) if-then-else terms named, products uninterpreted (congruence kept): linear + UF, in process, only `unsat` is used
    try:
        if nfresh:
            uf = c.__dict__.setdefault('_ufabst', _UFAbstraction()) if c is not None else _UFAbstraction()
            sb = z3.Solver()
            sb.set('timeout', min(max(timeout_ms, 2000), 10000))
            for h in uf.query(list(hyps) + [z3.Not(goal)]):
                sb.add(h)
            if sb.check() == z3.unsat:
                return 'proved', None, ver + ' (if-then-else named, products uninterpreted)', ''
    except z3.Z3Exception:
        pass
    # (R) random search for a verified counter-model (cheap; catches failed polynomial identities whose models the nonlinear solver finds slowly)
    try:
        am = None if refute_first else _random_refute(hyps, goal, tries=1, timeout_ms=800)      # (already tried above when refute_first)
        if am is None and not refute_first and _mentions_std([goal]):
            env_ = _standard_refute(hyps, goal)
            am = _StdModel(env_) if env_ is not None else None
        if am is not None:
            mm = None
            if c is not None:
                try:
                    mm = c.concretise(am)
                except Exception:
                    mm = None
            return 'refuted', mm, ver + ' (counter-model found by random search, verified by evaluation)' if not isinstance(am, _StdModel) else ver + ' (counter-model in the standard model of the transcendental functions, certified by interval evaluation)', ''
    except z3.Z3Exception:
        pass
    cpu = max(2, timeout_ms // 1000)
    r, m, why = _forked(list(hyps) + [z3.Not(goal)], cpu, want_model=True)
    if r == 'unsat':
        return 'proved', None, ver + ' (forked, cpu-limited)', ''
    if r == 'sat':
        return 'refuted', m, ver + ' (forked, cpu-limited)', ''
    reason = why
    r2, m2, why2 = _forked(list(hyps) + [z3.Not(goal)], cpu, want_model=True, tactic=('simplify', 'solve-eqs', 'qfnra-nlsat'))
    if r2 == 'unsat':
        return 'proved', None, ver + '/qfnra-nlsat (forked)', ''
    if r2 == 'sat':
        return 'refuted', m2, ver + '/qfnra-nlsat (forked)', ''
    try:
        s = z3.Solver()
        for h in hyps:
            s.add(h)
        s.add(z3.Not(goal))
        smt2 = '(set-logic ALL)\n' + s.to_smt2().replace('(set-info :status unknown)', '')
        ext, name = _external(smt2, timeout_ms)
        if ext == 'unsat':
            return 'proved', None, name, ''
        if ext == 'sat':
            return 'refuted', None, name, 'model not imported from external solver'
    except Exception as e:  # pragma: no cover
        reason += ' ext:%s' % e
    return 'undecided', None, 'z3+cvc5', reason


def model_value(model, x):
    """evaluate scalar (python or SV) in a z3 model -> python Fraction/int/bool"""
    x = _generic(x)
    if _isnum(x):
        return _c(x)
    v = model.eval(x.t, model_completion=True)
    n = _num(v)
    if n is not None:
        return n
    if z3.is_algebraic_value(v):
        a = v.approx(20)
        return Fraction(a.numerator_as_long(), a.denominator_as_long())
    v2 = z3.simplify(v)
    n = _num(v2)
    if n is not None:
        return n
    raise ValueError('no numeral for %s' % v)


# ----------------------------------------------------------------------------------------------------
# IEEE-754 double values (only for the obligations explicitly marked FP64, DESIGN 3.1)
# ----------------------------------------------------------------------------------------------------
FP64 = z3.Float64()
RNE = z3.RNE()


class FPV(object):
    """a python float modelled exactly as an IEEE double (round to nearest even); comparisons with NaN
    are false as in Python"""
    __slots__ = ('t',)
    __hash__ = object.__hash__

    def __init__(self, t):
        self.t = t

    @staticmethod
    def of(x):
        if isinstance(x, FPV):
            return x
        if isinstance(x, (int, Fraction)):
            return FPV(z3.FPVal(float(x), FP64))
        if isinstance(x, float):
            return FPV(z3.FPVal(x, FP64))
        raise Unsupported('FP64 mode: cannot mix with %r' % (x,))

    def __add__(self, o): return FPV(z3.fpAdd(RNE, self.t, FPV.of(o).t))
    def __radd__(self, o): return FPV(z3.fpAdd(RNE, FPV.of(o).t, self.t))
    def __sub__(self, o): return FPV(z3.fpSub(RNE, self.t, FPV.of(o).t))
    def __rsub__(self, o): return FPV(z3.fpSub(RNE, FPV.of(o).t, self.t))
    def __mul__(self, o): return FPV(z3.fpMul(RNE, self.t, FPV.of(o).t))
    def __rmul__(self, o): return FPV(z3.fpMul(RNE, FPV.of(o).t, self.t))
    def __truediv__(self, o): return FPV(z3.fpDiv(RNE, self.t, FPV.of(o).t))
    def __neg__(self): return FPV(z3.fpNeg(self.t))
    def __lt__(self, o): return SV(z3.fpLT(self.t, FPV.of(o).t))
    def __le__(self, o): return SV(z3.fpLEQ(self.t, FPV.of(o).t))
    def __gt__(self, o): return SV(z3.fpGT(self.t, FPV.of(o).t))
    def __ge__(self, o): return SV(z3.fpGEQ(self.t, FPV.of(o).t))
    def __eq__(self, o): return SV(z3.fpEQ(self.t, FPV.of(o).t))
    def __ne__(self, o): return SV(z3.Not(z3.fpEQ(self.t, FPV.of(o).t)))
    def is_nan(self): return SV(z3.fpIsNaN(self.t))
    def is_inf(self): return SV(z3.fpIsInf(self.t))
    def is_finite(self): return SV(z3.And(z3.Not(z3.fpIsNaN(self.t)), z3.Not(z3.fpIsInf(self.t))))

    def __repr__(self):
        return 'FPV(%s)' % self.t


def fp_ite(c, a, b):
    return FPV(z3.If(zbool(c), FPV.of(a).t, FPV.of(b).t))


_ite_real = ite


def ite(c, a, b):  # noqa: F811  (extends ite to FP64 values)
    if isinstance(a, FPV) or isinstance(b, FPV):
        c = _generic(c)
        if isinstance(c, (bool, int)):
            return a if c else b
        return fp_ite(c, a, b)
    return _ite_real(c, a, b)
