"""kvc.replay -- replay a solver counterexample against the REAL (imported, CPython-executed) kawin code.

The contract function is run again in replay mode: declared inputs take the values of the model, the call
of the contracted target is bridged to the real function object imported from /repo (engine values are
converted to numpy/float/real instances and back), and the contract's clauses are evaluated on the real
results (relative tolerance 1e-9 for real-arithmetic comparisons).
"""
import importlib, json, os, sys, traceback
from fractions import Fraction
import z3
from . import sym, arr, run as runmod
from .sym import SV, Ctx, PyRaise, Unsupported, PathEnd, Infeasible
from .arr import Arr, ArrBase, View
from .interp import Interp, Obj, Cls, Func, BoundMethod, EnumMember, Module

TOL = Fraction(1, 10 ** 9)


class ReplayCtx(Ctx):
    def __init__(self, rrun, model):
        Ctx.__init__(self, rrun, [])
        self.model = model or {}
        self.results = []            # (name, kind, bool or None)
        self.assumption_failures = []
        self.replay = True

    def fresh(self, base, sort='real'):
        # ghost values have no meaning in a concrete replay; clauses that need them are skipped
        raise _Skip('fresh symbol %s in replay' % base)

    def fresh_fn(self, base, nargs=1, sort='real'):
        raise _Skip('fresh function %s in replay' % base)

    def assume(self, *conds):
        for c in conds:
            if isinstance(c, (list, tuple)):
                self.assume(*c)
                continue
            v = _truth(c)
            if v is False:
                self.assumption_failures.append(str(c)[:200])

    def axiom(self, t):
        pass

    def mono_pair(self, *a, **k):
        pass

    def pow_pair(self, *a, **k):
        pass

    def branch(self, cond):
        c = z3.simplify(cond)
        if z3.is_true(c):
            return True
        if z3.is_false(c):
            return False
        raise _Skip('symbolic branch in replay: %s' % c)

    def side(self, name, cond, where=''):
        v = _truth(cond)
        self.results.append(('side:' + name, 'side', v, where))

    def prove(self, name, goal, kind='ensures', inst=(), where='', assume_after=False, timeout=None, expect=None):
        v = _truth(goal)
        self.results.append((name, kind, v, where))
        return bool(v)

    def sum_lemma(self, name, parts, F, rel='==', extra_const=0, inst=()):
        return True

    def sum_term(self, n, fn, label='sum'):
        n = sym._generic(n)
        tot = 0
        for i in range(int(n)):
            tot = sym.add(tot, fn(i))
        return tot


class _Skip(Exception):
    pass


def _truth(c):
    c = sym._generic(c)
    if isinstance(c, (bool, int, Fraction)):
        return bool(c)
    if isinstance(c, SV):
        t = z3.simplify(sym.zbool(c))
        if z3.is_true(t):
            return True
        if z3.is_false(t):
            return False
    return None


# ---------------------------------------------------------------------------------------------------
# engine <-> native conversion
# ---------------------------------------------------------------------------------------------------
class Bridge(object):
    def __init__(self, interp):
        self.interp = interp
        self.to_n = {}        # id(engine value) -> native
        self.objs = []        # (Obj, native instance)
        self.arrs = []        # (Arr, ndarray)
        self.keep = []

    def native(self, v):
        import numpy as np
        v = sym._generic(v)
        if v is None or isinstance(v, (bool, str)):
            return v
        if isinstance(v, int):
            return v
        if isinstance(v, Fraction):
            return float(v)
        if isinstance(v, SV):
            raise _Skip('symbolic value reaches native call')
        if id(v) in self.to_n:
            return self.to_n[id(v)]
        self.keep.append(v)
        if isinstance(v, ArrBase):
            if not all(arr.dim_conc(d) for d in v.shape):
                raise _Skip('symbolic shape reaches native call')
            data = v.tolist() if v.ndim else v.get()
            dt = {'real': float, 'int': int, 'bool': bool, 'str': str}.get(v.dtype, float)
            a = np.array(_map_leaves(data, lambda x: _leaf(x)), dtype=dt)
            if v.ndim and a.shape != tuple(v.shape):
                a = a.reshape(tuple(v.shape))
            self.to_n[id(v)] = a
            if isinstance(v, Arr):
                self.arrs.append((v, a, a.copy()))
            return a
        if isinstance(v, list):
            out = []
            self.to_n[id(v)] = out
            out.extend(self.native(x) for x in v)
            return out
        if isinstance(v, tuple):
            return tuple(self.native(x) for x in v)
        if isinstance(v, dict):
            out = {}
            self.to_n[id(v)] = out
            for k, x in v.items():
                out[self.native(k)] = self.native(x)
            return out
        if isinstance(v, EnumMember):
            cls = getattr(importlib.import_module(v.cls.module.name), v.cls.name)
            return cls[v.name]
        if isinstance(v, Obj):
            cls = getattr(importlib.import_module(v.cls.module.name), v.cls.name)
            inst = object.__new__(cls)
            self.to_n[id(v)] = inst
            self.objs.append((v, inst))
            for k, x in v.fields.items():
                inst.__dict__[k] = self.native(x)
            return inst
        if isinstance(v, Cls):
            return getattr(importlib.import_module(v.module.name), v.name)
        if isinstance(v, (Func, BoundMethod)):
            if isinstance(v, BoundMethod) and isinstance(v.obj, Obj) and v.func.owner is not None:
                return getattr(self.native(v.obj), v.func.name)
            if isinstance(v, Func) and v.closure is None and v.owner is None and v.module is not None:
                return getattr(importlib.import_module(v.module.name), v.name)
            br = self

            def cb(*a, **k):
                r = v(*[br.engine(x) for x in a], **{kk: br.engine(x) for kk, x in k.items()})
                return br.native(r)
            return cb
        if hasattr(v, '__kvc_native__'):
            return v.__kvc_native__(self)
        if type(v).__module__.startswith('contracts') and not callable(v):
            px = NativeProxy(v, self)
            self.to_n[id(v)] = px
            return px
        if callable(v):
            br = self

            def cb2(*a, **k):
                r = v(*[br.engine(x) for x in a], **{kk: br.engine(x) for kk, x in k.items()})
                return br.native(r)
            return cb2
        return v

    def engine(self, v, fresh=False):
        import numpy as np
        if v is None or isinstance(v, (bool, str)):
            return v
        if isinstance(v, (np.bool_,)):
            return bool(v)
        if isinstance(v, (int, np.integer)):
            return int(v)
        if isinstance(v, (float, np.floating)):
            f = float(v)
            if f != f or f in (float('inf'), float('-inf')):
                return NonFinite(f)
            return Fraction(f)
        if isinstance(v, np.ndarray):
            for a, n, _c in self.arrs:
                if n is v:
                    return a
            if v.ndim == 0:
                return self.engine(v.item())       # numpy 0-d results behave as scalars in the contracts
            return nd_to_arr(v)
        if isinstance(v, list):
            return [self.engine(x) for x in v]
        if isinstance(v, tuple):
            return tuple(self.engine(x) for x in v)
        if isinstance(v, dict):
            return {self.engine(k): self.engine(x) for k, x in v.items()}
        for o, inst in self.objs:
            if inst is v:
                return o
        mod = type(v).__module__ or ''
        if mod.startswith('kawin'):
            import enum
            if isinstance(v, enum.Enum):
                c = self.interp.get(mod, type(v).__name__)
                return c.attrs[v.name]
            c = self.interp.get(mod, type(v).__name__)
            o = Obj(c)
            self.objs.append((o, v))
            self.to_n[id(o)] = v
            self.keep.append(o)
            for k, x in v.__dict__.items():
                o.fields[k] = self.engine(x)
            return o
        return v

    def sync_back(self):
        """after a native call: reflect in-place mutations of arrays and objects in the engine values"""
        import numpy as np
        for a, n, before in list(self.arrs):
            if n.shape == before.shape and (np.array_equal(n, before, equal_nan=True) if n.dtype.kind in 'fc' else np.array_equal(n, before)):
                continue          # untouched by the real code: keep the engine's (total) element function
            new = nd_to_arr(n)
            a.shape = new.shape
            a.update(None, new.snap())
        for o, inst in list(self.objs):
            for k, x in inst.__dict__.items():
                cur = o.fields.get(k, _MISSING)
                nat = self.to_n.get(id(cur)) if cur is not _MISSING and not isinstance(cur, (int, bool, str, Fraction)) and cur is not None else _MISSING
                if nat is x and nat is not _MISSING:
                    continue      # same object as before (arrays already refreshed above)
                o.fields[k] = self.engine(x)
            for k in list(o.fields):
                if k not in inst.__dict__:
                    del o.fields[k]


_MISSING = object()


class NativeProxy(object):
    """a contract-side stub object seen from the real code: attributes are converted to native values on access,
    method arguments / results are converted both ways, attribute stores go back to the stub as engine values"""
    def __init__(self, obj, bridge):
        object.__setattr__(self, '_o', obj)
        object.__setattr__(self, '_b', bridge)

    def __getattr__(self, name):
        o, b = object.__getattribute__(self, '_o'), object.__getattribute__(self, '_b')
        v = getattr(o, name)
        if callable(v) and not isinstance(v, (Obj, Cls)):
            def call(*a, **k):
                return b.native(v(*[b.engine(x) for x in a], **{kk: b.engine(x) for kk, x in k.items()}))
            return call
        return b.native(v)

    def __setattr__(self, name, value):
        o, b = object.__getattribute__(self, '_o'), object.__getattribute__(self, '_b')
        setattr(o, name, b.engine(value))


class NonFinite(object):
    """nan / inf produced by the real code (outside the mathematical-real model)"""
    def __init__(self, f):
        self.f = f

    def __repr__(self):
        return 'NonFinite(%r)' % self.f


def _leaf(x):
    x = sym._generic(x)
    if isinstance(x, Fraction):
        return float(x)
    if isinstance(x, SV):
        raise _Skip('symbolic element reaches native call')
    return x


def _map_leaves(d, f):
    if isinstance(d, list):
        return [_map_leaves(x, f) for x in d]
    return f(d)


def nd_to_arr(n):
    import numpy as np
    dt = 'bool' if n.dtype == bool else ('int' if np.issubdtype(n.dtype, np.integer) else ('str' if n.dtype.kind in 'US' else 'real'))
    if n.dtype == object:
        raise _Skip('object ndarray')
    data = n.tolist()

    def conv(x):
        if isinstance(x, list):
            return [conv(y) for y in x]
        if isinstance(x, float):
            if x != x or x in (float('inf'), float('-inf')):
                return NonFinite(x)
            return Fraction(x)
        return x
    data = conv(data)
    shape = tuple(n.shape)
    if not shape:
        return Arr((), lambda: data, dt)

    def fn(*idx):
        d = data
        for i in idx:
            i = sym._generic(i)
            if isinstance(i, SV):
                raise _Skip('symbolic index in replay')
            i = int(i)
            if i < 0 or i >= len(d):
                return 0
            d = d[i]
        return d
    return Arr(shape, fn, dt)


def native_call(interp, f, args, kwargs):
    br = Bridge(interp)
    interp.bridges = getattr(interp, 'bridges', [])
    interp.bridges.append(br)
    nargs = [br.native(x) for x in args]
    nkw = {k: br.native(x) for k, x in kwargs.items()}
    modname = f.module.name
    mod = importlib.import_module(modname)
    if f.owner is not None:
        target = getattr(getattr(mod, f.owner.name), f.name)
        if isinstance(target, property):
            target = target.fget
    else:
        target = getattr(mod, f.name)
    try:
        import numpy as np
        with np.errstate(all='ignore'):
            res = target(*nargs, **nkw)
    except _Skip:
        raise
    except Exception as e:
        br.sync_back()
        tb = traceback.extract_tb(e.__traceback__)
        where = '%s:%d' % (os.path.relpath(tb[-1].filename, interp.repo), tb[-1].lineno) if tb else ''
        ex = PyRaise(type(e).__name__, str(e), where)
        ex.native = True
        raise ex
    br.sync_back()
    return br.engine(res)


def install_native(interp, targets):
    """route calls of the contracted targets to the real imported functions"""
    keys = set()
    for t in targets:
        dotted, qual = t.split(':')
        rel = interp.relpath_of(dotted)
        keys.add('%s:%s' % (rel, qual))

    def summary(it, f, args, kwargs):
        if getattr(it, '_in_native', False):
            return NotImplemented
        it._in_native = True
        try:
            return native_call(it, f, args, kwargs)
        finally:
            it._in_native = False
    for k in keys:
        interp.summaries[k] = summary


class ReplayRun(object):
    timeout_ms = 1000
    config_name = ''

    def __init__(self):
        self.worklist = []
        self.obligations = []

    def record(self, ob):
        pass


def replay_obligation(reg, mod, rec):
    """returns dict(reproduced: bool|None, detail, clause results)"""
    cname, cfgname, model = rec['contract'], rec['config'], rec.get('model')
    if model is None:
        return dict(reproduced=None, detail='the solver returned no model for this obligation (%s)' % rec.get('reason'))
    c = [x for x in reg.contracts if x.name == cname]
    if not c:
        return dict(reproduced=None, detail='contract not found')
    c = c[0]
    cfg = [k for k in c.configs if k.get('name', '') == cfgname][0]
    if sys.path[0] != interp_repo():
        sys.path.insert(0, interp_repo())
    ctx = ReplayCtx(ReplayRun(), model)
    sym._CTX[0] = ctx
    old_tol = sym.REPLAY_TOL
    sym.REPLAY_TOL = TOL
    detail = ''
    try:
        it = Interp()
        install_native(it, c.targets)
        try:
            c.fn(ctx, it, cfg)
        except PyRaise as e:
            if getattr(e, 'native', False):
                ctx.results.append(('no-exception', 'crash-freedom', False, '%s: %s %s' % (e.etype, e.msg, e.where)))
            else:
                detail = 'replay stopped: exception in interpreted (non-target) code, not in the real target: %s: %s %s' % (e.etype, e.msg, e.where)
        except (_Skip, PathEnd, Infeasible) as e:
            detail = 'replay stopped: %s' % e
        except Unsupported as e:
            detail = 'replay stopped (unsupported in concrete mode): %s' % e
        except (ArithmeticError, TypeError, ValueError, KeyError, IndexError, AttributeError) as e:
            # the specification text of a LATER clause could not be evaluated on these concrete values (e.g. a non-finite result of the real code
            # entering spec arithmetic): the clauses evaluated so far stand
            detail = 'replay stopped after the clauses evaluated so far: %s: %s' % (type(e).__name__, e)
    finally:
        sym._CTX[0] = None
        sym.REPLAY_TOL = old_tol
    prefix = '%s%s/' % (cname, '[%s]' % cfgname if cfgname else '')
    want = rec['obligation'][len(prefix):] if rec['obligation'].startswith(prefix) else rec['obligation']
    import re
    want = re.sub(r'/(step\d+|pointwise|same-length)$', '', want)     # sub-steps replay as their parent clause
    hits = [r for r in ctx.results if r[0] == want]
    failed = [r for r in ctx.results if r[2] is False]
    reproduced = any(r[2] is False for r in hits)
    other = [r[0] for r in failed if r[0] != want]
    if not reproduced and other and not hits:
        # the path of the counterexample ends earlier on the real code (e.g. it raises): still a real failure
        reproduced = any(r[0] == 'no-exception' for r in failed) and want == 'no-exception'
    return dict(reproduced=bool(reproduced), detail=detail,
                clause_results=[dict(name=r[0], kind=r[1], holds=r[2], where=r[3]) for r in ctx.results if r[1] != 'side' or r[2] is False][:60],
                assumptions_not_met=ctx.assumption_failures[:10],
                other_failed_clauses=other[:20], executed='real code imported from %s' % interp_repo())


def interp_repo():
    from . import interp as I
    return I.REPO


def replay_file(reg, mod, path):
    rec = json.load(open(path))
    rep = replay_obligation(reg, mod, rec)
    print(json.dumps(rep, indent=1, default=str))
    return 1 if rep.get('reproduced') else 0
