"""kvc.arr -- numpy arrays as pointwise lambda arrays (DESIGN 2.3) and the numpy model `NP`.

An array is (shape, element function).  Shapes hold python ints or SV ints.  Element functions are
immutable snapshots; mutation replaces the current function of the mutated base array; basic slices are
write-through views; boolean-mask reads are `Masked` compressed copies.
"""
from fractions import Fraction
import z3
from . import sym
from .sym import SV, CTX, Unsupported, PyRaise, ite, zterm, zbool, wrap, is_conc

_generic = sym._generic


def _key(i):
    if isinstance(i, SV):
        return ('t', i.t.get_id())
    return i


def memo(f):
    cache = {}

    def g(*idx):
        k = tuple(_key(i) for i in idx)
        try:
            return cache[k][1]
        except KeyError:
            c = sym._CTX[0]
            old = c.side_on if c is not None else None
            if c is not None:
                c.side_on = False     # domain checks are made when the array operation executes (op time), not here
            try:
                v = f(*idx)
            finally:
                if c is not None:
                    c.side_on = old
            cache[k] = (idx, v)      # keep idx alive so ids are not reused
            return v
    g._memo = True
    return g


def dim_eq(a, b):
    """syntactic equality of two dims"""
    a, b = _generic(a), _generic(b)
    if is_conc(a) and is_conc(b):
        return a == b
    if isinstance(a, SV) and isinstance(b, SV):
        return a.t.eq(b.t) or z3.is_true(z3.simplify(a.t == b.t))
    if isinstance(a, SV) or isinstance(b, SV):
        return z3.is_true(z3.simplify(zterm(a) == zterm(b)))
    return False


def dim_conc(d):
    d = _generic(d)
    return isinstance(d, int) and not isinstance(d, bool)


def select(lst, i):
    """lst[i] for concrete list and possibly symbolic i (no wrap, caller checks bounds)"""
    i = _generic(i)
    if isinstance(i, Fraction) and i.denominator == 1:
        i = int(i)
    if isinstance(i, int):
        if i >= len(lst) or i < -len(lst):
            return 0        # out-of-range positions are only evaluated under a false guard (bounds are side obligations at index time)
        return lst[i]
    if not lst:
        return 0            # empty array: any read is under a false guard
    r = lst[-1]
    for k in range(len(lst) - 2, -1, -1):
        r = ite(i == k, lst[k], r)
    return r


class ArrBase(object):
    """interface: shape, dtype, snap() -> immutable fn, get(*idx)"""
    __array_priority__ = 1000
    __hash__ = object.__hash__

    @property
    def ndim(self):
        return len(self.shape)

    @property
    def size(self):
        n = 1
        for d in self.shape:
            n = n * d
        return n

    @property
    def T(self):
        if self.ndim < 2:
            return self
        if self.ndim == 2:
            f = self.snap()
            return Arr((self.shape[1], self.shape[0]), lambda i, j: f(j, i), self.dtype)
        raise Unsupported('.T on %d-d array' % self.ndim)

    def __len__(self):
        if not self.shape:
            raise PyRaise('TypeError', 'len() of unsized object')
        d = self.shape[0]
        if dim_conc(d):
            return d
        raise Unsupported('len() of symbolic-length array must go through the len builtin model')

    def sym_len(self):
        if not self.shape:
            raise PyRaise('TypeError', 'len() of unsized object')
        return self.shape[0]

    def get(self, *idx):
        return self.snap()(*idx)

    # --- python protocol
    def __iter__(self):
        d = self.shape[0]
        if not dim_conc(d):
            raise Unsupported('iteration over symbolic-length array')
        return iter([self[i] for i in range(d)])

    def _bin(self, o, f, rdtype=None):
        return elementwise(f, self, o, rdtype=rdtype)

    def __add__(self, o): return elementwise(sym.add, self, o)
    def __radd__(self, o): return elementwise(sym.add, o, self)
    def __sub__(self, o): return elementwise(sym.sub, self, o)
    def __rsub__(self, o): return elementwise(sym.sub, o, self)
    def __mul__(self, o): return elementwise(sym.mul, self, o)
    def __rmul__(self, o): return elementwise(sym.mul, o, self)
    def __truediv__(self, o): return elementwise(sym.div, self, o, rdtype='real')
    def __rtruediv__(self, o): return elementwise(sym.div, o, self, rdtype='real')
    def __pow__(self, o): return elementwise(sym.power, self, o)
    def __rpow__(self, o): return elementwise(sym.power, o, self)
    def __neg__(self): return elementwise(lambda a: sym.sub(0, a), self)
    def __pos__(self): return self
    def __abs__(self): return elementwise(sym.absv, self)
    def __lt__(self, o): return elementwise(lambda a, b: sym.cmp('<', a, b), self, o, rdtype='bool')
    def __le__(self, o): return elementwise(lambda a, b: sym.cmp('<=', a, b), self, o, rdtype='bool')
    def __gt__(self, o): return elementwise(lambda a, b: sym.cmp('>', a, b), self, o, rdtype='bool')
    def __ge__(self, o): return elementwise(lambda a, b: sym.cmp('>=', a, b), self, o, rdtype='bool')
    def __eq__(self, o): return elementwise(lambda a, b: sym.cmp('==', a, b), self, o, rdtype='bool')
    def __ne__(self, o): return elementwise(lambda a, b: sym.cmp('!=', a, b), self, o, rdtype='bool')
    def __and__(self, o): return elementwise(sym.and_, self, o, rdtype='bool')
    def __rand__(self, o): return elementwise(sym.and_, o, self, rdtype='bool')
    def __or__(self, o): return elementwise(sym.or_, self, o, rdtype='bool')
    def __ror__(self, o): return elementwise(sym.or_, o, self, rdtype='bool')
    def __invert__(self): return elementwise(sym.not_, self, rdtype='bool')

    def __bool__(self):
        if self.ndim == 0:
            return bool(self.get())
        if all(dim_conc(d) for d in self.shape) and self.size == 1:
            return bool(self.get(*([0] * self.ndim)))
        raise PyRaise('ValueError', 'truth value of an array with more than one element is ambiguous')

    # in-place operators: write through to the base
    def _inplace(self, f, o):
        new = elementwise(f, self, o)
        if not isinstance(new, ArrBase):
            if self.ndim != 0:
                raise PyRaise('ValueError', 'non-broadcastable output operand')
            self.update(None, lambda v=new: v)          # 0-d array: the object keeps its identity, every alias sees the new value
            return self
        self._check_same_shape(new)
        g = new.snap()
        self.update(None, g)
        return self

    def _check_same_shape(self, new):
        if len(new.shape) != len(self.shape):
            raise PyRaise('ValueError', 'non-broadcastable output operand')
        for a, b in zip(new.shape, self.shape):
            if not dim_eq(a, b):
                CTX().side('broadcast-length', sym.cmp('==', a, b))

    def __iadd__(self, o): return self._inplace(sym.add, o)
    def __isub__(self, o): return self._inplace(sym.sub, o)
    def __imul__(self, o): return self._inplace(sym.mul, o)
    def __itruediv__(self, o): return self._inplace(sym.div, o)

    # --- indexing
    def __getitem__(self, key):
        return getitem(self, key)

    def __setitem__(self, key, val):
        setitem(self, key, val)

    # --- numpy methods
    def copy(self):
        return Arr(self.shape, self.snap(), self.dtype)

    def flatten(self):
        return NP.ravel(self)

    def ravel(self):
        return NP.ravel(self)

    def reshape(self, *shape):
        if len(shape) == 1 and isinstance(shape[0], (tuple, list)):
            shape = tuple(shape[0])
        return NP.reshape(self, shape)

    def squeeze(self, axis=None):
        return NP.squeeze(self, axis)

    def transpose(self, *axes):
        if len(axes) == 1 and isinstance(axes[0], (tuple, list)):
            axes = tuple(axes[0])
        return NP.transpose(self, axes if axes else None)

    def astype(self, t):
        ts = t if isinstance(t, str) else getattr(t, '__name__', str(t))
        if 'int' in ts:
            bits = 31 if '32' in ts else 63
            self_ = self
            if self.ndim and not getattr(CTX(), 'replay', False) and CTX().side_on:
                idx = [CTX().fresh('ci', 'int') for _ in self.shape]
                inb = sym.and_(*[sym.and_(i >= 0, sym.cmp('<', i, d)) for i, d in zip(idx, self.shape)])
                v = self.get(*idx)
                CTX().prove('side:int%d-range' % (bits + 1), sym.implies(inb, sym.and_(sym.cmp('<', v, 2 ** bits), sym.cmp('>', v, -(2 ** bits)))), kind='side', inst=idx)
            return elementwise(sym.trunc_int, self, rdtype='int')
        if 'float' in ts:
            return elementwise(sym.to_real, self, rdtype='real')
        if 'bool' in ts:
            return elementwise(lambda a: sym.cmp('!=', a, 0) if not (isinstance(a, SV) and a.is_bool) and not isinstance(a, bool) else a, self, rdtype='bool')
        raise Unsupported('astype(%r)' % (t,))

    def any(self):
        return NP.any(self)

    def all(self):
        return NP.all(self)

    def sum(self, axis=None):
        return NP.sum(self, axis=axis)

    def tolist(self):
        if not all(dim_conc(d) for d in self.shape):
            raise Unsupported('tolist of symbolic-shape array')
        def rec(prefix, k):
            if k == self.ndim:
                return self.get(*prefix)
            return [rec(prefix + [i], k + 1) for i in range(self.shape[k])]
        return rec([], 0)

    def item(self):
        return self.get(*([0] * self.ndim))

    def fill(self, v):
        self.update(None, lambda *idx: v)


class Arr(ArrBase):
    def __init__(self, shape, fn, dtype='real', name=None):
        self.shape = tuple(shape)
        self._fn = fn if getattr(fn, '_memo', False) else memo(fn)
        self.dtype = dtype
        self.name = name
        self.version = 0

    def snap(self):
        return self._fn

    def update(self, cond, val):
        """pointwise in-place write: new(idx) = val(idx) if cond(idx) else old(idx); cond None = everywhere.
        Stores into an integer array truncate toward zero, as numpy's same-kind cast does"""
        old = self._fn
        if self.dtype == 'int':
            _v = val

            def val(*idx):
                x = _v(*idx)
                g = _generic(x)
                if isinstance(g, int) or (isinstance(g, SV) and (g.is_int or g.is_bool)):
                    return x
                return sym.trunc_int(x)
        if cond is None:
            self._fn = memo(val)
        else:
            def newfn(*idx):
                c = _generic(cond(*idx))
                if isinstance(c, (bool, int)):
                    return val(*idx) if c else old(*idx)       # do not evaluate the unselected side (it may be undefined there)
                return ite(c, val(*idx), old(*idx))
            self._fn = memo(newfn)
        self.version += 1

    def __repr__(self):
        return 'Arr(shape=%s, %s%s)' % (self.shape, self.dtype, ', ' + self.name if self.name else '')


class View(ArrBase):
    """basic-slice view.  spec: per base axis ('i', k) fixed index or ('s', start, length)"""

    def __init__(self, base, spec):
        assert isinstance(base, Arr)
        self.base = base
        self.spec = tuple(spec)
        self.shape = tuple(s[2] for s in self.spec if s[0] == 's')
        self.dtype = base.dtype

    def _to_base(self, vidx):
        out, k = [], 0
        for s in self.spec:
            if s[0] == 'i':
                out.append(s[1])
            else:
                out.append(sym.add(s[1], vidx[k]))
                k += 1
        return out

    def snap(self):
        f = self.base.snap()
        return memo(lambda *vidx: f(*self._to_base(vidx)))

    def update(self, cond, val):
        spec = self.spec

        def inview(*bidx):
            cs = []
            for s, j in zip(spec, bidx):
                if s[0] == 'i':
                    cs.append(sym.cmp('==', j, s[1]))
                else:
                    cs.append(sym.and_(sym.cmp('>=', j, s[1]), sym.cmp('<', j, sym.add(s[1], s[2]))))
            return sym.and_(*cs)

        def tov(bidx):
            return [sym.sub(j, s[1]) for s, j in zip(spec, bidx) if s[0] == 's']

        if cond is None:
            self.base.update(inview, lambda *bidx: val(*tov(bidx)))
        else:
            self.base.update(lambda *bidx: sym.and_(inview(*bidx), cond(*tov(bidx))),
                             lambda *bidx: val(*tov(bidx)))

    def __repr__(self):
        return 'View(%r, %s)' % (self.base, self.shape)


class AxisView(ArrBase):
    """a[..., np.newaxis, ...]: the same data seen with extra unit axes -- numpy returns a VIEW, so in-place operations on it change the array it was taken from"""

    def __init__(self, inner, res_axes):
        self.inner, self.res_axes = inner, tuple(res_axes)
        self.shape = tuple(1 if ax is None else inner.shape[ax] for ax in self.res_axes)
        self.dtype = inner.dtype

    def _outer(self, iidx):
        return [0 if ax is None else iidx[ax] for ax in self.res_axes]

    def snap(self):
        f, ra = self.inner.snap(), self.res_axes
        return memo(lambda *idx: f(*[idx[i] for i, ax in enumerate(ra) if ax is not None]))

    def update(self, cond, val):
        if cond is None:
            self.inner.update(None, lambda *iidx: val(*self._outer(iidx)))
        else:
            self.inner.update(lambda *iidx: cond(*self._outer(iidx)), lambda *iidx: val(*self._outer(iidx)))

    def __repr__(self):
        return 'AxisView(%r, %s)' % (self.inner, self.shape)


class MShape(tuple):
    """shape of a masked copy: np.ones / np.zeros of it give a constant masked copy for the same mask"""
    masked = None


class Masked(object):
    """a[mask] read: compressed copy of unknown length.  Supports same-mask arithmetic, len()==0,
    any/all, amax/amin/sum (DESIGN 2.3).  `n` is the length (1-d source) or the shape tuple (n-d source)."""
    __array_priority__ = 1000
    __hash__ = object.__hash__

    def __init__(self, n, src, mask, maskobj, dtype='real'):
        self.n, self.src, self.mask, self.maskobj, self.dtype = n, src, mask, maskobj, dtype
        self._cnt = None
        self.nd = len(n) if isinstance(n, tuple) else 1

    def count(self):
        if self.nd != 1:
            raise Unsupported('len() of n-d masked array')
        if self._cnt is None:
            c = CTX()
            cnt = c.fresh('cnt', 'int')
            w = c.fresh('w', 'int')
            mask, n = self.mask, self.n
            c.assume(cnt >= 0, cnt <= n)
            c.assume(sym.implies(cnt > 0, sym.and_(w >= 0, w < n, mask(w))))
            c.skolems.append(w.t)
            c.qfact('cnt0', lambda i: sym.implies(sym.and_(cnt == 0, i >= 0, i < n), sym.not_(mask(i))))
            self._cnt = cnt
        return self._cnt

    def sym_len(self):
        if self.nd == 1 and dim_conc(self.n):
            t = 0
            for i in range(self.n):
                t = sym.add(t, ite(self.mask(i), 1, 0))
            return t
        return self.count()

    @property
    def shape(self):
        s = MShape(((self.sym_len(),) if self.nd == 1 else (self.count(),)))
        s.masked = self
        return s

    @property
    def ndim(self):
        return 1

    def rank(self, i):
        """number of selected entries before position i (1-d, concrete length)"""
        r = 0
        for j in range(int(i) if is_conc(i) else self.n):
            r = sym.add(r, ite(sym.and_(self.mask(j), sym.cmp('<', j, i)), 1, 0))
        return r

    def _same(self, o):
        if o.maskobj is self.maskobj:
            return
        if self.nd != o.nd:
            raise PyRaise('ValueError', 'operands could not be broadcast together (masked)')
        shape = self.n if isinstance(self.n, tuple) else (self.n,)
        idx = [CTX().fresh('mi', 'int') for _ in shape]
        inb = sym.and_(*[sym.and_(i >= 0, sym.cmp('<', i, d)) for i, d in zip(idx, shape)])
        CTX().side('same-mask', sym.implies(inb, sym.cmp('==', self.mask(*idx), o.mask(*idx))))

    def _op(self, f, o, rev=False, dtype=None):
        if isinstance(o, Masked):
            self._same(o)
            g, h = self.src, o.src
            fn = (lambda *i: f(h(*i), g(*i))) if rev else (lambda *i: f(g(*i), h(*i)))
        elif isinstance(o, ArrBase):
            raise Unsupported('masked array combined with full array')
        else:
            g = self.src
            fn = (lambda *i: f(o, g(*i))) if rev else (lambda *i: f(g(*i), o))
        return Masked(self.n, memo(fn), self.mask, self.maskobj, dtype or self.dtype)

    def __add__(self, o): return self._op(sym.add, o)
    def __radd__(self, o): return self._op(sym.add, o, True)
    def __sub__(self, o): return self._op(sym.sub, o)
    def __rsub__(self, o): return self._op(sym.sub, o, True)
    def __mul__(self, o): return self._op(sym.mul, o)
    def __rmul__(self, o): return self._op(sym.mul, o, True)
    def __truediv__(self, o): return self._op(sym.div, o)
    def __rtruediv__(self, o): return self._op(sym.div, o, True)
    def __pow__(self, o): return self._op(sym.power, o)
    def __neg__(self): return self.map(lambda a: sym.sub(0, a))
    def __abs__(self): return self.map(sym.absv)
    def __lt__(self, o): return self._op(lambda a, b: sym.cmp('<', a, b), o, dtype='bool')
    def __le__(self, o): return self._op(lambda a, b: sym.cmp('<=', a, b), o, dtype='bool')
    def __gt__(self, o): return self._op(lambda a, b: sym.cmp('>', a, b), o, dtype='bool')
    def __ge__(self, o): return self._op(lambda a, b: sym.cmp('>=', a, b), o, dtype='bool')

    def map(self, f, dtype=None):
        g = self.src
        return Masked(self.n, memo(lambda *i: f(g(*i))), self.mask, self.maskobj, dtype or self.dtype)


class MaskedRows(object):
    """a[mask] for a 2-d array a and a 1-d boolean mask over its rows (symbolic number of rows): the selected rows, indexed -- like Masked --
    by SOURCE row.  Supports shape, rows[:, j] (a Masked over the same mask) and np.atleast_2d."""
    __hash__ = object.__hash__
    ndim = 2

    def __init__(self, n, ncols, src, mask, maskobj, dtype='real'):
        self.n, self.ncols, self.src, self.mask, self.maskobj, self.dtype = n, ncols, src, mask, maskobj, dtype
        self._len = Masked(n, lambda i: 0, mask, maskobj, 'int')

    @property
    def shape(self):
        return (self._len.sym_len(), self.ncols)

    def column(self, j):
        j = norm_index(j, self.ncols)
        g = self.src
        return Masked(self.n, memo(lambda i: g(i, j)), self.mask, self.maskobj, self.dtype)

    def __getitem__(self, key):
        if isinstance(key, tuple) and len(key) == 2 and isinstance(key[0], slice) and key[0] == slice(None) and not isinstance(key[1], (slice, ArrBase, list)):
            return self.column(key[1])
        raise Unsupported('indexing selected rows other than rows[:, j]')


def _decide_mask(m, n):
    """fork the path on every entry of a short boolean mask (n <= 4); remembered per mask object, so that later reads through the same mask are concrete too"""
    c = CTX()
    d = c.__dict__.setdefault('decided_masks', {})
    if id(m) not in d or d[id(m)][2] != getattr(m, 'version', None):
        d[id(m)] = (m, [bool(m.get(i)) for i in range(n)], getattr(m, 'version', None))
    return d[id(m)][1]


def as_fn(x, shape):
    """snapshot element function of x broadcast to `shape` (numpy rules, trailing alignment)"""
    if isinstance(x, ArrBase):
        f = x.snap()
        xs = x.shape
        off = len(shape) - len(xs)
        if off < 0:
            raise PyRaise('ValueError', 'operands could not be broadcast together')
        ones = [dim_conc(d) and d == 1 for d in xs]
        for k, d in enumerate(xs):
            if not ones[k] and not dim_eq(d, shape[off + k]):
                CTX().side('broadcast-length', sym.cmp('==', d, shape[off + k]))
        if not any(ones) and off == 0:
            return f
        return lambda *idx: f(*[0 if ones[k] else idx[off + k] for k in range(len(xs))])
    return lambda *idx: x


def bshape(*xs):
    shapes = [x.shape for x in xs if isinstance(x, ArrBase)]
    if not shapes:
        return ()
    nd = max(len(s) for s in shapes)
    out = []
    for k in range(nd):
        dims = []
        for s in shapes:
            j = k - (nd - len(s))
            if j >= 0:
                dims.append(s[j])
        pick = None
        for d in dims:
            if dim_conc(d) and d == 1:
                continue
            pick = d
            break
        if pick is None:
            pick = 1
        out.append(pick)
    return tuple(out)


def _dtype_of(x):
    if isinstance(x, (ArrBase, Masked)):
        return x.dtype
    x = _generic(x)
    if isinstance(x, bool):
        return 'bool'
    if isinstance(x, int):
        return 'int'
    if isinstance(x, SV):
        return 'bool' if x.is_bool else ('int' if x.is_int else 'real')
    return 'real'


def to_arr(x):
    """python list / scalar / Arr -> ArrBase (lists of scalars or nested lists with concrete shape)"""
    if isinstance(x, ArrBase):
        return x
    if isinstance(x, Masked):
        raise Unsupported('masked array used as full array')
    if isinstance(x, (list, tuple)):
        if len(x) == 0:
            return Arr((0,), lambda i: 0)
        items = [to_arr(e) if isinstance(e, (list, tuple, ArrBase)) else e for e in x]
        if all(isinstance(e, ArrBase) for e in items):
            sub = items[0].shape
            fs = [e.snap() for e in items]
            for e in items[1:]:
                if len(e.shape) != len(sub) or not all(dim_eq(a, b) for a, b in zip(e.shape, sub)):
                    raise Unsupported('ragged nested sequence')
            dt = 'real' if any(e.dtype == 'real' for e in items) else items[0].dtype
            return Arr((len(items),) + tuple(sub), lambda i, *rest: select([f(*rest) for f in fs], i), dt)
        if any(isinstance(e, ArrBase) for e in items):
            # mixture of scalars and 0-d/1-elem arrays
            items = [e.get(*([0] * e.ndim)) if isinstance(e, ArrBase) else e for e in items]
        lst = list(items)
        if any(isinstance(e, str) for e in lst):
            return Arr((len(lst),), lambda i: select(lst, i), 'str')
        dts = set(_dtype_of(e) for e in lst)
        dt = 'real' if 'real' in dts else ('int' if 'int' in dts else 'bool')
        return Arr((len(lst),), lambda i: select(lst, i), dt)
    x = _generic(x)
    if isinstance(x, SV) or is_conc(x):
        return Arr((), lambda: x, _dtype_of(x))
    raise Unsupported('cannot convert %s to array' % type(x).__name__)


def elementwise(f, *xs, **kw):
    rdtype = kw.get('rdtype')
    xs = [(_generic(x)) for x in xs]
    xs = [to_arr(x) if isinstance(x, (list, tuple)) else x for x in xs]
    if any(isinstance(x, Masked) for x in xs):
        m = [x for x in xs if isinstance(x, Masked)][0]
        if len(xs) == 1:
            return m.map(f, rdtype)
        if len(xs) == 2:
            if xs[0] is m:
                return m._op(f, xs[1], dtype=rdtype)
            return m._op(f, xs[0], rev=True, dtype=rdtype)
        raise Unsupported('n-ary op on masked arrays')
    if not any(isinstance(x, ArrBase) for x in xs):
        return f(*xs)
    for x in xs:
        if not isinstance(x, ArrBase) and not isinstance(x, SV) and not is_conc(x) and not isinstance(x, (str, sym.Inf)):
            return NotImplemented
    shape = bshape(*xs)
    fs = [as_fn(x, shape) for x in xs]
    if rdtype is None:
        dts = [_dtype_of(x) for x in xs]
        rdtype = 'real' if 'real' in dts else ('int' if 'int' in dts else 'bool')
    if len(shape) == 0:
        return f(*[g() for g in fs])
    return Arr(shape, lambda *idx: f(*[g(*idx) for g in fs]), rdtype)


def norm_index(i, n, what='index'):
    """python/numpy negative-index wrap + bounds side obligation"""
    i = _generic(i)
    if isinstance(i, Fraction):
        if i.denominator != 1:
            raise PyRaise('IndexError', 'non-integer index')
        i = int(i)
    if isinstance(i, int) and dim_conc(n):
        if i < -n or i >= n:
            raise PyRaise('IndexError', 'index %d out of bounds for axis of size %d' % (i, n))
        return i + n if i < 0 else i
    if isinstance(i, int):
        j = sym.add(n, i) if i < 0 else i
    else:
        if isinstance(i, SV) and not i.is_int:
            raise PyRaise('IndexError', 'non-integer (real) index')
        j = ite(sym.cmp('<', i, 0), sym.add(i, n), i)
    CTX().side('index-in-bounds', sym.and_(sym.cmp('>=', j, 0), sym.cmp('<', j, n)))
    return j


def norm_slice(sl, n):
    """-> (start, length) for step 1 slices, numpy clamping semantics"""
    if sl.step is not None and _generic(sl.step) != 1:
        raise Unsupported('slice with step')
    a, b = _generic(sl.start), _generic(sl.stop)

    def clampidx(v, default):
        if v is None:
            return default
        if isinstance(v, Fraction) and v.denominator == 1:
            v = int(v)
        if isinstance(v, int) and dim_conc(n):
            if v < 0:
                v = max(n + v, 0)
            return min(v, n)
        c = CTX()
        if isinstance(v, int):
            if v < 0:
                w = sym.add(n, v)
                k = c.known(sym.cmp('>=', w, 0))
                return w if k is True else (0 if k is False else sym.vmax(w, 0))
            k = c.known(sym.cmp('<=', v, n))
            return v if k is True else (n if k is False else sym.vmin(v, n))
        neg = c.known(sym.cmp('<', v, 0))
        if neg is False:
            k = c.known(sym.cmp('<=', v, n))
            return v if k is True else (n if k is False else sym.vmin(v, n))
        if neg is True:
            w = sym.add(v, n)
            k = c.known(sym.cmp('>=', w, 0))
            return w if k is True else (0 if k is False else sym.vmax(w, 0))
        return ite(sym.cmp('<', v, 0), sym.vmax(sym.add(v, n), 0), sym.vmin(v, n))
    start = clampidx(a, 0)
    stop = clampidx(b, n)
    length = sym.sub(stop, start)
    if is_conc(length):
        length = max(length, 0)
    else:
        length = wrap(z3.simplify(zterm(length)))
        if not is_conc(length):
            k = CTX().known(sym.cmp('>=', length, 0))
            length = length if k is True else (0 if k is False else sym.vmax(length, 0))
    return start, length


def _nonneg_obvious(a, b):
    # a[:k], a[k:], a[:-k] with small concrete k: assume the array is long enough, emit a side obligation
    return False


def _simp(d):
    if isinstance(d, SV):
        return wrap(z3.simplify(d.t))
    return d


def getitem(a, key):
    if isinstance(a, Masked):
        raise Unsupported('indexing a masked array')
    if not isinstance(key, tuple):
        key = (key,)
    # boolean mask / integer array
    if len(key) == 1 and isinstance(key[0], ArrBase):
        m = key[0]
        if m.dtype == 'bool':
            if a.ndim == 2 and m.ndim == 1:
                if not dim_eq(a.shape[0], m.shape[0]):
                    CTX().side('mask-length', sym.cmp('==', a.shape[0], m.shape[0]))
                af = a.snap()
                if dim_conc(a.shape[0]) and a.shape[0] <= 4:
                    rows = [i for i, v in enumerate(_decide_mask(m, a.shape[0])) if v]
                    return Arr((len(rows), a.shape[1]), lambda i, j, rows=rows: select([af(r, j) for r in rows], i), a.dtype)
                return MaskedRows(a.shape[0], a.shape[1], af, m.snap(), m, a.dtype)
            if a.ndim != m.ndim:
                raise Unsupported('boolean mask of lower rank than the array (read)')
            for d, e in zip(a.shape, m.shape):
                if not dim_eq(d, e):
                    CTX().side('mask-length', sym.cmp('==', d, e))
            if a.ndim == 1:
                if dim_conc(a.shape[0]) and a.shape[0] <= 64:
                    dec = getattr(CTX(), 'decided_masks', {}).get(id(m))
                    mv = list(dec[1]) if dec is not None and dec[2] == getattr(m, 'version', None) else [_generic(m.get(i)) for i in range(a.shape[0])]
                    if all(isinstance(v, (bool, int)) for v in mv):
                        vals = [a.get(i) for i in range(a.shape[0]) if mv[i]]
                        return Arr((len(vals),), lambda i, vals=vals: select(vals, i), a.dtype)
                    if a.shape[0] <= 16:
                        return compress(a, m)
                return Masked(a.shape[0], a.snap(), m.snap(), m, a.dtype)
            return Masked(tuple(a.shape), a.snap(), m.snap(), m, a.dtype)
        if m.dtype == 'int':
            return take(a, m, 0)
    if len(key) == 1 and isinstance(key[0], list):
        return take(a, to_arr(key[0]), 0)
    if any(k is Ellipsis for k in key):
        k = key.index(Ellipsis)
        fill = a.ndim - (len([x for x in key if x is not None]) - 1)
        key = key[:k] + (slice(None),) * fill + key[k + 1:]
    if any(k is None for k in key):
        # newaxis: build result by reshaping after basic indexing
        pos = [i for i, k in enumerate(key) if k is None]
        plain = tuple(k for k in key if k is not None)
        base = getitem(a, plain) if plain else a
        if not isinstance(base, ArrBase):
            base = to_arr(base)
        # positions of new axes in result
        res_axes = []
        src = 0
        for k in key:
            if k is None:
                res_axes.append(None)
            elif isinstance(k, slice):
                res_axes.append(src)
                src += 1
            # ints drop
        while src < base.ndim:
            res_axes.append(src)
            src += 1
        if isinstance(base, (Arr, View)) and base.ndim >= 1:
            return AxisView(base, res_axes)
        f = base.snap()
        shape = tuple(1 if ax is None else base.shape[ax] for ax in res_axes)
        return Arr(shape, lambda *idx: f(*[idx[i] for i, ax in enumerate(res_axes) if ax is not None]), base.dtype)
    if len(key) > a.ndim:
        raise PyRaise('IndexError', 'too many indices for array')
    if any(isinstance(k, (list, ArrBase)) for k in key):
        # mixed fancy indexing: one integer-list axis, others slices/ints
        fa = [i for i, k in enumerate(key) if isinstance(k, (list, ArrBase))]
        if len(fa) != 1:
            # every axis indexed by an integer array of concrete shape: numpy broadcasts the index arrays and picks element-wise
            ks = [to_arr(k) if isinstance(k, (list, ArrBase)) else k for k in key]
            if len(key) == a.ndim and all((isinstance(k, ArrBase) and k.dtype != 'bool' and all(dim_conc(d) for d in k.shape)) or isinstance(_generic(k), int) for k in ks):
                shapes = [k.shape for k in ks if isinstance(k, ArrBase)]
                nd = max(len(sh) for sh in shapes)
                out = []
                for pos in range(nd):
                    ds = [sh[pos - (nd - len(sh))] for sh in shapes if pos - (nd - len(sh)) >= 0]
                    m = max(ds) if ds else 1
                    if any(d not in (1, m) for d in ds):
                        raise PyRaise('IndexError', 'shape mismatch: indexing arrays could not be broadcast together')
                    out.append(m)
                f = a.snap()
                snaps = [k.snap() if isinstance(k, ArrBase) else None for k in ks]

                def pick(*idx):
                    src = []
                    for k, sn in zip(ks, snaps):
                        if sn is None:
                            src.append(_generic(k))
                            continue
                        off = nd - k.ndim
                        sub = [0 if k.shape[j] == 1 else idx[off + j] for j in range(k.ndim)]
                        src.append(sn(*sub))
                    return f(*src)
                return Arr(tuple(out), pick, a.dtype)
            raise Unsupported('fancy indexing on several axes')
        ax = fa[0]
        idxarr = to_arr(key[ax])
        if idxarr.dtype == 'bool':
            raise Unsupported('boolean mask on one axis of n-d array (read)')
        rest = tuple(slice(None) if i == ax else k for i, k in enumerate(key))
        tmp = getitem(a, rest)
        # axis position of ax in tmp
        newax = len([k for k in key[:ax] if isinstance(k, slice)])
        return take(tmp, idxarr, newax)
    key = key + (slice(None),) * (a.ndim - len(key))
    if isinstance(a, View):
        base, bspec = a.base, list(a.spec)
    else:
        base, bspec = a, [('s', 0, d) for d in a.shape]
    new = []
    k = 0
    for s in bspec:
        if s[0] == 'i':
            new.append(s)
            continue
        kk = key[k]
        k += 1
        if isinstance(kk, slice):
            st, ln = norm_slice(kk, s[2])
            new.append(('s', _simp(sym.add(s[1], st)), _simp(ln)))
        else:
            j = norm_index(kk, s[2])
            new.append(('i', _simp(sym.add(s[1], j))))
    v = View(base, new)
    if len(v.shape) == 0:
        return base.snap()(*[s[1] for s in new])
    return v


def np_prod(shape):
    t = 1
    for d in shape:
        t *= d
    return t


def _select_nd(vals, shape, idx):
    """vals[idx] for a dict over concrete index tuples and possibly symbolic indices"""
    idx = [_generic(i) for i in idx]
    if all(is_conc(i) for i in idx):
        return vals[tuple(int(i) for i in idx)]
    import itertools
    keys = list(itertools.product(*[range(d) for d in shape]))
    r = vals[keys[-1]]
    for k in reversed(keys[:-1]):
        r = ite(sym.and_(*[sym.cmp('==', i, kk) for i, kk in zip(idx, k)]), vals[k], r)
    return r


def compress(a, m):
    """a[m] for a short array (concrete length n) and a symbolic mask: an ordinary array of symbolic length
    cnt = number of selected entries whose j-th element is the j-th selected entry of a"""
    n = a.shape[0]
    af, mf = a.snap(), m.snap()
    cnt = 0
    for j in range(n):
        cnt = sym.add(cnt, ite(mf(j), 1, 0))

    def rank(i):
        r = 0
        for j in range(i):
            r = sym.add(r, ite(mf(j), 1, 0))
        return r

    def fn(j):
        r = af(n - 1)
        for i in range(n - 2, -1, -1):
            r = ite(sym.and_(mf(i), sym.cmp('==', rank(i), j)), af(i), r)
        return r
    out = Arr((cnt,), fn, a.dtype)
    out.compressed = (mf, n)
    return out


def take(a, idx, axis):
    """a.take(idx, axis) for integer index array idx (concrete shape 1-d)"""
    if idx.ndim != 1:
        raise Unsupported('n-d integer index array')
    f = a.snap()
    g = idx.snap()
    n = a.shape[axis]
    shape = a.shape[:axis] + (idx.shape[0],) + a.shape[axis + 1:]

    def fn(*ix):
        j = g(ix[axis])
        if is_conc(j):
            j = norm_index(j, n)
        else:
            j = ite(sym.cmp('<', j, 0), sym.add(j, n), j)
        return f(*(ix[:axis] + (j,) + ix[axis + 1:]))
    return Arr(shape, fn, a.dtype)


def setitem(a, key, val):
    if isinstance(a, Masked):
        raise Unsupported('assignment into a masked copy has no effect on the source (numpy) - not modelled')
    if isinstance(val, (list, tuple)):
        val = to_arr(val)
    if not isinstance(key, tuple):
        key = (key,)
    if len(key) == 1 and isinstance(key[0], ArrBase) and key[0].dtype == 'bool':
        m = key[0]
        if m.ndim != a.ndim:
            raise Unsupported('boolean mask of different rank in assignment')
        for d, e in zip(a.shape, m.shape):
            if not dim_eq(d, e):
                CTX().side('mask-length', sym.cmp('==', d, e))
        mf = m.snap()
        if isinstance(val, Masked):
            if val.maskobj is not m:
                idx = [CTX().fresh('mi', 'int') for _ in a.shape]
                inb = sym.and_(*[sym.and_(i >= 0, sym.cmp('<', i, d)) for i, d in zip(idx, a.shape)])
                CTX().side('same-mask', sym.implies(inb, sym.cmp('==', mf(*idx), val.mask(*idx))))
            vf = val.src
            a.update(mf, vf)
        elif isinstance(val, ArrBase):
            if a.ndim == 1 and val.ndim == 1 and dim_conc(a.shape[0]) and a.shape[0] <= 16:
                n = a.shape[0]
                vf = val.snap()
                # the j-th selected position receives val[j]
                def rank(i):
                    r = 0
                    for j in range(n):
                        r = sym.add(r, ite(sym.and_(mf(j), sym.cmp('<', j, i)), 1, 0))
                    return r
                cnt = 0
                for j in range(n):
                    cnt = sym.add(cnt, ite(mf(j), 1, 0))
                if not dim_eq(val.shape[0], cnt):
                    CTX().side('masked-assignment-length', sym.cmp('==', val.shape[0], cnt))
                a.update(mf, lambda i: vf(rank(i)))
            else:
                raise Unsupported('a[mask] = full array (length must equal count)')
        else:
            a.update(mf, lambda *idx: val)
        return
    if any(isinstance(k, (list, ArrBase)) for k in key):
        fa = [i for i, k in enumerate(key) if isinstance(k, (list, ArrBase))]
        if len(fa) == 1 and to_arr(key[fa[0]]).dtype == 'bool':
            # x[:, i][m] style is handled through views; a[i, m] = v here
            ax = fa[0]
            m = to_arr(key[ax])
            rest = tuple(slice(None) if i == ax else k for i, k in enumerate(key))
            tgt = getitem(a, rest)
            newax = len([k for k in key[:ax] if isinstance(k, slice)])
            mf = m.snap()
            if isinstance(val, (ArrBase, Masked)):
                raise Unsupported('axis-mask assignment from array')
            tgt.update(lambda *idx: mf(idx[newax]), lambda *idx: val)
            return
        if len(fa) == 1:
            # a[..., idx, ...] = v  with a concrete integer index array on one axis: position t of v goes to index idx[t]
            ax = fa[0]
            ia = to_arr(key[ax])
            if ia.ndim == 1 and dim_conc(ia.shape[0]):
                ids = [_generic(ia.get(t)) for t in range(ia.shape[0])]
                if all(isinstance(i, int) for i in ids):
                    for t, i in enumerate(ids):
                        k2 = tuple(i if q == ax else kk for q, kk in enumerate(key))
                        if isinstance(val, ArrBase):
                            vt = getitem(val, (Ellipsis, t)) if val.ndim > 1 else val.get(t)
                        else:
                            vt = val
                        setitem(a, k2, vt)
                    return
        raise Unsupported('fancy-index assignment')
    tgt = getitem(a, key)
    if not isinstance(tgt, ArrBase):
        # scalar element assignment
        key = key + ()
        if isinstance(a, View):
            base, bspec = a.base, list(a.spec)
        else:
            base, bspec = a, [('s', 0, d) for d in a.shape]
        pos, k = [], 0
        for s in bspec:
            if s[0] == 'i':
                pos.append(s[1])
            else:
                pos.append(sym.add(s[1], norm_index_quiet(key[k], s[2])))
                k += 1
        if isinstance(val, ArrBase):
            if val.ndim == 0 or (all(dim_conc(d) for d in val.shape) and val.size == 1):
                val = val.get(*([0] * val.ndim))
            else:
                raise PyRaise('ValueError', 'setting an array element with a sequence')
        base.update(lambda *bidx: sym.and_(*[sym.cmp('==', j, p) for j, p in zip(bidx, pos)]), lambda *bidx: val)
        return
    if isinstance(val, Masked):
        raise Unsupported('slice = masked array')
    if isinstance(val, ArrBase):
        while val.ndim > tgt.ndim and dim_conc(val.shape[0]) and val.shape[0] == 1:
            val = getitem(val, (0,))          # numpy drops leading length-1 axes of the value
            if not isinstance(val, ArrBase):
                tgt.update(None, lambda *idx, _v=val: _v)
                return
        if val.ndim > tgt.ndim:
            raise PyRaise('ValueError', 'could not broadcast input array')
        vf = as_fn(val, tgt.shape)
        tgt.update(None, vf)
    else:
        tgt.update(None, lambda *idx: val)


def norm_index_quiet(i, n):
    side = CTX().side_on
    CTX().side_on = False
    try:
        return norm_index(i, n)
    finally:
        CTX().side_on = side


# ----------------------------------------------------------------------------------------------------
# the numpy model
# ----------------------------------------------------------------------------------------------------
class Opaque(object):
    """opaque host/library object; any use other than passing it around is Unsupported"""
    def __init__(self, name):
        self.name = name

    def __repr__(self):
        return 'Opaque(%s)' % self.name

    def __getattr__(self, k):
        if k.startswith('__'):
            raise AttributeError(k)
        return Opaque(self.name + '.' + k)

    def __call__(self, *a, **k):
        # results of library calls stay opaque; any USE of them (arithmetic, branching, iteration, indexing)
        # is Unsupported, so nothing is ever silently invented
        return Opaque(self.name + '()')

    def _no(self, *a, **k):
        raise Unsupported('use of opaque value %s' % self.name)
    __add__ = __radd__ = __sub__ = __rsub__ = __mul__ = __rmul__ = __truediv__ = __rtruediv__ = __pow__ = __rpow__ = _no
    __neg__ = __abs__ = __lt__ = __le__ = __gt__ = __ge__ = __getitem__ = __setitem__ = __iter__ = __len__ = __bool__ = _no
    __hash__ = object.__hash__


def _shape_arg(s):
    if isinstance(s, MShape):
        return s
    if isinstance(s, (tuple, list)):
        return tuple(_generic(x) for x in s)
    return (_generic(s),)


def _fold(f, items):
    it = iter(items)
    r = next(it)
    for x in it:
        r = f(r, x)
    return r


def _concrete_items(a, axis=None):
    """all elements of a fully concrete-shaped array"""
    out = []

    def rec(prefix, k):
        if k == a.ndim:
            out.append(a.get(*prefix))
            return
        for i in range(a.shape[k]):
            rec(prefix + [i], k + 1)
    rec([], 0)
    return out


class _NP(object):
    newaxis = None
    float64 = float
    nan = None   # replaced below by a token
    int32 = 'int32'
    int64 = 'int64'

    def __getattr__(self, k):
        if k.startswith('__'):
            raise AttributeError(k)
        if k == 'pi':
            return pi_const()
        raise Unsupported('numpy.%s is not modelled' % k)

    # --- constructors
    def zeros(self, shape, dtype=None):
        if isinstance(shape, MShape):
            m = shape.masked
            return Masked(m.n, memo(lambda *i: 0), m.mask, m.maskobj, 'real')
        return Arr(_shape_arg(shape), lambda *idx: 0, 'real' if dtype in (None, float) else 'int')

    def ones(self, shape, dtype=None):
        if isinstance(shape, MShape):
            m = shape.masked
            return Masked(m.n, memo(lambda *i: 1), m.mask, m.maskobj, 'real')
        return Arr(_shape_arg(shape), lambda *idx: 1, 'real' if dtype in (None, float) else 'int')

    def zeros_like(self, a, dtype=None):
        a = to_arr(a)
        return Arr(a.shape, lambda *idx: 0, a.dtype if dtype is None and a.dtype in ('int', 'real') else ('real' if dtype in (None, float) else 'int'))

    def ones_like(self, a, dtype=None):
        a = to_arr(a)
        return Arr(a.shape, lambda *idx: 1, a.dtype if dtype is None and a.dtype in ('int', 'real') else ('real' if dtype in (None, float) else 'int'))

    def full(self, shape, v, dtype=None):
        return Arr(_shape_arg(shape), lambda *idx: v, _dtype_of(v))

    def empty(self, shape, dtype=None):
        return self.zeros(shape)

    def identity(self, n):
        return Arr((n, n), lambda i, j: ite(sym.cmp('==', i, j), 1, 0), 'real')

    def eye(self, n):
        return self.identity(n)

    def linspace(self, a, b, num=50):
        num = _generic(num)
        a, b = _generic(a), _generic(b)
        if isinstance(a, ArrBase) or isinstance(b, ArrBase):
            raise Unsupported('linspace with array end points')
        if is_conc(num) and num == 1:
            return Arr((1,), lambda i: a, 'real')
        # numpy: start + i*step with step = (stop-start)/(num-1); last point is set to stop exactly
        den = sym.sub(num, 1)
        if is_conc(den):
            return Arr((num,), lambda i: sym.add(a, sym.div(sym.mul(sym.to_real(i), sym.sub(b, a)), den)), 'real')
        # symbolic point count: name the step w with w*(num-1) = b-a (avoids division by a variable in the
        # terms; z3 normalises (i+1)*w - i*w to w)
        c = CTX()
        c.side('linspace-points', sym.cmp('>=', den, 1))
        w = c.fresh('step')
        c.assume(sym.cmp('==', sym.mul(w, den), sym.sub(b, a)))
        r = Arr((num,), lambda i: sym.add(a, sym.mul(sym.to_real(i), w)), 'real')
        r.linspace = (a, b, num, w)
        return r

    def arange(self, *args):
        args = [_generic(x) for x in args]
        if len(args) == 1:
            return Arr((args[0],), lambda i: i, 'int')
        if len(args) == 2 and all(is_conc(x) for x in args):
            a0 = args[0]
            return Arr((max(args[1] - args[0], 0),), lambda i: sym.add(a0, i), 'int')
        raise Unsupported('arange form')

    def array(self, x, dtype=None, copy=True):
        if isinstance(x, ArrBase):
            return Arr(x.shape, x.snap(), x.dtype) if copy else x
        r = to_arr(x)
        if dtype is not None and 'float' in str(dtype):
            r = elementwise(sym.to_real, r, rdtype='real') if isinstance(r, ArrBase) and r.ndim else r
        return r

    def fromiter(self, it, dtype=None, count=-1):
        vals = list(it)                      # a python iterable of concrete length (dict views, generators over concrete ranges)
        if any(isinstance(v, (ArrBase, list, tuple)) for v in vals):
            raise Unsupported('np.fromiter over non-scalar items')
        if isinstance(count, int) and count >= 0:
            if count > len(vals):
                raise PyRaise('ValueError', 'iterator too short')
            vals = vals[:count]
        ds = str(getattr(dtype, '__name__', dtype))
        if 'int' in ds and any(isinstance(_generic(v), float) or (isinstance(v, SV) and not v.is_int()) for v in vals):
            raise Unsupported('np.fromiter truncating to an integer type')
        return self.array(vals, dtype=dtype)

    def asarray(self, x, dtype=None):
        return x if isinstance(x, ArrBase) else to_arr(x)

    def copy(self, x):
        x = to_arr(x)
        return Arr(x.shape, x.snap(), x.dtype)

    def atleast_1d(self, x):
        if isinstance(x, ArrBase):
            if x.ndim >= 1:
                return x               # numpy returns the same object (alias!) for ndim >= 1
            v = x.get()
            return Arr((1,), lambda i: v, x.dtype)
        if isinstance(x, Masked):
            return x
        if isinstance(x, (list, tuple)):
            return to_arr(x)
        return Arr((1,), lambda i: x, _dtype_of(x))

    def atleast_2d(self, x):
        if isinstance(x, MaskedRows) or (isinstance(x, ArrBase) and x.ndim >= 2):
            return x
        x = self.atleast_1d(x)
        if x.ndim == 1:
            f = x.snap()
            return Arr((1, x.shape[0]), lambda i, j: f(j), x.dtype)
        return x

    def isscalar(self, x):
        return not isinstance(x, (ArrBase, Masked, list, tuple, dict)) and x is not None

    def ndim(self, x):
        if isinstance(x, ArrBase):
            return x.ndim
        if isinstance(x, (list, tuple)):
            return to_arr(x).ndim
        return 0

    def shape(self, x):
        if not isinstance(x, (ArrBase, list, tuple)):
            return ()
        return tuple(to_arr(x).shape)

    def size(self, x):
        if not isinstance(x, (ArrBase, list, tuple)):
            return 1
        return to_arr(x).size

    # --- elementwise
    def sign(self, x): return elementwise(sym.sign, x)
    def abs(self, x): return elementwise(sym.absv, x)
    def absolute(self, x): return elementwise(sym.absv, x)
    def fabs(self, x): return elementwise(sym.absv, x)
    def _domain(self, x, name, pred):
        if isinstance(x, ArrBase) and x.ndim:
            c = CTX()
            if getattr(c, 'replay', False) or not c.side_on or c.__dict__.get('domain_off', 0):
                return
            if any(dim_conc(d) and d == 0 for d in x.shape):
                return            # empty array: nothing is computed
            idx = [c.fresh('d', 'int') for _ in x.shape]
            inb = sym.and_(*[sym.and_(i >= 0, sym.cmp('<', i, d)) for i, d in zip(idx, x.shape)])
            c.prove('side:' + name, sym.implies(inb, pred(x.get(*idx))), kind='side', inst=idx)

    def sqrt(self, x):
        self._domain(x, 'sqrt-domain', lambda v: sym.cmp('>=', v, 0))
        return elementwise(sym.sqrt, x, rdtype='real')
    def cbrt(self, x): return elementwise(sym.cbrt, x, rdtype='real')
    def exp(self, x): return elementwise(sym.exp, x, rdtype='real')
    def log(self, x):
        self._domain(x, 'log-domain', lambda v: sym.cmp('>', v, 0))
        return elementwise(sym.log, x, rdtype='real')
    def log10(self, x): return elementwise(lambda a: sym.div(sym.log(a), sym.log(10)), x, rdtype='real')
    def power(self, x, y): return elementwise(sym.power, x, y)
    def square(self, x): return elementwise(lambda a: sym.mul(a, a), x)
    def sin(self, x): return elementwise(lambda a: trig('sin', a), x, rdtype='real')
    def cos(self, x): return elementwise(lambda a: trig('cos', a), x, rdtype='real')
    def tan(self, x): return elementwise(lambda a: sym.opaque_fn('tan', a), x, rdtype='real')
    def arcsin(self, x): return elementwise(lambda a: trig('arcsin', a), x, rdtype='real')
    def arccos(self, x): return elementwise(lambda a: trig('arccos', a), x, rdtype='real')
    def arctan(self, x): return elementwise(lambda a: sym.opaque_fn('arctan', a), x, rdtype='real')
    def arctanh(self, x): return elementwise(lambda a: sym.opaque_fn('arctanh', a), x, rdtype='real')
    def sinh(self, x): return elementwise(lambda a: sym.opaque_fn('sinh', a), x, rdtype='real')
    def cosh(self, x): return elementwise(lambda a: sym.opaque_fn('cosh', a), x, rdtype='real')
    def add(self, x, y): return elementwise(sym.add, x, y)
    def subtract(self, x, y): return elementwise(sym.sub, x, y)
    def multiply(self, x, y): return elementwise(sym.mul, x, y)
    def divide(self, x, y): return elementwise(sym.div, x, y, rdtype='real')
    def minimum(self, x, y): return elementwise(sym.vmin, x, y)
    def maximum(self, x, y): return elementwise(sym.vmax, x, y)
    def logical_and(self, x, y): return elementwise(sym.and_, x, y, rdtype='bool')
    def logical_or(self, x, y): return elementwise(sym.or_, x, y, rdtype='bool')
    def logical_not(self, x): return elementwise(sym.not_, x, rdtype='bool')
    def negative(self, x): return elementwise(lambda a: sym.sub(0, a), x)
    def floor(self, x): return elementwise(lambda a: wrap(z3.ToReal(z3.ToInt(zterm(a, True)))) if isinstance(a, SV) else a.__floor__(), x)

    def isclose(self, a, b, rtol=Fraction(1, 10 ** 5), atol=Fraction(1, 10 ** 8)):
        return elementwise(lambda u, v: sym.cmp('<=', sym.absv(sym.sub(u, v)), sym.add(atol, sym.mul(rtol, sym.absv(v)))), a, b, rdtype='bool')

    def allclose(self, a, b, rtol=Fraction(1, 10 ** 5), atol=Fraction(1, 10 ** 8)):
        return self.all(self.isclose(a, b, rtol, atol))

    def isfinite(self, x):
        # mathematical reals are always finite (DESIGN 3.1)
        return elementwise(lambda a: True, x, rdtype='bool')

    def isnan(self, x):
        return elementwise(lambda a: False, x, rdtype='bool')

    def isinf(self, x):
        return elementwise(lambda a: False, x, rdtype='bool')

    def where(self, c, a=None, b=None):
        if a is None:
            c = to_arr(c)
            if c.ndim == 1 and dim_conc(c.shape[0]):
                vals = [c.get(i) for i in range(c.shape[0])]
                if all(isinstance(_generic(v), (bool, int)) for v in vals):
                    idx = [i for i, v in enumerate(vals) if v]
                    return (Arr((len(idx),), lambda i: select(idx, i), 'int'),)
            raise Unsupported('np.where(cond) index form on symbolic condition')
        return elementwise(ite, c, a, b)

    def clip(self, x, lo, hi):
        return elementwise(lambda v, l, h: sym.vmin(sym.vmax(v, l), h), x, lo, hi)

    # --- reductions
    def sum(self, x, axis=None):
        if isinstance(x, Masked):
            g, m = x.src, x.mask
            shp = x.n if isinstance(x.n, tuple) else (x.n,)
            return self.sum(Arr(shp, lambda *i: ite(m(*i), g(*i), 0)))
        x = to_arr(x) if not isinstance(x, ArrBase) else x
        if x.ndim == 0:
            return x.get()
        if axis is None:
            if all(dim_conc(d) for d in x.shape):
                return _fold(sym.add, _concrete_items(x)) if x.size else 0
            if x.ndim == 1:
                return CTX().sum_term(x.shape[0], x.snap())
            # symbolic leading axis and concrete trailing axes
            if all(dim_conc(d) for d in x.shape[1:]):
                f = x.snap()
                import itertools as it
                rest = list(it.product(*[range(d) for d in x.shape[1:]]))
                return CTX().sum_term(x.shape[0], memo(lambda i: _fold(sym.add, [f(i, *r) for r in rest])))
            raise Unsupported('sum over several symbolic axes')
        axis = _generic(axis)
        if isinstance(axis, tuple):
            r = x
            for ax in sorted(axis, reverse=True):
                r = self.sum(r, axis=ax)
            return r
        if axis < 0:
            axis += x.ndim
        n = x.shape[axis]
        f = x.snap()
        shape = x.shape[:axis] + x.shape[axis + 1:]
        if dim_conc(n):
            def fn(*idx):
                return _fold(sym.add, [f(*(idx[:axis] + (k,) + idx[axis:])) for k in range(n)]) if n else 0
            if not shape:
                return fn()
            return Arr(shape, fn, x.dtype)
        # symbolic axis: each result element is an opaque sum, created on demand per concrete index
        if all(dim_conc(d) for d in shape):
            cache = {}

            def fn(*idx):
                if idx not in cache:
                    cache[idx] = CTX().sum_term(n, memo(lambda k: f(*(idx[:axis] + (k,) + idx[axis:]))))
                return cache[idx]
            if not shape:
                return fn()
            items = {}
            import itertools as it
            for idx in it.product(*[range(d) for d in shape]):
                items[idx] = fn(*idx)
            return Arr(shape, lambda *idx: _sel_nd(items, shape, idx), x.dtype)
        raise Unsupported('sum along symbolic axis with symbolic remaining axes')

    def prod(self, x, axis=None):
        x = to_arr(x)
        if axis is None and all(dim_conc(d) for d in x.shape):
            return _fold(sym.mul, _concrete_items(x)) if x.size else 1
        if axis is not None:
            axis = axis + x.ndim if axis < 0 else axis
            n = x.shape[axis]
            if dim_conc(n):
                f = x.snap()
                shape = x.shape[:axis] + x.shape[axis + 1:]
                return Arr(shape, lambda *idx: _fold(sym.mul, [f(*(idx[:axis] + (k,) + idx[axis:])) for k in range(n)]), x.dtype)
        raise Unsupported('prod over symbolic axis')

    def cumsum(self, x, axis=None):
        x = to_arr(x)
        if x.ndim != 1:
            raise Unsupported('cumsum of n-d array')
        n = x.shape[0]
        f = x.snap()
        if dim_conc(n):
            acc, out = 0, []
            for i in range(n):
                acc = sym.add(acc, f(i))
                out.append(acc)
            return Arr((n,), lambda i: select(out, i), x.dtype)
        c = CTX()
        j0 = SV(z3.Int('j0!canon'))
        _b0 = zterm(_generic(f(j0)), True)
        key = ('cumsum', zterm(_generic(n)).get_id(), _b0.get_id())
        memo_ = c.__dict__.setdefault('_cumsums', {})
        if key in memo_:
            m0 = memo_[key][0]
            r = Arr(m0.shape, m0.snap(), 'real')
            r.cumsum_of = m0.cumsum_of
            return r
        cs = c.fresh_fn('cumsum', 1, 'real')
        # cs(i) = sum_{k<=i} f(k): definitional facts instantiated on demand
        c.qfact('cumsum-def', lambda i: sym.and_(
            sym.implies(sym.cmp('==', i, 0), SV(cs(zterm(i)) == zterm(f(i), True))),
            sym.implies(sym.and_(i >= 1, i < n), SV(cs(zterm(i)) == cs(zterm(i) - 1) + zterm(f(i), True)))))
        a = Arr((n,), lambda i: SV(cs(zterm(_generic(i)))), 'real')
        a.cumsum_of = (n, f, cs)
        memo_[key] = (a, _b0, n)
        return a

    def _minmax(self, x, axis, kind):
        op = sym.vmax if kind == 'max' else sym.vmin
        if isinstance(x, Masked):
            c = CTX()
            if x.nd != 1:
                # n-d masked reduction: opaque value with attained + bound facts over concrete leading axes only
                shp = x.n
                M = c.fresh('a' + kind)
                ws = [c.fresh('w', 'int') for _ in shp]
                g, m = x.src, x.mask
                c.assume(sym.and_(*[sym.and_(w >= 0, sym.cmp('<', w, d)) for w, d in zip(ws, shp)]), m(*ws), sym.cmp('==', g(*ws), M))
                for w in ws:
                    c.skolems.append(w.t)
                c.trace.append('n-d masked a%s: non-emptiness of the masked set assumed (numpy raises otherwise)' % kind)
                return M
            g, m, n = x.src, x.mask, x.n
            M = c.fresh('a' + kind)
            w = c.fresh('w', 'int')
            c.assume(sym.implies(x.sym_len() > 0, sym.and_(w >= 0, w < n, m(w), sym.cmp('==', g(w), M))))
            c.skolems.append(w.t)
            rel = '<=' if kind == 'max' else '>='
            c.qfact('a%s-bound' % kind, lambda i: sym.implies(sym.and_(i >= 0, i < n, m(i)), sym.cmp(rel, g(i), M)))
            return M
        x = to_arr(x)
        if x.ndim == 0:
            return x.get()
        if axis is None:
            if all(dim_conc(d) for d in x.shape):
                if x.size == 0:
                    raise PyRaise('ValueError', 'zero-size array to reduction operation')
                return _fold(op, _concrete_items(x))
            if x.ndim == 1:
                c = CTX()
                g, n = x.snap(), x.shape[0]
                M = c.fresh('a' + kind)
                w = c.fresh('w', 'int')
                c.side('reduction-nonempty', sym.cmp('>', n, 0))
                c.assume(sym.and_(w >= 0, w < n, sym.cmp('==', g(w), M)))
                c.skolems.append(w.t)
                rel = '<=' if kind == 'max' else '>='
                c.qfact('a%s-bound' % kind, lambda i: sym.implies(sym.and_(i >= 0, i < n), sym.cmp(rel, g(i), M)))
                return M
            symax = [k for k, d in enumerate(x.shape) if not dim_conc(d)]
            if len(symax) == 1:
                r = x
                for k in reversed([k for k in range(x.ndim) if k != symax[0]]):
                    r = self._minmax(r, k, kind)
                return self._minmax(r, None, kind)
            raise Unsupported('amax over n-d symbolic array')
        axis = axis + x.ndim if axis < 0 else axis
        n = x.shape[axis]
        if not dim_conc(n):
            rest = x.shape[:axis] + x.shape[axis + 1:]
            if not all(dim_conc(d) for d in rest) or int(np_prod(rest)) > 16:
                raise Unsupported('amax along symbolic axis')
            # one opaque extremum (attained + bound facts, as for a 1-d array) per position of the other, concrete, axes
            import itertools
            f = x.snap()
            vals = {}
            for idx in itertools.product(*[range(d) for d in rest]):
                col = Arr((n,), lambda k, idx=idx: f(*(idx[:axis] + (k,) + idx[axis:])), x.dtype)
                vals[idx] = self._minmax(col, None, kind)
            if not rest:
                return vals[()]
            return Arr(tuple(rest), lambda *idx: _select_nd(vals, rest, idx), x.dtype)
        f = x.snap()
        shape = x.shape[:axis] + x.shape[axis + 1:]
        return Arr(shape, lambda *idx: _fold(op, [f(*(idx[:axis] + (k,) + idx[axis:])) for k in range(n)]), x.dtype)

    def amax(self, x, axis=None): return self._minmax(x, axis, 'max')
    def amin(self, x, axis=None): return self._minmax(x, axis, 'min')
    def max(self, x, axis=None): return self._minmax(x, axis, 'max')
    def min(self, x, axis=None): return self._minmax(x, axis, 'min')

    def argmax(self, x, axis=None):
        x = to_arr(x)
        if x.ndim != 1 or axis not in (None, 0, -1):
            raise Unsupported('argmax of n-d array')
        n, f = x.shape[0], x.snap()
        if x.dtype == 'bool':
            if dim_conc(n):
                if n == 0:
                    raise PyRaise('ValueError', 'attempt to get argmax of an empty sequence')
                r = 0
                for k in range(n - 1, -1, -1):
                    r = ite(f(k), k, r)
                return r
            c = CTX()
            r = c.fresh('argmax', 'int')
            c.side('reduction-nonempty', sym.cmp('>', n, 0))
            c.assume(r >= 0, r < n, sym.or_(f(r), r == 0))
            c.skolems.append(r.t)
            c.qfact('argmax-first', lambda j: sym.implies(sym.and_(j >= 0, j < r), sym.not_(f(j))))
            c.qfact('argmax-none', lambda j: sym.implies(sym.and_(sym.not_(f(r)), j >= 0, j < n), sym.not_(f(j))))
            return r
        if dim_conc(n):
            best, r = f(0), 0
            for k in range(1, n):
                better = sym.cmp('>', f(k), best)
                r = ite(better, k, r)
                best = ite(better, f(k), best)
            return r
        raise Unsupported('argmax of symbolic-length numeric array')

    def argmin(self, x, axis=None):
        x = to_arr(x)
        return self.argmax(elementwise(lambda a: sym.sub(0, a), x), axis)

    def any(self, x, axis=None):
        if isinstance(x, Masked):
            raise Unsupported('any() of masked')
        x = to_arr(x)
        if x.dtype != 'bool':
            x = elementwise(lambda v: sym.cmp('!=', v, 0), x, rdtype='bool')       # truth value of a number
        if all(dim_conc(d) for d in x.shape):
            return sym.or_(*_concrete_items(x)) if x.size else False
        symax = [k for k, d in enumerate(x.shape) if not dim_conc(d)]
        if x.ndim > 1 and len(symax) == 1:
            # one symbolic axis, the others concrete: any over each 1-d line along the symbolic axis
            import itertools as _it
            k = symax[0]
            f = x.snap()
            outs = []
            for combo in _it.product(*[range(d) for j, d in enumerate(x.shape) if j != k]):
                def line(i, combo=combo):
                    idx = list(combo)
                    idx.insert(k, i)
                    return f(*idx)
                outs.append(self.any(Arr((x.shape[k],), line, 'bool')))
            return sym.or_(*outs) if outs else False
        if x.ndim == 1:
            c = CTX()
            f, n = x.snap(), x.shape[0]
            r = c.fresh('any', 'bool')
            w = c.fresh('w', 'int')
            c.assume(sym.implies(r, sym.and_(w >= 0, w < n, f(w))))
            c.skolems.append(w.t)
            c.qfact('any-none', lambda j: sym.implies(sym.and_(sym.not_(r), j >= 0, j < n), sym.not_(f(j))))
            return r
        raise Unsupported('any over n-d symbolic array')

    def all(self, x, axis=None):
        x = to_arr(x)
        return sym.not_(self.any(elementwise(sym.not_, x, rdtype='bool')))

    # --- shape manipulation
    def append(self, a, b, axis=None):
        return self.concatenate([self.atleast_1d(a) if not isinstance(a, ArrBase) else a,
                                 self.atleast_1d(b) if not isinstance(b, ArrBase) else b], axis=0 if axis is not None else None)

    def hstack(self, xs):
        return self.concatenate([self.atleast_1d(x) for x in xs], axis=-1 if to_arr(xs[0]).ndim > 1 else 0)

    def concatenate(self, xs, axis=0):
        xs = [to_arr(x) for x in xs]
        if axis is None:
            xs = [self.ravel(x) for x in xs]
            axis = 0
        nd = xs[0].ndim
        axis = axis + nd if axis < 0 else axis
        fs = [x.snap() for x in xs]
        lens = [x.shape[axis] for x in xs]
        offs, tot = [], 0
        for l in lens:
            offs.append(tot)
            tot = sym.add(tot, l)
        tot = _simp(tot)
        shape = xs[0].shape[:axis] + (tot,) + xs[0].shape[axis + 1:]

        def fn(*idx):
            j = idx[axis]
            r = None
            for k in range(len(xs) - 1, -1, -1):
                jj = sym.sub(j, offs[k])
                if is_conc(jj) and all(is_conc(sym.sub(j, o)) for o in offs) and all(dim_conc(l) for l in lens):
                    if 0 <= jj < lens[k]:
                        return fs[k](*(idx[:axis] + (jj,) + idx[axis + 1:]))
                    continue
                v = fs[k](*(idx[:axis] + (jj,) + idx[axis + 1:]))
                r = v if r is None else ite(sym.cmp('>=', j, offs[k]), v, r) if k < len(xs) - 1 else v
            return r
        # the symbolic variant above builds nested ite from the last segment backwards
        def fn2(*idx):
            j = idx[axis]
            if is_conc(j) and all(dim_conc(l) for l in lens):
                for k in range(len(xs)):
                    if offs[k] <= j < offs[k] + lens[k]:
                        return fs[k](*(idx[:axis] + (j - offs[k],) + idx[axis + 1:]))
                raise PyRaise('IndexError', 'concatenate index')
            r = fs[-1](*(idx[:axis] + (sym.sub(j, offs[-1]),) + idx[axis + 1:]))
            for k in range(len(xs) - 2, -1, -1):
                r = ite(sym.cmp('<', j, offs[k + 1]), fs[k](*(idx[:axis] + (sym.sub(j, offs[k]),) + idx[axis + 1:])), r)
            return r
        dts = [x.dtype for x in xs]
        return Arr(shape, fn2, 'real' if 'real' in dts else dts[0])

    def pad(self, a, widths, mode='constant'):
        a = to_arr(a)
        if a.ndim == 1:
            w = widths if not isinstance(widths[0], (tuple, list)) else widths[0]
            widths = (tuple(w),)
        widths = [tuple(_generic(v) for v in w) for w in widths]
        for w in widths:
            for v in w:
                if bool(sym.cmp('<', v, 0)):          # numpy: ValueError (a path of its own when the sign of a symbolic width is open)
                    raise PyRaise('ValueError', "index can't contain negative values")
        f = a.snap()
        shape = tuple(_simp(sym.add(sym.add(d, w[0]), w[1])) for d, w in zip(a.shape, widths))
        oshape = a.shape

        def fn(*idx):
            inside = sym.and_(*[sym.and_(sym.cmp('>=', j, w[0]), sym.cmp('<', j, sym.add(w[0], d))) for j, w, d in zip(idx, widths, oshape)])
            if inside is False:
                return 0
            return ite(inside, f(*[sym.sub(j, w[0]) for j, w in zip(idx, widths)]), 0)
        return Arr(shape, fn, a.dtype)

    def ravel(self, a):
        a = to_arr(a)
        if a.ndim <= 1:
            return a if a.ndim == 1 else Arr((1,), lambda i: a.get(), a.dtype)
        return self.reshape(a, (-1,))

    def reshape(self, a, shape):
        a = to_arr(a)
        shape = _shape_arg(shape)
        f = a.snap()
        # supported: all trailing dims concrete (row-major index arithmetic on the leading symbolic axis)
        def strides(sh):
            st, acc = [], 1
            for d in reversed(sh):
                st.append(acc)
                acc = sym.mul(acc, d)
            return list(reversed(st)), acc
        ost, osize = strides(a.shape)
        if any(is_conc(d) and d == -1 for d in shape):
            k = [i for i, d in enumerate(shape) if is_conc(d) and d == -1][0]
            rest = 1
            for i, d in enumerate(shape):
                if i != k:
                    rest = sym.mul(rest, d)
            if is_conc(osize) and is_conc(rest):
                miss = osize // rest
            elif is_conc(rest) and rest == 1:
                miss = osize
            else:
                raise Unsupported('reshape -1 with symbolic sizes')
            shape = shape[:k] + (miss,) + shape[k + 1:]
        nst, nsize = strides(shape)
        if not dim_eq(osize, nsize):
            CTX().side('reshape-size', sym.cmp('==', osize, nsize))
        if all(dim_conc(d) for d in a.shape) and all(dim_conc(d) for d in shape):
            def fn(*idx):
                if all(is_conc(i) for i in idx):
                    flat = sum(i * s for i, s in zip(idx, nst))
                    oi = []
                    for s in ost:
                        oi.append(flat // s)
                        flat = flat % s
                    return f(*oi)
                raise Unsupported('symbolic index into reshaped concrete array')
            return Arr(shape, fn, a.dtype)
        # symbolic sizes: support (n, c1..ck) <-> flat where only the leading axis is symbolic
        if len(shape) == 1 and all(dim_conc(d) for d in a.shape[1:]):
            inner = 1
            for d in a.shape[1:]:
                inner *= d
            dims = a.shape[1:]

            def fn(j):
                if inner == 1:
                    return f(j, *([0] * len(dims)))
                q = sym.floordiv(j, inner) if not is_conc(j) else j // inner
                r = sym.mod(j, inner) if not is_conc(j) else j % inner
                if is_conc(r):
                    oi = []
                    for d in reversed(dims):
                        oi.append(r % d)
                        r //= d
                    return f(q, *reversed(oi))
                raise Unsupported('symbolic remainder in reshape')
            return Arr(shape, fn, a.dtype)
        if a.ndim == 1 and all(dim_conc(d) for d in shape[1:]):
            inner = 1
            for d in shape[1:]:
                inner *= d
            st = nst[1:]

            def fn(i, *rest):
                off = 0
                for r, s in zip(rest, st):
                    off = sym.add(off, sym.mul(r, s))
                return f(sym.add(sym.mul(i, inner), off))
            return Arr(shape, fn, a.dtype)
        if a.ndim == 1 and len(shape) == 2 and dim_conc(shape[0]):
            # (E*N,) -> (E, N) with N symbolic
            N = shape[1]
            return Arr(shape, lambda e, i: f(sym.add(sym.mul(e, N), i)), a.dtype)
        if a.ndim == 2 and len(shape) == 1 and dim_conc(a.shape[0]):
            # (E, N) -> (E*N,): flat index j -> (j div N, j mod N): only decidable blockwise
            E, N = a.shape

            def fn(j):
                r = f(E - 1, sym.sub(j, sym.mul(E - 1, N)))
                for e in range(E - 2, -1, -1):
                    r = ite(sym.cmp('<', j, sym.mul(e + 1, N)), f(e, sym.sub(j, sym.mul(e, N))), r)
                return r
            return Arr(shape, fn, a.dtype)
        raise Unsupported('reshape %s -> %s' % (a.shape, shape))

    def squeeze(self, a, axis=None):
        if not isinstance(a, ArrBase):
            if isinstance(a, (list, tuple)):
                a = to_arr(a)
            else:
                return a
        if axis is not None:
            raise Unsupported('squeeze(axis)')
        keep = [k for k, d in enumerate(a.shape) if not (dim_conc(d) and d == 1)]
        for k in keep:
            pass
        if len(keep) == a.ndim:
            return a
        f = a.snap()
        nd = a.ndim
        shape = tuple(a.shape[k] for k in keep)

        def fn(*idx):
            full = [0] * nd
            for k, i in zip(keep, idx):
                full[k] = i
            return f(*full)
        if not shape:
            # numpy gives a 0-d ARRAY: an object with identity, so that `v = np.squeeze(a); v /= 2` changes every alias of v; every other use unwraps it
            v0 = fn()          # evaluated now (operation time: same side obligations and errstate context as any other numpy call), kept in an object with identity
            return Arr((), lambda v0=v0: v0, a.dtype)
        return Arr(shape, fn, a.dtype)

    def expand_dims(self, a, axis):
        a = to_arr(a)
        axis = axis + a.ndim + 1 if axis < 0 else axis
        f = a.snap()
        shape = a.shape[:axis] + (1,) + a.shape[axis:]
        return Arr(shape, lambda *idx: f(*(idx[:axis] + idx[axis + 1:])), a.dtype)

    def transpose(self, a, axes=None):
        a = to_arr(a)
        if axes is None:
            axes = tuple(reversed(range(a.ndim)))
        f = a.snap()
        shape = tuple(a.shape[k] for k in axes)

        def fn(*idx):
            full = [None] * a.ndim
            for pos, k in enumerate(axes):
                full[k] = idx[pos]
            return f(*full)
        return Arr(shape, fn, a.dtype)

    def diff(self, a, n=1, axis=-1):
        a = to_arr(a)
        if n != 1:
            raise Unsupported('np.diff with n != 1')
        ax = axis % a.ndim
        f = a.snap()
        shp = tuple(_simp(sym.sub(d, 1)) if k == ax else d for k, d in enumerate(a.shape))

        def g(*idx):
            hi = list(idx)
            hi[ax] = sym.add(idx[ax], 1) if not isinstance(idx[ax], int) else idx[ax] + 1
            return sym.sub(f(*hi), f(*idx))
        return Arr(shp, g, a.dtype)

    def tile(self, a, reps):
        a = to_arr(a)
        reps = tuple(reps) if isinstance(reps, (tuple, list)) else (reps,)
        reps = tuple(_generic(r) for r in reps)
        if a.ndim == 2 and len(reps) == 2 and reps[1] == 1 and dim_conc(a.shape[0]) and a.shape[0] == 1:
            f = a.snap()
            return Arr((reps[0], a.shape[1]), lambda i, j: f(0, j), a.dtype)      # one row repeated
        raise Unsupported('np.tile general form')

    def repeat(self, a, n, axis=None):
        a = to_arr(a)
        if a.ndim == 0 or (a.ndim == 1 and dim_conc(a.shape[0]) and a.shape[0] == 1):
            v = a.get(*([0] * a.ndim))
            return Arr((n,), lambda i: v, a.dtype)
        if axis == 0 and dim_conc(a.shape[0]) and a.shape[0] == 1:
            f = a.snap()
            return Arr((n,) + tuple(a.shape[1:]), lambda i, *r: f(0, *r), a.dtype)
        if axis == 0 and dim_conc(a.shape[0]) and isinstance(n, int):
            f = a.snap()
            return Arr((a.shape[0] * n,) + tuple(a.shape[1:]), lambda i, *r: f(sym.floordiv(i, n) if not isinstance(i, int) else i // n, *r), a.dtype)
        raise Unsupported('np.repeat general form')

    def delete(self, a, obj, axis=None):
        a = to_arr(a)
        if a.ndim != 1 or not dim_conc(a.shape[0]):
            raise Unsupported('np.delete on n-d / symbolic-length arrays')
        idx = obj if isinstance(obj, (list, tuple)) else [obj]
        idx = [int(_generic(i)) % a.shape[0] for i in idx]
        keep = [k for k in range(a.shape[0]) if k not in idx]
        f = a.snap()
        vals = [f(k) for k in keep]
        return Arr((len(keep),), lambda i: _sel_nd({(k,): vals[k] for k in range(len(keep))}, (len(keep),), (i,)), a.dtype)

    def roll(self, a, shift, axis=None):
        a = to_arr(a)
        if axis is None:
            if a.ndim != 1:
                raise Unsupported('np.roll of a flattened n-d array')
            axis = 0
        if not isinstance(_generic(shift), int) or not dim_conc(a.shape[axis]):
            raise Unsupported('np.roll with symbolic shift / length')
        n, f = a.shape[axis], a.snap()
        sh = _generic(shift)

        def g(*idx):
            idx = list(idx)
            i = idx[axis]
            idx[axis] = (i - sh) % n if isinstance(i, int) else sym.mod(sym.sub(i, sh), n)
            return f(*idx)
        return Arr(a.shape, g, a.dtype)

    def outer(self, a, b):
        a, b = to_arr(a), to_arr(b)
        f, g = a.snap(), b.snap()
        return Arr((a.shape[0], b.shape[0]), lambda i, j: sym.mul(f(i), g(j)), 'real')

    def dot(self, a, b):
        return self.matmul(a, b)

    def matmul(self, a, b):
        a, b = to_arr(a), to_arr(b)
        f, g = a.snap(), b.snap()
        if a.ndim == 2 and b.ndim == 2 and dim_conc(a.shape[1]):
            n = a.shape[1]
            return Arr((a.shape[0], b.shape[1]), lambda i, j: _fold(sym.add, [sym.mul(f(i, k), g(k, j)) for k in range(n)]), 'real')
        if a.ndim == 2 and b.ndim == 1 and dim_conc(a.shape[1]):
            n = a.shape[1]
            return Arr((a.shape[0],), lambda i: _fold(sym.add, [sym.mul(f(i, k), g(k)) for k in range(n)]), 'real')
        if a.ndim == 1 and b.ndim == 2 and dim_conc(a.shape[0]):
            n = a.shape[0]
            return Arr((b.shape[1],), lambda j: _fold(sym.add, [sym.mul(f(k), g(k, j)) for k in range(n)]), 'real')
        if a.ndim == 1 and b.ndim == 1 and dim_conc(a.shape[0]):
            return _fold(sym.add, [sym.mul(f(k), g(k)) for k in range(a.shape[0])])
        if a.ndim == 3 and b.ndim == 3 and dim_conc(a.shape[2]):
            n = a.shape[2]
            return Arr((a.shape[0], a.shape[1], b.shape[2]), lambda t, i, j: _fold(sym.add, [sym.mul(f(t, i, k), g(t, k, j)) for k in range(n)]), 'real')
        raise Unsupported('matmul of shapes %s %s' % (a.shape, b.shape))

    def tensordot(self, a, b, axes=2):
        a, b = to_arr(a), to_arr(b)
        if isinstance(axes, int):
            axa = list(range(a.ndim - axes, a.ndim))
            axb = list(range(axes))
        else:
            axa, axb = axes
            axa = [axa] if isinstance(axa, int) else list(axa)
            axb = [axb] if isinstance(axb, int) else list(axb)
        axa = [x + a.ndim if x < 0 else x for x in axa]
        axb = [x + b.ndim if x < 0 else x for x in axb]
        dims = [a.shape[x] for x in axa]
        if not all(dim_conc(d) for d in dims):
            raise Unsupported('tensordot over symbolic extent')
        import itertools as it
        fa, fb = a.snap(), b.snap()
        fra = [k for k in range(a.ndim) if k not in axa]
        frb = [k for k in range(b.ndim) if k not in axb]
        shape = tuple(a.shape[k] for k in fra) + tuple(b.shape[k] for k in frb)
        combos = list(it.product(*[range(d) for d in dims]))

        def fn(*idx):
            ia, ib = idx[:len(fra)], idx[len(fra):]
            tot = 0
            for c in combos:
                fa_idx = [None] * a.ndim
                for k, v in zip(fra, ia):
                    fa_idx[k] = v
                for k, v in zip(axa, c):
                    fa_idx[k] = v
                fb_idx = [None] * b.ndim
                for k, v in zip(frb, ib):
                    fb_idx[k] = v
                for k, v in zip(axb, c):
                    fb_idx[k] = v
                tot = sym.add(tot, sym.mul(fa(*fa_idx), fb(*fb_idx)))
            return tot
        if not shape:
            return fn()
        return Arr(shape, fn, 'real')

    def einsum(self, subscripts, *ops):
        """einsum over operands of concrete shape (explicit 'in->out' form)"""
        import itertools as it
        ins, out = subscripts.replace(' ', '').split('->')
        ins = ins.split(',')
        ops = [to_arr(o) for o in ops]
        if len(ins) != len(ops):
            raise PyRaise('ValueError', 'einsum: operand count')
        dims = {}
        for sub, o in zip(ins, ops):
            if len(sub) != o.ndim:
                raise PyRaise('ValueError', 'einsum: rank mismatch')
            for ch, d in zip(sub, o.shape):
                if not dim_conc(d):
                    raise Unsupported('einsum over a symbolic extent')
                if dims.setdefault(ch, d) != d:
                    raise PyRaise('ValueError', 'einsum: size mismatch')
        summed = [ch for ch in dims if ch not in out]
        fs = [o.snap() for o in ops]
        shape = tuple(dims[ch] for ch in out)

        def fn(*idx):
            env = dict(zip(out, idx))
            tot = 0
            for combo in it.product(*[range(dims[ch]) for ch in summed]):
                env.update(zip(summed, combo))
                term = 1
                for sub, f in zip(ins, fs):
                    term = sym.mul(term, f(*[env[ch] for ch in sub]))
                tot = sym.add(tot, term)
            return tot
        if not shape:
            return fn()
        return Arr(shape, fn, 'real')

    def argsort(self, a):
        a = to_arr(a) if not isinstance(a, (list, tuple)) else a
        if isinstance(a, (list, tuple)) and all(isinstance(x, str) for x in a):
            import numpy
            r = [int(v) for v in numpy.argsort(list(a))]
            return Arr((len(r),), lambda i: select(r, i), 'int')
        if isinstance(a, ArrBase) and all(dim_conc(d) for d in a.shape) and a.ndim == 1:
            items = _concrete_items(a)
            if all(is_conc(x) or isinstance(x, str) for x in items):
                import numpy
                r = [int(v) for v in numpy.argsort([float(x) if not isinstance(x, str) else x for x in items], kind='stable')]
                return Arr((len(r),), lambda i: select(r, i), 'int')
        raise Unsupported('argsort on symbolic keys')

    def interp(self, x, xp, fp, left=None, right=None):
        """uninterpreted, with the assumed contract of DESIGN 4: the result has the shape of x; if every ordinate
        fp(j) >= 0 (checked silently here) and left/right are absent or >= 0, every result value is >= 0"""
        c = CTX()
        x, xp, fp = (to_arr(v) if isinstance(v, (list, tuple)) else v for v in (x, xp, fp))
        if getattr(c, 'replay', False):
            import numpy as np
            from .replay import Bridge, nd_to_arr
            br = Bridge(None)
            r = np.interp(br.native(x), br.native(xp), br.native(fp), left=None if left is None else float(left), right=None if right is None else float(right))
            return nd_to_arr(np.asarray(r)) if getattr(r, 'ndim', 0) else Fraction(float(r))
        # exact piecewise-linear semantics when the break-point lists have concrete length (xp increasing: numpy's
        # documented precondition, emitted as a side obligation)
        xa, fa = (to_arr(xp) if not isinstance(xp, ArrBase) else xp), (to_arr(fp) if not isinstance(fp, ArrBase) else fp)
        if xa.ndim == 1 and fa.ndim == 1 and dim_conc(xa.shape[0]) and dim_conc(fa.shape[0]) and xa.shape[0] == fa.shape[0] and 1 <= xa.shape[0] <= 6:
            k = xa.shape[0]
            xs, fs = [xa.get(i) for i in range(k)], [fa.get(i) for i in range(k)]
            lo = fs[0] if left is None else left
            hi = fs[-1] if right is None else right
            for i in range(k - 1):
                c.side('interp-breakpoints-increasing', sym.cmp('<', xs[i], xs[i + 1]))

            def pw(v):
                r = hi
                r = ite(sym.cmp('==', v, xs[-1]), fs[-1], r)
                for i in range(k - 2, -1, -1):
                    seg = sym.add(fs[i], sym.div(sym.mul(sym.sub(v, xs[i]), sym.sub(fs[i + 1], fs[i])), sym.sub(xs[i + 1], xs[i])))
                    r = ite(sym.cmp('<', v, xs[i + 1]), seg, r)
                r = ite(sym.cmp('<', v, xs[0]), lo, r)
                return r
            return elementwise(pw, x, rdtype='real')
        if 'assumed-contract:np.interp (shape of x; non-negative ordinates give non-negative values)' not in c.trace:
            c.trace.append('assumed-contract:np.interp (shape of x; non-negative ordinates give non-negative values)')
        nonneg = False
        if isinstance(fp, ArrBase) and fp.ndim == 1:
            j = c.fresh('ij', 'int')
            g = sym.implies(sym.and_(j >= 0, sym.cmp('<', j, fp.shape[0])), sym.cmp('>=', fp.get(j), 0))
            v, _m, _b, _r = sym.discharge(c.hyps([j]), sym.zbool(g) if isinstance(g, SV) else z3.BoolVal(bool(g)), 3000, quick=True)
            nonneg = v == 'proved' and (left is None or _generic(left) == 0) and (right is None or _generic(right) == 0)
        if isinstance(x, ArrBase):
            F = c.fresh_fn('interp', x.ndim, 'real')

            def fn(*i):
                v = SV(F(*[zterm(_generic(k)) for k in i]))
                if nonneg:
                    c.assume(v >= 0)
                return v
            res = Arr(x.shape, fn, 'real')
            res.interp_of = (x, xp, fp)
            c.__dict__.setdefault('interps', []).append(res)
            return res
        r = c.fresh('interp')
        if nonneg:
            c.assume(r >= 0)
        return r

    def histogram(self, data, bins):
        c = CTX()
        c.trace.append('assumed-contract:np.histogram')
        b = to_arr(bins)
        H = c.fresh_fn('hist', 1, 'int')
        n = _simp(sym.sub(b.shape[0], 1))
        c.qfact('hist-nonneg', lambda i: SV(H(zterm(i)) >= 0))
        def hf(i):
            v = SV(H(zterm(i)))
            c.assume(v >= 0)
            return v
        return (Arr((n,), hf, 'int'), Arr(b.shape, b.snap(), b.dtype))

    # --- .npz files: a virtual file system (assumed contract of np.savez / np.load: the arrays come back unchanged,
    #     python numbers and lists come back as arrays; None / objects would be PICKLED and np.load then refuses them)
    def _vfs(self):
        return CTX().__dict__.setdefault('vfs', {})

    def _savez(self, filename, kw):
        c = CTX()
        if not isinstance(filename, str):
            raise Unsupported('savez to a non-string file name')
        if not filename.endswith('.npz'):
            filename += '.npz'
        stored = {}
        for k, v in kw.items():
            if isinstance(v, ArrBase):
                stored[k] = v.copy()
            elif isinstance(v, (list, tuple)) and all(isinstance(_generic(e), (SV, int, Fraction, float)) and not isinstance(e, bool) for e in v):
                stored[k] = to_arr([sym.to_real(e) for e in v])
            elif isinstance(_generic(v), (SV, int, Fraction, float, bool)):
                stored[k] = Arr((), (lambda _v=v: _v), _dtype_of(v))
            else:
                stored[k] = _Pickled(v)
        self._vfs()[filename] = stored
        if 'assumed-contract:np.savez/np.load round trip arrays exactly' not in c.trace:
            c.trace.append('assumed-contract:np.savez/np.load round trip arrays exactly')

    def savez(self, filename, *args, **kw):
        self._savez(filename, kw)

    def savez_compressed(self, filename, *args, **kw):
        self._savez(filename, kw)

    def load(self, filename, allow_pickle=False):
        fs = self._vfs()
        if filename not in fs:
            raise PyRaise('FileNotFoundError', filename)
        return _NpzFile(fs[filename], allow_pickle)

    def errstate(self, **kw):
        return _NullCtx(ignore=any(v == 'ignore' for v in kw.values()))

    def finfo(self, t):
        return _Finfo()

    def searchsorted(self, a, v, side='left', sorter=None):
        """insertion index of the scalar v into the 1-d array a (ASSUMED sorted, as numpy requires): an opaque index k with 0 <= k <= n,
        a[i] < v (left) / a[i] <= v (right) for i < k and a[i] >= v (left) / a[i] > v (right) for i >= k"""
        if sorter is not None or isinstance(v, (ArrBase, Masked, list, tuple)):
            raise Unsupported('np.searchsorted with a sorter / array of values')
        a = to_arr(a)
        if a.ndim != 1 or side not in ('left', 'right'):
            raise Unsupported('np.searchsorted form')
        c = CTX()
        n, f = a.shape[0], a.snap()
        below, above = ('<', '>=') if side == 'left' else ('<=', '>')
        if dim_conc(n):
            k = 0
            for i in range(n):
                k = sym.add(k, ite(sym.cmp(below, f(i), v), 1, 0))
            return k
        k = c.fresh('ssorted', 'int')
        c.assume(k >= 0, sym.cmp('<=', k, n))
        c.skolems.append(k.t)
        c.qfact('searchsorted-below', lambda i: sym.implies(sym.and_(i >= 0, sym.cmp('<', i, k)), sym.cmp(below, f(i), v)))
        c.qfact('searchsorted-above', lambda i: sym.implies(sym.and_(sym.cmp('>=', i, k), sym.cmp('<', i, n)), sym.cmp(above, f(i), v)))
        c.trace.append('np.searchsorted: the array is assumed sorted (numpy requires it)')
        return k

    def unique(self, a, return_index=False):
        """sorted distinct values.  Without return_index only the LENGTH is modelled (1 <= u <= n, and u == 1 exactly when all entries are equal; entries opaque);
        with return_index and at most 4 entries: exact, by forking the path on the comparisons of an insertion sort (first occurrence kept, as numpy does)"""
        a = to_arr(a)
        if a.ndim != 1:
            raise Unsupported('np.unique of an n-d array')
        if return_index:
            n, f = a.shape[0], a.snap()
            if not dim_conc(n) or n > 4:
                raise Unsupported('np.unique(return_index=True) of more than 4 / symbolically many entries')
            vals = [f(i) for i in range(n)]
            order = []
            for i in range(n):
                placed = False
                for pos, j in enumerate(order):
                    if bool(sym.cmp('==', vals[i], vals[j])):
                        placed = True
                        break
                    if bool(sym.cmp('<', vals[i], vals[j])):
                        order.insert(pos, i)
                        placed = True
                        break
                if not placed:
                    order.append(i)
            uv = [vals[i] for i in order]
            return (Arr((len(order),), lambda i: select(uv, i), a.dtype), Arr((len(order),), lambda i: select(list(order), i), 'int'))
        c = CTX()
        n, f = a.shape[0], a.snap()
        u = c.fresh('nunique', 'int')
        c.assume(sym.and_(sym.implies(sym.cmp('>=', n, 1), u >= 1), sym.cmp('<=', u, n), u >= 0))
        if dim_conc(n):
            alleq = sym.and_(*[sym.cmp('==', f(i), f(0)) for i in range(1, n)]) if n > 1 else True
            c.assume(sym.cmp('==', sym.cmp('==', u, 1), alleq) if n >= 1 else sym.cmp('==', u, 0))
        else:
            w = c.fresh('w', 'int')
            c.skolems.append(w.t)
            # u != 1 and n >= 1: some entry differs from the first one; u == 1: every entry equals the first one
            c.assume(sym.implies(sym.and_(sym.cmp('>=', n, 1), sym.cmp('!=', u, 1)), sym.and_(w >= 1, sym.cmp('<', w, n), sym.cmp('!=', f(w), f(0)))))
            c.qfact('unique-one', lambda j: sym.implies(sym.and_(sym.cmp('==', u, 1), j >= 0, sym.cmp('<', j, n)), sym.cmp('==', f(j), f(0))))
        F = c.fresh_fn('unique', 1, 'real')
        return Arr((u,), lambda i: SV(F(zterm(_generic(i)))), a.dtype)

    def count_nonzero(self, a):
        a = to_arr(a)
        if all(dim_conc(d) for d in a.shape):
            return _fold(sym.add, [ite(sym.cmp('!=', v, 0) if not (isinstance(v, SV) and v.is_bool) and not isinstance(v, bool) else v, 1, 0) for v in _concrete_items(a)]) if a.size else 0
        raise Unsupported('count_nonzero symbolic')


class _Pickled(object):
    def __init__(self, v):
        self.v = v


class _NpzFile(dict):
    """np.load result: mapping name -> array; object entries raise ValueError unless allow_pickle"""
    def __init__(self, stored, allow_pickle):
        dict.__init__(self)
        self._stored, self._allow = stored, allow_pickle
        for k in stored:
            dict.__setitem__(self, k, None)

    def __getitem__(self, k):
        if k not in self._stored:
            raise KeyError(k)
        v = self._stored[k]
        if isinstance(v, _Pickled):
            if not self._allow:
                raise PyRaise('ValueError', 'Object arrays cannot be loaded when allow_pickle=False')
            return v.v
        return v

    def items(self):
        return [(k, self[k]) for k in self._stored]

    def values(self):
        return [self[k] for k in self._stored]

    def get(self, k, d=None):
        return self[k] if k in self._stored else d

    @property
    def files(self):
        return list(self._stored)


class _Linalg(object):
    def inv(self, a):
        """matrix inverse: exact (adjugate) for concrete 1x1..3x3, otherwise an opaque array with the assumed contract
        A.inv(A) = I (not expanded); the argument is kept on the result as `.inv_of` for contracts"""
        a = to_arr(a)
        if a.ndim == 2 and dim_conc(a.shape[0]) and a.shape[0] == a.shape[1] and a.shape[0] <= 3:
            n = a.shape[0]
            m = [[a.get(i, j) for j in range(n)] for i in range(n)]
            if n == 1:
                return Arr((1, 1), lambda i, j: sym.div(1, m[0][0]), 'real')
            if n == 2:
                det = sym.sub(sym.mul(m[0][0], m[1][1]), sym.mul(m[0][1], m[1][0]))
                adj = [[m[1][1], sym.sub(0, m[0][1])], [sym.sub(0, m[1][0]), m[0][0]]]
                return Arr((2, 2), lambda i, j: sym.div(_sel_nd({(p, q): adj[p][q] for p in range(2) for q in range(2)}, (2, 2), (i, j)), det), 'real')
            def cof(i, j):
                r = [x for x in range(3) if x != i]
                c = [x for x in range(3) if x != j]
                v = sym.sub(sym.mul(m[r[0]][c[0]], m[r[1]][c[1]]), sym.mul(m[r[0]][c[1]], m[r[1]][c[0]]))
                return v if (i + j) % 2 == 0 else sym.sub(0, v)
            det = _fold(sym.add, [sym.mul(m[0][j], cof(0, j)) for j in range(3)])
            items = {(i, j): sym.div(cof(j, i), det) for i in range(3) for j in range(3)}
            return Arr((3, 3), lambda i, j: _sel_nd(items, (3, 3), (i, j)), 'real')
        c = CTX()
        # the inverse is a function of the matrix: the same entries (syntactically) give the same opaque inverse
        key = None
        if a.ndim == 2 and dim_conc(a.shape[0]) and dim_conc(a.shape[1]) and a.shape[0] * a.shape[1] <= 400:
            ents = [a.get(i, j) for i in range(a.shape[0]) for j in range(a.shape[1])]
            key = (tuple(a.shape), tuple(('z', zterm(e).sexpr()) if isinstance(e, SV) else ('c', e) for e in ents))
            memo_ = c.__dict__.setdefault('_inv_memo', {})
            if key in memo_:
                return memo_[key]
        F = c.fresh_fn('inv', a.ndim, 'real')
        if 'assumed-contract:np.linalg.inv (A.inv(A) = I when it returns)' not in c.trace:
            c.trace.append('assumed-contract:np.linalg.inv (A.inv(A) = I when it returns)')
        r = Arr(a.shape, lambda *i: SV(F(*[zterm(_generic(k)) for k in i])), 'real')
        r.inv_of = a
        if key is not None:
            memo_[key] = r
        return r

    def solve(self, a, b):
        """A x = b through the inverse of A (exact up to 3x3, otherwise the opaque inverse with its assumed contract)"""
        return NP.matmul(self.inv(a), to_arr(b))

    def matrix_rank(self, a):
        raise Unsupported('np.linalg.matrix_rank')


class _Finfo(object):
    @property
    def tiny(self):
        # np.finfo(np.float64).tiny = 2.2250738585072014e-308 exactly representable decimal literal
        return Fraction('2.2250738585072014e-308')

    @property
    def max(self):
        return Fraction('1.7976931348623157e308')

    @property
    def eps(self):
        return Fraction(1, 2 ** 52)


class _NullCtx(object):
    """np.errstate(...): inside it invalid operations (sqrt/log of a negative number, 0/0) are deliberate: numpy yields nan/inf
    which the calling code filters; the model yields an arbitrary real there and emits no domain side obligation"""
    def __init__(self, ignore=False):
        self.ignore = ignore

    def __enter__(self):
        c = sym._CTX[0]
        if c is not None and self.ignore:
            c.__dict__['domain_off'] = c.__dict__.get('domain_off', 0) + 1
        return self

    def __exit__(self, *a):
        c = sym._CTX[0]
        if c is not None and self.ignore:
            c.__dict__['domain_off'] = c.__dict__.get('domain_off', 0) - 1
        return False


def _sel_nd(items, shape, idx):
    if all(is_conc(i) for i in idx):
        return items[tuple(int(i) for i in idx)]
    # symbolic index over concrete shape: nested ite
    import itertools as it
    keys = list(it.product(*[range(d) for d in shape]))
    r = items[keys[-1]]
    for k in reversed(keys[:-1]):
        r = ite(sym.and_(*[sym.cmp('==', i, kk) for i, kk in zip(idx, k)]), items[k], r)
    return r


_PI = {}


def pi_const():
    c = CTX()
    if getattr(c, 'replay', False):
        import math
        return Fraction(math.pi)
    p = z3.Real('pi')
    c.axiom(z3.And(p > z3.RealVal('3.14159265358979'), p < z3.RealVal('3.14159265358980')))
    return SV(p)


def trig(name, a):
    a = _generic(a)
    c = CTX()
    if getattr(c, 'replay', False) and is_conc(a):
        import math
        try:
            return Fraction(getattr(math, {'arcsin': 'asin', 'arccos': 'acos', 'arctan': 'atan'}.get(name, name))(float(Fraction(sym._c(a)))))
        except ValueError:
            pass
    p = pi_const()
    if is_conc(a):
        a = Fraction(sym._c(a))
        if name == 'sin' and a == 0: return 0
        if name == 'cos' and a == 0: return 1
        if name == 'arcsin':
            if a == 0: return 0
            if a == 1: return p / 2
            if a == Fraction(1, 2): return p / 6
        if name == 'arccos':
            if a == 1: return 0
            if a == 0: return p / 2
            if a == Fraction(1, 2): return p / 3
    r = sym.opaque_fn(name, a)
    t = zterm(a, True)
    if name in ('sin', 'cos'):
        s, co = sym.opaque_fn('sin', a).t, sym.opaque_fn('cos', a).t
        c.axiom(z3.And(s * s + co * co == 1, s >= -1, s <= 1, co >= -1, co <= 1))
        c.axiom(z3.Implies(t == 0, z3.And(s == 0, co == 1)))
        c.axiom(z3.Implies(t == p.t / 2, z3.And(s == 1, co == 0)))
    if name in ('arcsin', 'arccos'):
        asn, acs = sym.opaque_fn('arcsin', a).t, sym.opaque_fn('arccos', a).t
        c.axiom(z3.Implies(z3.And(t >= -1, t <= 1), z3.And(asn + acs == p.t / 2, acs >= 0, acs <= p.t, asn >= -p.t / 2, asn <= p.t / 2)))
        c.axiom(z3.And(z3.Implies(z3.And(t > 0, t * t == z3.RealVal('3/4')), z3.And(acs == p.t / 6, asn == p.t / 3)),
                       z3.Implies(z3.And(t > 0, t * t == z3.RealVal('1/2')), z3.And(acs == p.t / 4, asn == p.t / 4))))
        c.axiom(z3.And(z3.Implies(t == 0, asn == 0), z3.Implies(t == 1, asn == p.t / 2), z3.Implies(t == z3.RealVal('1/2'), asn == p.t / 6),
                       z3.Implies(z3.And(t > 0, t <= 1), asn > 0), z3.Implies(z3.And(t < 1, t >= -1), acs > 0)))
        c.mono_pair('arcsin', t, asn)
    return r


class _NaN(object):
    def __repr__(self):
        return 'nan'


NP = _NP()
NP.nan = _NaN()
NP.inf = sym.Inf()
NP.linalg = _Linalg()
