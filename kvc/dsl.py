"""kvc.dsl -- what a sidecar contract module imports."""
from fractions import Fraction
import z3
from . import sym, arr, run, interp as _interp
from .sym import (SV, Unsupported, PyRaise, PathEnd, Infeasible, ite, and_, or_, not_, implies, vmax, vmin,
                  absv, sqrt, cbrt, exp, log, power, cmp, to_real, zterm, zbool, wrap)
from .arr import Arr, ArrBase, View, Masked, MaskedRows, NP, Opaque, to_arr
from .run import real, integer, boolean, array, fp64, ufunc, new_obj, snapshot, unchanged, frame, forall, exists, steps, symbolise, Run
from .interp import Interp, Obj, Cls, Func, BoundMethod, LoopSpec, EnumMember


class Contract(object):
    def __init__(self, name, fn, targets, configs=None, timeout_ms=None, max_paths=600, tier='quick', doc='', bounded=None):
        self.name, self.fn, self.targets = name, fn, targets
        self.configs = configs or [dict(name='')]
        self.timeout_ms, self.max_paths, self.tier, self.doc = timeout_ms, max_paths, tier, doc
        self.replay = None
        self.bounded = bounded      # text of the bound if this contract is a BOUNDED stand-in (never counted as proved)


class Registry(object):
    def __init__(self, prop):
        self.prop = prop
        self.contracts = []
        self.assumptions = []
        self.undecided = []      # conjuncts of the property this family cannot decide (DESIGN 8)
        self.trusted = []

    def contract(self, name, targets, configs=None, **kw):
        """targets: list of 'dotted.module:Qual.name' strings -- the real functions this contract is on"""
        def deco(fn):
            c = Contract(name, fn, targets, configs, **kw)
            c.doc = (fn.__doc__ or '').strip()
            self.contracts.append(c)
            fn.contract = c
            return fn
        return deco


def eq(a, b):
    return cmp('==', a, b)


def le(a, b):
    return cmp('<=', a, b)


def lt(a, b):
    return cmp('<', a, b)


def ge(a, b):
    return cmp('>=', a, b)


def gt(a, b):
    return cmp('>', a, b)


def between(lo, x, hi):
    return and_(cmp('<=', lo, x), cmp('<=', x, hi))


def expect_raise(fn, etypes=None):
    """run fn(); returns (raised: bool, etype or None, value or None)"""
    try:
        v = fn()
        return False, None, v
    except PyRaise as e:
        if etypes is not None and e.etype not in etypes:
            raise
        return True, e.etype, None
