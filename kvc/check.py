"""kvc.check -- per-property check driver:  python -m kvc.check C07 --tier quick

exit 0  every obligation proved (known findings printed as KNOWN-FINDING lines)
exit 1  an obligation is refuted and not listed as a known finding: VIOLATION property=<id> replay=<file>
exit 2  something is undecided (solver unknown, construct outside the front end, ledger clause missing)
exit 3  internal error of the checker
`unknown`, timeouts and tracebacks are never mapped to a violation.
"""
import sys, os, json, time, argparse, importlib, traceback, hashlib
from concurrent.futures import ProcessPoolExecutor
import multiprocessing as mp

HERE = os.path.dirname(os.path.dirname(os.path.abspath(__file__)))
sys.path.insert(0, HERE)
sys.setrecursionlimit(20000)

TRUSTED_BASE = [
    'kvc engine (ast front end, symbolic executor, numpy model, VC generation, linear-sum lemma rule) -- /verif/kvc',
    'z3 5.1.0 (python API); cvc5 1.0.3 and z3 4.8.12 as fallback on SMT-LIB dumps',
    'CPython 3.12 ast module (parsing of the real files)',
    'python float treated as mathematical real (DESIGN 3.1); int as mathematical integer',
    'axioms for sqrt/cbrt/exp/log/pow/sin/cos/arcsin/arccos (DESIGN 3.5)',
]


def load_registry(prop):
    mod = importlib.import_module('contracts.%s' % prop.lower())
    return mod.REG, mod


def run_job(args):
    prop, ci, ki, tier, timeout_ms = args
    from kvc import sym
    from kvc.run import Run
    from kvc.interp import Interp
    reg, mod = load_registry(prop)
    c = reg.contracts[ci]
    cfg = c.configs[ki]
    t0 = time.time()
    interps = []

    def fn(ctx):
        it = Interp()
        del interps[:]
        interps.append(it)
        return c.fn(ctx, it, cfg)
    r = Run(c.name, fn, timeout_ms=c.timeout_ms or timeout_ms, config_name=cfg.get('name', ''), max_paths=c.max_paths)
    try:
        r.execute()
    except Exception:
        r.status, r.detail = 'error', traceback.format_exc()
    files = {}
    for it in interps[-1:]:
        files.update(it.files)
    obs = []
    for ob in r.obligations:
        d = ob.to_json()
        d['expect'] = getattr(ob, 'expect', None)
        d['contract'] = c.name
        d['config'] = cfg.get('name', '')
        d['bounded'] = c.bounded
        obs.append(d)
    return dict(contract=c.name, config=cfg.get('name', ''), status=r.status, detail=r.detail, paths=r.paths,
                infeasible=r.infeasible, seconds=time.time() - t0, obligations=obs, files=files, trace=r.trace,
                targets=c.targets, ci=ci, ki=ki, bounded=c.bounded)


def job_weight(reg, job):
    c = reg.contracts[job[1]]
    cfg = c.configs[job[2]]
    return cfg.get('weight', cfg.get('P', 1) * cfg.get('E', 1))


def clause_id(ob):
    cfg = '[%s]' % ob['config'] if ob['config'] else ''
    return '%s%s/%s' % (ob['contract'], cfg, ob['name'])


def main(argv=None):
    ap = argparse.ArgumentParser()
    ap.add_argument('prop')
    ap.add_argument('--tier', default=os.environ.get('VERIF_TIER', 'quick'))
    ap.add_argument('--update-ledger', action='store_true')
    ap.add_argument('--only', default=None, help='substring filter on contract names (development)')
    ap.add_argument('--jobs', type=int, default=int(os.environ.get('KVC_JOBS', '16')))
    ap.add_argument('--replay', default=None)
    ap.add_argument('-v', action='store_true')
    a = ap.parse_args(argv)
    prop = a.prop.upper()
    tier = 'thorough' if a.tier.startswith('t') else 'quick'
    seed = int(os.environ.get('VERIF_SEED', '0') or 0)
    t0 = time.time()
    try:
        reg, mod = load_registry(prop)
    except Exception:
        traceback.print_exc()
        print('CHECKER-ERROR property=%s cannot load contracts' % prop)
        return 3
    if a.replay:
        from kvc import replay as rp
        return rp.replay_file(reg, mod, a.replay)
    timeout_ms = 20000 if tier == 'quick' else 120000
    jobs = []
    for ci, c in enumerate(reg.contracts):
        if c.tier == 'thorough' and tier != 'thorough':
            continue
        if a.only and a.only not in c.name:
            continue
        for ki, cfg in enumerate(c.configs):
            if cfg.get('tier') == 'thorough' and tier != 'thorough':
                continue
            jobs.append((prop, ci, ki, tier, timeout_ms))
    results = []
    if a.jobs <= 1 or len(jobs) <= 1:
        for j in jobs:
            results.append(run_job(j))
    else:
        # one fresh process per (contract, configuration): no solver / interpreter state is shared between jobs;
        # the heaviest jobs are started first
        ctxm = mp.get_context('fork')
        order = sorted(range(len(jobs)), key=lambda k: -job_weight(reg, jobs[k]))
        with ctxm.Pool(processes=min(a.jobs, len(jobs)), maxtasksperchild=1) as pool:
            out = pool.map(run_job, [jobs[k] for k in order], chunksize=1)
        res = dict(zip(order, out))
        results = [res[k] for k in range(len(jobs))]

    # ---------------------------------------------------------------- collect
    known = load_known(prop)
    ledger_path = os.environ.get('KVC_LEDGER') or os.path.join(HERE, 'baseline', 'obligations.json')      # KVC_LEDGER: development runs against a frozen copy
    ledger_all = json.load(open(ledger_path)) if os.path.exists(ledger_path) else {}
    ledger = ledger_all.get(prop, {})
    clauses = {}          # clause id -> list of obligation dicts (one per path)
    undecided, errors = [], []
    files, trace = {}, []
    for r in results:
        files.update(r['files'])
        for t in r['trace']:
            if t not in trace:
                trace.append(t)
        if r['status'] == 'unsupported':
            undecided.append('%s[%s]: outside reach: %s' % (r['contract'], r['config'], r['detail']))
        elif r['status'] == 'error':
            errors.append('%s[%s]: %s' % (r['contract'], r['config'], r['detail']))
        for ob in r['obligations']:
            clauses.setdefault(clause_id(ob), []).append(ob)
    n_ob = n_proved = n_canary = n_bounded = n_bounded_ok = 0
    violations, known_hits, canary_fail = [], [], []
    per_clause = {}
    for cid, obs in sorted(clauses.items()):
        is_canary = any(o.get('expect') == 'refuted' for o in obs)
        if is_canary:
            n_canary += 1
            # a canary must be refuted on at least one path (it is a deliberately wrong clause)
            if not any(o['verdict'] == 'refuted' for o in obs):
                canary_fail.append(cid)
            per_clause[cid] = 'canary-refuted' if cid not in canary_fail else 'canary-NOT-refuted'
            continue
        verdicts = set(o['verdict'] for o in obs)
        if obs[0].get('bounded'):
            # bounded stand-in: reported and able to raise violations, but never counted among the proved obligations
            n_bounded += len(obs)
            n_bounded_ok += sum(1 for o in obs if o['verdict'] == 'proved')
        else:
            n_ob += len(obs)
            n_proved += sum(1 for o in obs if o['verdict'] == 'proved')
        if 'refuted' in verdicts:
            bad = [o for o in obs if o['verdict'] == 'refuted'][0]
            k = match_known(known, cid)
            if k is not None:
                known_hits.append((cid, k, bad))
                per_clause[cid] = 'known-finding'
                if not obs[0].get('bounded'):
                    n_ob -= len(obs)
                    n_proved -= sum(1 for o in obs if o['verdict'] == 'proved')
            else:
                violations.append((cid, bad))
                per_clause[cid] = 'refuted'
        elif 'undecided' in verdicts:
            bad = [o for o in obs if o['verdict'] == 'undecided'][0]
            undecided.append('%s: solver undecided (%s) %s' % (cid, bad.get('backend'), bad.get('reason', '')))
            per_clause[cid] = 'undecided'
        else:
            per_clause[cid] = 'proved'
    # ledger: every clause proved on the committed tree must still exist
    if ledger and not a.only:
        for cid, st in ledger.items():
            if st == 'thorough' and tier != 'thorough':
                continue
            if cid not in per_clause and '/side:' not in cid:
                # the contract may have ended early (exception/unsupported) -- already reported then
                owner = cid.split('/')[0]
                if not any(owner in u for u in undecided) and not any(owner == v[0].split('/')[0] for v in violations) \
                        and not any(owner == kh[0].split('/')[0] for kh in known_hits):
                    undecided.append('%s: clause in the ledger was not generated on this tree' % cid)
    if a.update_ledger:
        new = dict(ledger) if a.only else {}
        if tier == 'quick' and not a.only:
            # clauses only the thorough tier generates keep their marker (a quick update must not drop them); KVC_LEDGER_REPAIR=1 re-marks every ledger clause
            # the quick tier does not generate as thorough-only (one-off repair after a ledger written by an older version)
            for cid, st in ledger.items():
                if cid not in per_clause and (st == 'thorough' or os.environ.get('KVC_LEDGER_REPAIR')):
                    new[cid] = 'thorough'
        for cid, st in per_clause.items():
            if st in ('proved', 'canary-refuted', 'known-finding'):
                if tier == 'quick':
                    new[cid] = st
                else:
                    new[cid] = 'thorough' if ledger.get(cid, 'thorough') == 'thorough' else st
        ledger_all[prop] = new
        os.makedirs(os.path.dirname(ledger_path), exist_ok=True)
        json.dump(ledger_all, open(ledger_path, 'w'), indent=1, sort_keys=True)

    # ---------------------------------------------------------------- replay + report
    rc = 0
    out_lines = []
    replay_dir = os.path.join(HERE, 'replays', prop)
    for cid, k, bad in known_hits:
        # the committed witness of a known finding is replayed on the real code on every run; if it no longer fails
        # while the obligation is still refuted, that is a different violation and is reported as such
        w = k.get('witness')
        still = True
        if w is not None:
            try:
                from kvc import replay as rp
                rep = rp.replay_obligation(reg, mod, dict(contract=bad['contract'], config=bad['config'], obligation=cid, model=w))
                still = bool(rep.get('reproduced'))
            except Exception:
                still = False
        if still:
            out_lines.append('KNOWN-FINDING: property=%s %s -- %s' % (prop, cid, k.get('what', '')))
        else:
            violations.append((cid, bad))
    nviol = 0
    if violations:
        os.makedirs(replay_dir, exist_ok=True)
        from kvc import replay as rp
        for cid, bad in violations:
            fn = os.path.join(replay_dir, hashlib.sha1(cid.encode()).hexdigest()[:10] + '_' + ''.join(ch if ch.isalnum() else '_' for ch in cid)[:80] + '.json')
            rec = dict(property=prop, obligation=cid, verdict='refuted', backend=bad.get('backend'), path=bad.get('path'),
                       where=bad.get('where'), reason=bad.get('reason'), model=bad.get('model'), contract=bad['contract'], config=bad['config'])
            # native replays run the REAL code on the counterexample: a broken solver loop may not terminate, so they get a wall-clock watchdog
            import signal

            class _ReplayTimeout(BaseException):
                pass

            def _alarm(signum, frame):
                raise _ReplayTimeout()
            old_h = signal.signal(signal.SIGALRM, _alarm)
            signal.setitimer(signal.ITIMER_REAL, 30)
            try:
                rep = rp.replay_obligation(reg, mod, rec)
            except _ReplayTimeout:
                rep = dict(reproduced=None, detail='native replay did not finish within 30 s (the real code may not terminate on this input)')
            except Exception:
                rep = dict(reproduced=None, detail='replay driver failed: ' + traceback.format_exc()[-800:])
            finally:
                signal.setitimer(signal.ITIMER_REAL, 0)
                signal.signal(signal.SIGALRM, old_h)
            rec['replay'] = rep
            json.dump(rec, open(fn, 'w'), indent=1, default=str)
            suffix = '' if rep.get('reproduced') else ' no-failing-input-found'
            out_lines.append('VIOLATION property=%s replay=%s obligation=%s%s' % (prop, fn, cid, suffix))
            nviol += 1
        rc = 1
    for u in undecided + ['canary not refuted (vacuous contract?): ' + c for c in canary_fail]:
        out_lines.append('UNDECIDED property=%s %s' % (prop, u))
    for e in errors:
        out_lines.append('CHECKER-ERROR property=%s %s' % (prop, e))
    if rc == 0:
        if errors:
            rc = 3
        elif undecided or canary_fail:
            rc = 2
    if n_ob == 0 and rc == 0:
        out_lines.append('UNDECIDED property=%s zero obligations generated' % prop)
        rc = 2

    wall = time.time() - t0
    samples = []
    for cid, obs in sorted(clauses.items()):
        if len(samples) < 6 and obs[0]['kind'] != 'side':
            samples.append(dict(obligation=cid, kind=obs[0]['kind'], paths=len(obs), verdicts=sorted(set(o['verdict'] for o in obs)),
                                backend=obs[0]['backend'], seconds=round(sum(o['seconds'] for o in obs), 3),
                                model=obs[0].get('model')))
    slowest = sorted(((round(sum(o['seconds'] for o in obs), 2), cid, sorted(set(o['backend'] for o in obs))) for cid, obs in clauses.items()), reverse=True)[:8]
    functions = sorted(set(t for r in results for t in r['targets']))
    ev = dict(property_id=prop, tier=tier, seed=seed, level='proof',
              coverage=dict(obligations=n_ob, discharged=n_proved,
                            checker_cmd='cd /verif && bin/check %s --tier %s' % (prop, tier),
                            trusted_base=TRUSTED_BASE + list(reg.trusted),
                            functions_under_contract=functions,
                            source_files={k: v for k, v in sorted(files.items())},
                            contracts=[dict(contract=r['contract'], config=r['config'], status=r['status'], paths=r['paths'],
                                            infeasible_paths=r['infeasible'], obligations=len(r['obligations']),
                                            seconds=round(r['seconds'], 2)) for r in results],
                            clauses=per_clause, canaries=n_canary, canaries_refuted=n_canary - len(canary_fail),
                            backends=sorted(set(o['backend'] for obs in clauses.values() for o in obs)),
                            bounded_stand_ins=dict(note='checked for the stated bound only; NOT counted in obligations/discharged', obligations=n_bounded, passed=n_bounded_ok,
                                                   contracts=sorted(set('%s[%s]: %s' % (r['contract'], r['config'], r['bounded']) for r in results if r.get('bounded')))),
                            slowest_obligations=[dict(obligation=c, seconds=t, backends=b) for t, c, b in slowest],
                            solver_seconds=round(sum(o['seconds'] for obs in clauses.values() for o in obs), 2),
                            known_findings=[dict(obligation=c, what=k.get('what')) for c, k, _ in known_hits],
                            undecided=undecided, undecided_conjuncts=list(reg.undecided),
                            samples=samples, engine_notes=trace),
              assumptions=list(reg.assumptions) + trace, wall_s=round(wall, 2), violations=nviol)
    evdir = os.environ.get('KVC_EVIDENCE_DIR') or os.path.join(HERE, 'evidence')     # development runs against scratch copies write elsewhere
    os.makedirs(evdir, exist_ok=True)
    json.dump(ev, open(os.path.join(evdir, '%s.json' % prop), 'w'), indent=1, default=str)
    for l in out_lines:
        print(l)
    print('%s tier=%s: %d obligations, %d proved, %d canaries (%d refuted), %d known findings, %d violations, %d undecided%s, %.1fs -> exit %d'
          % (prop, tier, n_ob, n_proved, n_canary, n_canary - len(canary_fail), len(known_hits), nviol, len(undecided),
             (', bounded stand-ins %d/%d' % (n_bounded_ok, n_bounded)) if n_bounded else '', wall, rc))
    if a.v:
        for cid, st in sorted(per_clause.items()):
            if not cid.split('/')[-1].startswith('side:') or st != 'proved':
                print('   %-14s %s' % (st, cid))
    return rc


def load_known(prop):
    p = os.path.join(HERE, 'known_findings.json')
    if not os.path.exists(p):
        return []
    return [k for k in json.load(open(p)).get('findings', []) if k.get('property') == prop and k.get('status') == 'open']


def match_known(known, cid):
    for k in known:
        if k.get('obligation') == cid:
            return k
    return None


if __name__ == '__main__':
    sys.exit(main())
