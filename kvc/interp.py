"""kvc.interp -- symbolic interpreter for the Python subset used by kawin (DESIGN 2.2, 2.4).

The interpreter walks the `ast` of the REAL files under REPO (read on every run).  Nothing is copied or
rewritten.  Dropped, always the same way: docstrings, comments, annotations, print, plotting calls,
time.time().  Any other unsupported node raises Unsupported(file:line) -- never skipped silently.
"""
import ast, os, operator, itertools, hashlib
from fractions import Fraction
import z3
from . import sym, arr
from .sym import SV, CTX, Unsupported, PyRaise, PathEnd, Infeasible, is_conc
from .arr import Arr, ArrBase, View, Masked, NP, Opaque, to_arr

REPO = os.environ.get('KVC_REPO', '/repo')


_AST_CACHE = {}


class _OsPath(object):
    """string functions of os.path on concrete path names (pure; nothing touches the real file system)"""
    @staticmethod
    def splitext(p):
        import os.path as _p
        if not isinstance(p, str):
            raise Unsupported('os.path.splitext of a non-concrete name')
        return _p.splitext(p)

    @staticmethod
    def basename(p):
        import os.path as _p
        return _p.basename(p)

    @staticmethod
    def dirname(p):
        import os.path as _p
        return _p.dirname(p)

    @staticmethod
    def join(*a):
        import os.path as _p
        return _p.join(*a)


class OsModel(object):
    path = _OsPath()


class SchemaGap(Unsupported):
    pass


class ReturnEx(Exception):
    def __init__(self, v):
        self.v = v


class BreakEx(Exception):
    pass


class ContinueEx(Exception):
    pass


class Func(object):
    def __init__(self, interp, node, module, closure, qualname, owner=None):
        self.interp, self.node, self.module, self.closure = interp, node, module, closure
        self.qualname, self.owner = qualname, owner
        self.name = node.name if hasattr(node, 'name') else '<lambda>'
        self.defaults = None
        self.kw_defaults = None
        self.key = '%s:%s' % (module.relpath if module else '?', qualname)
        self._locals = None

    def __call__(self, *args, **kwargs):
        return self.interp.call_func(self, list(args), dict(kwargs))

    def __get__(self, obj, cls=None):
        return self

    def __repr__(self):
        return '<Func %s>' % self.key

    def local_names(self):
        if self._locals is None:
            names = set()
            glob = set()
            body = self.node.body if isinstance(self.node.body, list) else []

            class V(ast.NodeVisitor):
                def visit_FunctionDef(s, n):
                    names.add(n.name)

                def visit_ClassDef(s, n):
                    names.add(n.name)

                def visit_Lambda(s, n):
                    pass

                def visit_Name(s, n):
                    if isinstance(n.ctx, (ast.Store, ast.Del)):
                        names.add(n.id)

                def visit_Global(s, n):
                    glob.update(n.names)

                def visit_Nonlocal(s, n):
                    glob.update(n.names)

                def visit_Import(s, n):
                    for a in n.names:
                        names.add((a.asname or a.name).split('.')[0])

                def visit_ImportFrom(s, n):
                    for a in n.names:
                        names.add(a.asname or a.name)

                def visit_ListComp(s, n):
                    # comprehension targets are local to the comprehension
                    for g in n.generators:
                        s.visit(g.iter)
                    # names assigned by walrus are ignored

                visit_SetComp = visit_DictComp = visit_GeneratorExp = visit_ListComp

                def visit_ExceptHandler(s, n):
                    if n.name:
                        names.add(n.name)
                    s.generic_visit(n)
            v = V()
            for st in body:
                v.visit(st)
            self._locals = names - glob
        return self._locals


class BoundMethod(object):
    def __init__(self, func, obj):
        self.func, self.obj = func, obj

    def __call__(self, *args, **kwargs):
        return self.func.interp.call_func(self.func, [self.obj] + list(args), dict(kwargs))

    def __eq__(self, o):
        return isinstance(o, BoundMethod) and o.func is self.func and o.obj is self.obj

    __hash__ = object.__hash__

    def __repr__(self):
        return '<bound %s>' % self.func.key


class Prop(object):
    def __init__(self, fget, fset=None):
        self.fget, self.fset = fget, fset

    def setter(self, f):
        return Prop(self.fget, f)


class StaticM(object):
    def __init__(self, f):
        self.f = f


class ClassM(object):
    def __init__(self, f):
        self.f = f


class EnumMember(object):
    def __init__(self, cls, name, value):
        self.cls, self.name, self.value = cls, name, value

    def __repr__(self):
        return '<%s.%s>' % (self.cls.name, self.name)


class Cls(object):
    def __init__(self, interp, name, bases, module):
        self.interp, self.name, self.bases, self.module = interp, name, bases, module
        self.attrs = {}
        self.is_enum = any(b is ENUM_BASE or (isinstance(b, Cls) and b.is_enum) for b in bases)
        self.is_exception = any((isinstance(b, type) and issubclass(b, BaseException)) or (isinstance(b, Cls) and b.is_exception) for b in bases)

    def mro(self):
        out = [self]
        for b in self.bases:
            if isinstance(b, Cls):
                for c in b.mro():
                    if c not in out:
                        out.append(c)
        return out

    def lookup(self, name):
        for c in self.mro():
            if name in c.attrs:
                return c.attrs[name], c
        return None, None

    def has(self, name):
        return any(name in c.attrs for c in self.mro())

    def __call__(self, *args, **kwargs):
        if self.is_enum:
            for m in self.attrs.values():
                if isinstance(m, EnumMember) and (m.value == args[0]):
                    return m
            raise PyRaise('ValueError', 'not a valid %s' % self.name)
        o = Obj(self)
        init, _ = self.lookup('__init__')
        if init is not None:
            self.interp.call_func(init, [o] + list(args), dict(kwargs))
        elif args or kwargs:
            if not self.is_exception:
                raise PyRaise('TypeError', '%s() takes no arguments' % self.name)
            o.fields['args'] = tuple(args)
        return o

    def issub(self, other):
        return other in self.mro()

    def assigns_attr(self, name):
        """does any method of the class (or its bases) store self.<name>?  (static scan; used to tell a field the
        invariant schema does not know from an attribute that no real instance can ever have)"""
        cache = self.__dict__.setdefault('_assigned', None)
        if cache is None:
            cache = set()
            for c in self.mro():
                for v in c.attrs.values():
                    f = v.fget if isinstance(v, Prop) else (v.f if isinstance(v, (StaticM, ClassM)) else v)
                    if isinstance(f, Func):
                        for n in ast.walk(f.node):
                            if isinstance(n, ast.Attribute) and isinstance(n.ctx, ast.Store):
                                cache.add(n.attr)
                            elif isinstance(n, ast.Call) and isinstance(n.func, ast.Name) and n.func.id == 'setattr' \
                                    and n.args and isinstance(n.args[0], ast.Name) and n.args[0].id == 'self':
                                cache.add('*')
            self._assigned = cache
        return name in cache or '*' in cache

    def __repr__(self):
        return '<Cls %s>' % self.name


class Obj(object):
    def __init__(self, cls):
        self.cls = cls
        self.fields = {}

    def __repr__(self):
        return '<Obj %s>' % self.cls.name

    __hash__ = object.__hash__

    # allow contract code to use natural attribute syntax
    def __getattr__(self, k):
        if k.startswith('__') or k in ('cls', 'fields', '_schema'):
            raise AttributeError(k)
        return self.cls.interp.getattr(self, k)

    def __setattr__(self, k, v):
        if k in ('cls', 'fields', '_schema'):
            object.__setattr__(self, k, v)
        else:
            self.cls.interp.setattr(self, k, v)

    def __call__(self, *a, **k):
        f, _ = self.cls.lookup('__call__')
        if f is None:
            raise PyRaise('TypeError', '%s object is not callable' % self.cls.name)
        return self.cls.interp.call_func(f, [self] + list(a), dict(k))


ENUM_BASE = object()


class Module(object):
    def __init__(self, name, relpath):
        self.name, self.relpath = name, relpath
        self.env = {}
        self.sha = ''

    def __getattr__(self, k):
        if k.startswith('__') or k in ('name', 'relpath', 'env', 'sha'):
            raise AttributeError(k)
        try:
            return self.env[k]
        except KeyError:
            raise PyRaise('AttributeError', 'module %s has no attribute %s' % (self.name, k))


class CopyModel(object):
    def copy(self, x):
        if isinstance(x, ArrBase):
            return x.copy()
        if isinstance(x, list):
            return list(x)
        if isinstance(x, dict):
            return dict(x)
        if isinstance(x, Obj):
            o = Obj(x.cls)
            o.fields = dict(x.fields)
            return o
        return x

    def deepcopy(self, x, memo=None):
        if isinstance(x, ArrBase):
            return x.copy()
        if isinstance(x, list):
            return [self.deepcopy(e) for e in x]
        if isinstance(x, tuple):
            return tuple(self.deepcopy(e) for e in x)
        if isinstance(x, dict):
            return {k: self.deepcopy(v) for k, v in x.items()}
        if isinstance(x, Obj):
            o = Obj(x.cls)
            o.fields = {k: self.deepcopy(v) for k, v in x.fields.items()}
            return o
        return x


class TimeModel(object):
    def time(self):
        return 0


_EXC_NAMES = ['Exception', 'ValueError', 'TypeError', 'IndexError', 'KeyError', 'AttributeError', 'RuntimeError',
              'NotImplementedError', 'ZeroDivisionError', 'AssertionError', 'UnboundLocalError', 'NameError',
              'StopIteration', 'ArithmeticError', 'FloatingPointError', 'Warning', 'UserWarning', 'OSError',
              'FileNotFoundError', 'LookupError', 'BaseException', 'ImportError', 'ModuleNotFoundError']
_EXC_PARENTS = {'IndexError': 'LookupError', 'KeyError': 'LookupError', 'ZeroDivisionError': 'ArithmeticError',
                'FloatingPointError': 'ArithmeticError', 'UnboundLocalError': 'NameError', 'NotImplementedError': 'RuntimeError',
                'FileNotFoundError': 'OSError', 'ModuleNotFoundError': 'ImportError', 'UserWarning': 'Warning'}


class ExcType(object):
    def __init__(self, name):
        self.name = name

    def __call__(self, *args):
        return ExcValue(self, args)

    def __repr__(self):
        return '<exc %s>' % self.name


class ExcValue(object):
    def __init__(self, etype, args):
        self.etype, self.args = etype, args

    def __str__(self):
        return ' '.join(str(a) for a in self.args)


def exc_matches(name, handler_name):
    if handler_name in ('Exception', 'BaseException'):
        return True
    while name is not None:
        if name == handler_name:
            return True
        name = _EXC_PARENTS.get(name)
    return False


class LoopSpec(object):
    """invariant for a while loop: see Interp.exec_loop_with_spec"""
    def __init__(self, invariant, havoc, name='loop', ghost=None, body_post=None, exit_post=None):
        # a specification names locals of the loop it was written for; if the loop in the current source no longer has them (renamed counter, while
        # turned into for), the specification does not apply: that is 'outside reach' (undecided), neither a proof nor a crash of the checker
        def guard(f):
            if f is None:
                return None

            def g(env, *a):
                try:
                    return f(env, *a)
                except KeyError as e:
                    if isinstance(env, dict) or hasattr(env, 'keys'):
                        raise Unsupported('loop specification %r refers to a local variable the loop does not have: %s' % (name, e))
                    raise
            return g
        self.invariant, self.havoc, self.name = guard(invariant), guard(havoc), name
        self.ghost, self.body_post, self.exit_post = guard(ghost), guard(body_post), guard(exit_post)


class Interp(object):
    MAX_DEPTH = 60
    MAX_UNROLL = 4000

    def __init__(self, repo=None):
        self.repo = repo or REPO
        self.modules = {}
        self.summaries = {}         # Func.key -> fn(interp, func, args, kwargs)
        self.loop_specs = {}        # (Func.key, ordinal) -> LoopSpec
        self.host_modules = {}      # dotted name -> host model object (stubs supplied by contracts)
        self.depth = 0
        self.where = ''
        self.files = {}             # relpath -> sha256
        self.call_log = None
        self.builtins = make_builtins(self)
        self.frames = []

    # ------------------------------------------------------------------ modules
    def relpath_of(self, dotted):
        p = dotted.replace('.', '/')
        for cand in (p + '.py', p + '/__init__.py'):
            if os.path.exists(os.path.join(self.repo, cand)):
                return cand
        return None

    def load(self, dotted):
        if dotted in self.modules:
            return self.modules[dotted]
        # python imports the parent packages (their __init__) before a submodule
        parts = dotted.split('.')
        for k in range(1, len(parts)):
            parent = '.'.join(parts[:k])
            if parent not in self.modules and self.relpath_of(parent):
                self.load(parent)
        if dotted in self.modules:
            return self.modules[dotted]
        rel = self.relpath_of(dotted)
        if rel is None:
            raise Unsupported('module %s not found under %s' % (dotted, self.repo))
        m = Module(dotted, rel)
        self.modules[dotted] = m
        src = open(os.path.join(self.repo, rel)).read()
        m.sha = hashlib.sha256(src.encode()).hexdigest()
        self.files[rel] = m.sha
        ck = (os.path.join(self.repo, rel), m.sha)
        tree = _AST_CACHE.get(ck)
        if tree is None:
            tree = ast.parse(src, rel)
            _AST_CACHE[ck] = tree
        m.tree = tree
        m.env['__name__'] = dotted
        self.exec_block(tree.body, m.env, m, None)
        return m

    def get(self, dotted, qualname):
        """resolve 'Class.method' or 'function' in a repo module"""
        m = self.load(dotted)
        parts = qualname.split('.')
        if parts[0] not in m.env:
            raise KeyError('contract target missing: %s:%s' % (dotted, qualname))
        v = m.env[parts[0]]
        for p in parts[1:]:
            if isinstance(v, Cls):
                a, _ = v.lookup(p)
                if a is None:
                    raise KeyError('contract target missing: %s:%s' % (dotted, qualname))
                v = a
            else:
                raise KeyError('contract target missing: %s:%s' % (dotted, qualname))
        if isinstance(v, (StaticM, ClassM)):
            v = v.f
        return v

    def import_module(self, name):
        if name in self.host_modules:
            return self.host_modules[name]
        if name == 'numpy':
            return NP
        if name == 'copy':
            return CopyModel()
        if name == 'time':
            return TimeModel()
        if name == 'itertools':
            return itertools
        if name == 'enum':
            return EnumModule()
        if name == 'math':
            return MathModel()
        if name == 'json':
            return Opaque('json')
        if name in ('collections', 'typing', 'abc', 'functools', 'string', 'operator'):
            import importlib
            return importlib.import_module(name)
        if name == 'warnings':
            return WarningsModel()
        if name in ('os', 'os.path'):
            return OsModel() if name == 'os' else OsModel.path
        if name.split('.')[0] == 'kawin':
            return self.load(name)
        return Opaque(name)

    # ------------------------------------------------------------------ statements
    def exec_block(self, stmts, env, module, func):
        for st in stmts:
            self.exec_stmt(st, env, module, func)

    def exec_stmt(self, st, env, module, func):
        self.where = '%s:%d' % (module.relpath, getattr(st, 'lineno', 0))
        m = getattr(self, 'exec_' + type(st).__name__, None)
        if m is None:
            raise Unsupported('%s statement %s' % (self.where, type(st).__name__))
        m(st, env, module, func)

    def exec_Expr(self, st, env, module, func):
        if isinstance(st.value, ast.Constant) and isinstance(st.value.value, str):
            return  # docstring
        self.eval(st.value, env, module, func)

    def exec_Pass(self, st, env, module, func):
        pass

    def exec_Global(self, st, env, module, func):
        pass

    def exec_Nonlocal(self, st, env, module, func):
        pass

    def exec_Assert(self, st, env, module, func):
        v = self.eval(st.test, env, module, func)
        if not truth(v):
            raise PyRaise('AssertionError', '', self.where)

    def exec_Import(self, st, env, module, func):
        for a in st.names:
            mod = self.import_module(a.name)
            if a.asname:
                env[a.asname] = mod
            else:
                top = a.name.split('.')[0]
                env[top] = self.import_module(top) if '.' in a.name else mod

    def exec_ImportFrom(self, st, env, module, func):
        name = st.module or ''
        if st.level:
            base = module.name.split('.')
            if not module.relpath.endswith('__init__.py'):
                base = base[:-1]
            base = base[:len(base) - (st.level - 1)]
            name = '.'.join(base + ([st.module] if st.module else []))
        mod = self.import_module(name)
        for a in st.names:
            if a.name == '*':
                if isinstance(mod, Module):
                    env.update({k: v for k, v in mod.env.items() if not k.startswith('_')})
                continue
            if isinstance(mod, Module):
                if a.name in mod.env:
                    v = mod.env[a.name]
                else:
                    sub = self.relpath_of(name + '.' + a.name)
                    if sub is None:
                        raise PyRaise('ImportError', 'cannot import %s from %s' % (a.name, name))
                    v = self.load(name + '.' + a.name)
            else:
                try:
                    v = getattr(mod, a.name)
                except AttributeError:
                    v = Opaque(name + '.' + a.name)
            env[a.asname or a.name] = v

    def exec_FunctionDef(self, st, env, module, func, owner=None):
        qn = (func.qualname + '.<locals>.' if func else '') + st.name
        if owner is not None:
            qn = owner.name + '.' + st.name
        f = Func(self, st, module, env if func else None, qn, owner)
        self.bind_defaults(f, st.args, env, module, func)
        v = f
        for d in reversed(st.decorator_list):
            v = self.apply_decorator(d, v, env, module, func)
        env[st.name] = v

    def bind_defaults(self, f, args, env, module, func):
        f.defaults = [self.eval(d, env, module, func) for d in args.defaults]
        f.kw_defaults = [None if d is None else self.eval(d, env, module, func) for d in args.kw_defaults]

    def apply_decorator(self, d, v, env, module, func):
        if isinstance(d, ast.Name):
            if d.id == 'property':
                return Prop(v)
            if d.id == 'staticmethod':
                return StaticM(v)
            if d.id == 'classmethod':
                return ClassM(v)
            if d.id in ('abstractmethod',):
                return v
        if isinstance(d, ast.Attribute) and d.attr == 'setter' and isinstance(d.value, ast.Name):
            p = env.get(d.value.id)
            if isinstance(p, Prop):
                return Prop(p.fget, v)
        if isinstance(d, ast.Attribute) and d.attr in ('abstractmethod',):
            return v
        raise Unsupported('%s decorator %s' % (self.where, ast.dump(d)))

    def exec_ClassDef(self, st, env, module, func):
        bases = [self.eval(b, env, module, func) for b in st.bases]
        c = Cls(self, st.name, bases, module)
        cenv = _ChainEnv({}, env)
        for s in st.body:
            if isinstance(s, ast.FunctionDef):
                self.where = '%s:%d' % (module.relpath, s.lineno)
                self.exec_FunctionDef(s, cenv, module, func, owner=c)
            else:
                self.exec_stmt(s, cenv, module, func)
        cenv = dict(dict.items(cenv))
        cenv.pop('__name__', None)
        c.attrs = cenv
        if c.is_enum:
            for k, v in list(cenv.items()):
                if not k.startswith('_') and not isinstance(v, (Func, Prop, StaticM, ClassM)):
                    cenv[k] = EnumMember(c, k, v)
        env[st.name] = c

    def exec_Return(self, st, env, module, func):
        raise ReturnEx(None if st.value is None else self.eval(st.value, env, module, func))

    def exec_Break(self, st, env, module, func):
        raise BreakEx()

    def exec_Continue(self, st, env, module, func):
        raise ContinueEx()

    def exec_Delete(self, st, env, module, func):
        for t in st.targets:
            if isinstance(t, ast.Name):
                env.pop(t.id, None)
            elif isinstance(t, ast.Subscript):
                o = self.eval(t.value, env, module, func)
                k = self.eval_index(t.slice, env, module, func)
                if isinstance(o, (dict, list)):
                    try:
                        del o[k]
                    except KeyError:
                        raise PyRaise('KeyError', repr(k), self.where)
                else:
                    raise Unsupported('%s del on %s' % (self.where, type(o).__name__))
            else:
                raise Unsupported('%s del target' % self.where)

    def exec_Raise(self, st, env, module, func):
        if st.exc is None:
            raise PyRaise('Exception', 're-raise', self.where)
        v = self.eval(st.exc, env, module, func)
        if isinstance(v, ExcType):
            raise PyRaise(v.name, '', self.where)
        if isinstance(v, ExcValue):
            raise PyRaise(v.etype.name, str(v), self.where)
        if isinstance(v, Obj) and v.cls.is_exception:
            raise PyRaise(v.cls.name, '', self.where)
        if isinstance(v, Cls) and v.is_exception:
            raise PyRaise(v.name, '', self.where)
        raise PyRaise('TypeError', 'exceptions must derive from BaseException', self.where)

    def exec_Try(self, st, env, module, func):
        try:
            try:
                self.exec_block(st.body, env, module, func)
            except PyRaise as e:
                for h in st.handlers:
                    names = []
                    if h.type is None:
                        names = ['BaseException']
                    else:
                        t = self.eval(h.type, env, module, func)
                        ts = t if isinstance(t, tuple) else (t,)
                        for x in ts:
                            names.append(x.name if isinstance(x, (ExcType, Cls)) else 'Exception')
                    if any(exc_matches(e.etype, n) for n in names):
                        if h.name:
                            env[h.name] = ExcValue(ExcType(e.etype), (e.msg,))
                        self.exec_block(h.body, env, module, func)
                        break
                else:
                    raise
            else:
                self.exec_block(st.orelse, env, module, func)
        finally:
            if st.finalbody:
                self.exec_block(st.finalbody, env, module, func)

    def exec_With(self, st, env, module, func):
        mgrs = []
        for item in st.items:
            m = self.eval(item.context_expr, env, module, func)
            if isinstance(m, Opaque):
                raise Unsupported('%s with-statement on opaque %s' % (self.where, m.name))
            v = m.__enter__()
            if item.optional_vars is not None:
                self.assign(item.optional_vars, v, env, module, func)
            mgrs.append(m)
        try:
            self.exec_block(st.body, env, module, func)
        finally:
            for m in reversed(mgrs):
                m.__exit__(None, None, None)

    def exec_If(self, st, env, module, func):
        c = self.eval(st.test, env, module, func)
        if truth(c):
            self.exec_block(st.body, env, module, func)
        else:
            self.exec_block(st.orelse, env, module, func)

    def _loop_ordinal(self, st, func):
        if func is None:
            return None
        k = 0
        for n in ast.walk(func.node):
            if isinstance(n, (ast.While, ast.For)):
                if n is st:
                    return k
                k += 1
        return None

    def exec_While(self, st, env, module, func):
        spec = None
        if func is not None:
            spec = self.loop_specs.get((func.key, self._loop_ordinal(st, func)))
        if spec is not None:
            return self.exec_loop_with_spec(st, spec, env, module, func)
        n = 0
        while truth(self.eval(st.test, env, module, func)):
            n += 1
            if n > self.MAX_UNROLL:
                raise Unsupported('%s while loop without invariant exceeds unroll bound' % self.where)
            try:
                self.exec_block(st.body, env, module, func)
            except BreakEx:
                return
            except ContinueEx:
                continue
        self.exec_block(st.orelse, env, module, func)

    def exec_loop_with_spec(self, st, spec, env, module, func):
        """while loop with a sidecar invariant: prove on entry, havoc what the body may modify, assume the
        invariant, then (a) condition true: run the body once, prove the invariant (+ per-iteration
        obligations `body_post`) and end the path; (b) condition false: prove `exit_post`, continue."""
        c = CTX()
        where = self.where
        for name, t in spec.invariant(env, c):
            c.prove('%s/entry/%s' % (spec.name, name), t, kind='loop-invariant', where=where)
        if getattr(c, 'replay', False):
            # concrete replay: just run the loop
            n = 0
            while truth(self.eval(st.test, env, module, func)):
                n += 1
                if n > 100000:
                    raise Unsupported('replay loop too long')
                ghost = spec.ghost(env, c) if getattr(spec, 'ghost', None) else {}
                try:
                    self.exec_block(st.body, env, module, func)
                except BreakEx:
                    break
                except ContinueEx:
                    pass
                for name, t in spec.invariant(env, c):
                    c.prove('%s/preserved/%s' % (spec.name, name), t, kind='loop-invariant', where=where)
                if getattr(spec, 'body_post', None):
                    spec.body_post(env, c, ghost)
            if getattr(spec, 'exit_post', None):
                spec.exit_post(env, c)
            return
        spec.havoc(env, c)
        for name, t in spec.invariant(env, c):
            c.assume(t)
        ghost = spec.ghost(env, c) if getattr(spec, 'ghost', None) else {}
        if truth(self.eval(st.test, env, module, func)):
            try:
                self.exec_block(st.body, env, module, func)
            except BreakEx:
                return
            except ContinueEx:
                pass
            for name, t in spec.invariant(env, c):
                c.prove('%s/preserved/%s' % (spec.name, name), t, kind='loop-invariant', where=where)
            if getattr(spec, 'body_post', None):
                spec.body_post(env, c, ghost)
            raise PathEnd()
        if getattr(spec, 'exit_post', None):
            spec.exit_post(env, c)
        # loop exit: invariant and negated condition are in the path condition

    def exec_for_with_spec(self, st, spec, env, module, func):
        """`for i in range(n)` with symbolic n: the invariant holds before; one arbitrary iteration 0 <= i < n is
        executed from a havocked state satisfying the invariant (checks the body and that it re-establishes the
        invariant) on its own path; the code after the loop continues from a havocked state with the invariant."""
        c = CTX()
        where = self.where
        if not (isinstance(st.iter, ast.Call) and isinstance(st.iter.func, ast.Name) and st.iter.func.id == 'range' and len(st.iter.args) == 1):
            raise Unsupported('%s loop spec on a for loop that is not `for i in range(n)`' % where)
        n = self.eval(st.iter.args[0], env, module, func)
        for name, t in spec.invariant(env, c):
            c.prove('%s/entry/%s' % (spec.name, name), t, kind='loop-invariant', where=where)
        spec.havoc(env, c)
        for name, t in spec.invariant(env, c):
            c.assume(t)
        if truth(c.fresh('iterate', 'bool')):
            i = c.fresh('it', 'int')
            c.assume(i >= 0, sym.cmp('<', i, n))
            self.assign(st.target, i, env, module, func)
            ghost = spec.ghost(env, c) if getattr(spec, 'ghost', None) else {}
            try:
                self.exec_block(st.body, env, module, func)
            except (BreakEx, ContinueEx):
                pass
            for name, t in spec.invariant(env, c):
                c.prove('%s/preserved/%s' % (spec.name, name), t, kind='loop-invariant', where=where)
            if getattr(spec, 'body_post', None):
                spec.body_post(env, c, ghost)
            raise PathEnd()
        if getattr(spec, 'exit_post', None):
            spec.exit_post(env, c)

    def exec_For(self, st, env, module, func):
        spec = None
        if func is not None and self.loop_specs:
            spec = self.loop_specs.get((func.key, self._loop_ordinal(st, func)))
        if spec is not None and not getattr(CTX(), 'replay', False):
            return self.exec_for_with_spec(st, spec, env, module, func)
        it = self.eval(st.iter, env, module, func)
        items = self.iterate(it)
        n = 0
        for v in items:
            n += 1
            if n > self.MAX_UNROLL:
                raise Unsupported('%s for loop exceeds unroll bound' % self.where)
            self.assign(st.target, v, env, module, func)
            try:
                self.exec_block(st.body, env, module, func)
            except BreakEx:
                return
            except ContinueEx:
                continue
        self.exec_block(st.orelse, env, module, func)

    def iterate(self, it):
        if isinstance(it, (list, tuple, range, str, dict, set, frozenset)):
            return list(it)
        if isinstance(it, ArrBase):
            return list(iter(it))
        if isinstance(it, (SV, Fraction, int)) or it is None:
            raise PyRaise('TypeError', 'object is not iterable', self.where)
        if isinstance(it, Opaque):
            raise Unsupported('%s iteration over opaque %s' % (self.where, it.name))
        if isinstance(it, Masked):
            raise Unsupported('%s iteration over masked array' % self.where)
        if isinstance(it, Obj):
            raise Unsupported('%s iteration over object' % self.where)
        try:
            return list(it)
        except TypeError:
            raise PyRaise('TypeError', 'object is not iterable', self.where)

    def exec_Assign(self, st, env, module, func):
        v = self.eval(st.value, env, module, func)
        for t in st.targets:
            self.assign(t, v, env, module, func)

    def exec_AnnAssign(self, st, env, module, func):
        if st.value is not None:
            self.assign(st.target, self.eval(st.value, env, module, func), env, module, func)

    def exec_AugAssign(self, st, env, module, func):
        t = st.target
        opname = type(st.op).__name__
        if isinstance(t, ast.Name):
            cur = self.load_name(t.id, env, module, func)
            new = self.inplace(opname, cur, self.eval(st.value, env, module, func))
            env[t.id] = new
        elif isinstance(t, ast.Attribute):
            o = self.eval(t.value, env, module, func)
            cur = self.getattr(o, t.attr)
            new = self.inplace(opname, cur, self.eval(st.value, env, module, func))
            self.setattr(o, t.attr, new)
        elif isinstance(t, ast.Subscript):
            o = self.eval(t.value, env, module, func)
            k = self.eval_index(t.slice, env, module, func)
            cur = self.getitem(o, k)
            new = self.inplace(opname, cur, self.eval(st.value, env, module, func))
            self.setitem(o, k, new)
        else:
            raise Unsupported('%s augmented assignment target' % self.where)

    def inplace(self, opname, a, b):
        if isinstance(a, ArrBase):
            f = {'Add': sym.add, 'Sub': sym.sub, 'Mult': sym.mul, 'Div': sym.div, 'Pow': sym.power}.get(opname)
            if f is None:
                raise Unsupported('%s in-place %s on array' % (self.where, opname))
            if isinstance(b, Masked):
                raise Unsupported('%s array op= masked' % self.where)
            return a._inplace(f, b)
        if isinstance(a, list) and opname == 'Add':
            a.extend(self.iterate(b))
            return a
        return self.binop(opname, a, b)

    def assign(self, t, v, env, module, func):
        if isinstance(t, ast.Name):
            env[t.id] = v
        elif isinstance(t, ast.Attribute):
            self.setattr(self.eval(t.value, env, module, func), t.attr, v)
        elif isinstance(t, ast.Subscript):
            o = self.eval(t.value, env, module, func)
            self.setitem(o, self.eval_index(t.slice, env, module, func), v)
        elif isinstance(t, (ast.Tuple, ast.List)):
            vals = self.iterate(v)
            star = [i for i, e in enumerate(t.elts) if isinstance(e, ast.Starred)]
            if star:
                k = star[0]
                after = len(t.elts) - k - 1
                if len(vals) < len(t.elts) - 1:
                    raise PyRaise('ValueError', 'not enough values to unpack', self.where)
                for e, x in zip(t.elts[:k], vals[:k]):
                    self.assign(e, x, env, module, func)
                self.assign(t.elts[k].value, list(vals[k:len(vals) - after]), env, module, func)
                for e, x in zip(t.elts[k + 1:], vals[len(vals) - after:]):
                    self.assign(e, x, env, module, func)
                return
            if len(vals) != len(t.elts):
                raise PyRaise('ValueError', 'unpack: expected %d values, got %d' % (len(t.elts), len(vals)), self.where)
            for e, x in zip(t.elts, vals):
                self.assign(e, x, env, module, func)
        else:
            raise Unsupported('%s assignment target %s' % (self.where, type(t).__name__))

    # ------------------------------------------------------------------ attribute / item protocol
    def getattr(self, o, name):
        if isinstance(o, Obj):
            if name in o.fields:
                c = sym._CTX[0]
                if c is not None:
                    c.reads.add((id(o), name))
                return o.fields[name]
            a, owner = o.cls.lookup(name)
            if a is None and owner is None:
                if name == '__class__':
                    return o.cls
                if name == '__dict__':
                    return o.fields
                if getattr(o, '_schema', False) and not name.startswith('__') and o.cls.assigns_attr(name):
                    # the object state was built from a class-invariant schema that does not know this field:
                    # the contract needs extending; this is not evidence of a defect ("needs contract")
                    raise SchemaGap('%s field %s.%s is read but is not part of the class-invariant schema' % (self.where, o.cls.name, name))
                raise PyRaise('AttributeError', "'%s' object has no attribute '%s'" % (o.cls.name, name), self.where)
            if isinstance(a, Func):
                return BoundMethod(a, o)
            if isinstance(a, Prop):
                return self.call_func(a.fget, [o], {})
            if isinstance(a, StaticM):
                return a.f
            if isinstance(a, ClassM):
                return BoundMethod(a.f, o.cls)
            return a
        if isinstance(o, Cls):
            a, owner = o.lookup(name)
            if a is None and owner is None:
                if name == '__name__':
                    return o.name
                raise PyRaise('AttributeError', "type object '%s' has no attribute '%s'" % (o.name, name), self.where)
            if isinstance(a, StaticM):
                return a.f
            if isinstance(a, ClassM):
                return BoundMethod(a.f, o)
            return a
        if isinstance(o, Module):
            if name in o.env:
                return o.env[name]
            sub = self.relpath_of(o.name + '.' + name)
            if sub:
                return self.load(o.name + '.' + name)
            raise PyRaise('AttributeError', 'module %s has no attribute %s' % (o.name, name), self.where)
        if isinstance(o, ArrBase):
            if name == 'shape':
                return o.shape
            if name in ('T', 'ndim', 'size', 'dtype'):
                return getattr(o, name)
            if name in ('copy', 'flatten', 'ravel', 'reshape', 'squeeze', 'astype', 'any', 'all', 'sum', 'tolist', 'item', 'fill', 'transpose'):
                return getattr(o, name)
            if name in ('max', 'min'):
                return lambda axis=None: NP._minmax(o, axis, name)
            raise Unsupported('%s ndarray.%s' % (self.where, name))
        if isinstance(o, EnumMember):
            if name in ('name', 'value'):
                return getattr(o, name)
            raise PyRaise('AttributeError', name, self.where)
        if isinstance(o, (SV, Fraction, int)) and not isinstance(o, bool):
            if name == 'shape':
                return ()
            if name == 'real':
                return o
            raise PyRaise('AttributeError', "'float' object has no attribute '%s'" % name, self.where)
        if o is None:
            raise PyRaise('AttributeError', "'NoneType' object has no attribute '%s'" % name, self.where)
        if isinstance(o, SuperProxy):
            return o.lookup(name)
        if isinstance(o, FuncNS):
            return o.get(name)
        try:
            return getattr(o, name)
        except AttributeError:
            raise PyRaise('AttributeError', "'%s' object has no attribute '%s'" % (type(o).__name__, name), self.where)

    def setattr(self, o, name, v):
        if isinstance(o, Obj):
            a, _ = o.cls.lookup(name)
            if isinstance(a, Prop):
                if a.fset is None:
                    raise PyRaise('AttributeError', "can't set attribute '%s'" % name, self.where)
                self.call_func(a.fset, [o, v], {})
                return
            o.fields[name] = v
            return
        if isinstance(o, Cls):
            o.attrs[name] = v
            return
        if isinstance(o, (ArrBase, SV, Fraction, int, str, tuple, list, dict)) or o is None:
            raise PyRaise('AttributeError', "'%s' object has no attribute '%s'" % (type(o).__name__, name), self.where)
        if isinstance(o, Opaque):
            o.__dict__[name] = v
            return
        setattr(o, name, v)

    def getitem(self, o, k):
        if isinstance(o, ArrBase):
            return arr.getitem(o, k)
        if isinstance(o, Masked):
            raise Unsupported('%s subscript of masked array' % self.where)
        if isinstance(o, (list, tuple, str)):
            if isinstance(k, slice):
                return o[slice(cidx(k.start), cidx(k.stop), cidx(k.step))]
            k = sym._generic(k)
            if isinstance(k, SV):
                n = len(o)
                j = arr.norm_index(k, n)
                return arr.select(list(o), j)
            if isinstance(k, Fraction) and k.denominator == 1:
                k = int(k)
            if isinstance(k, ArrBase) and k.ndim == 0:
                k = k.get()
            try:
                return o[k]
            except IndexError:
                raise PyRaise('IndexError', 'list index out of range', self.where)
            except TypeError as e:
                raise PyRaise('TypeError', str(e), self.where)
        if isinstance(o, dict):
            try:
                return o[k]
            except KeyError:
                raise PyRaise('KeyError', repr(k), self.where)
            except PyRaise as e:
                e.where = e.where or self.where
                raise
            except TypeError as e:
                raise PyRaise('TypeError', str(e), self.where)
        if isinstance(o, Obj):
            f, _ = o.cls.lookup('__getitem__')
            if f is not None:
                return self.call_func(f, [o, k], {})
        if o is None or isinstance(o, (SV, Fraction, int)):
            raise PyRaise('TypeError', "'%s' object is not subscriptable" % type(o).__name__, self.where)
        if isinstance(o, Opaque):
            raise Unsupported('%s subscript of opaque %s' % (self.where, o.name))
        try:
            return o[k]
        except (KeyError, IndexError) as e:
            raise PyRaise(type(e).__name__, str(e), self.where)

    def setitem(self, o, k, v):
        if isinstance(o, ArrBase):
            return arr.setitem(o, k, v)
        if isinstance(o, list):
            if isinstance(k, slice):
                o[slice(cidx(k.start), cidx(k.stop), cidx(k.step))] = self.iterate(v)
                return
            k = sym._generic(k)
            if isinstance(k, SV):
                raise Unsupported('%s list store at symbolic index' % self.where)
            try:
                o[int(k)] = v
            except IndexError:
                raise PyRaise('IndexError', 'list assignment index out of range', self.where)
            return
        if isinstance(o, dict):
            o[k] = v
            return
        if isinstance(o, Masked):
            raise Unsupported('%s store into masked copy' % self.where)
        if isinstance(o, tuple):
            raise PyRaise('TypeError', "'tuple' object does not support item assignment", self.where)
        if isinstance(o, Obj):
            f, _ = o.cls.lookup('__setitem__')
            if f is not None:
                return self.call_func(f, [o, k, v], {})
        if o is None or isinstance(o, (SV, Fraction, int)):
            raise PyRaise('TypeError', "'%s' object does not support item assignment" % type(o).__name__, self.where)
        raise Unsupported('%s item store on %s' % (self.where, type(o).__name__))

    # ------------------------------------------------------------------ expressions
    def eval(self, e, env, module, func):
        m = getattr(self, 'eval_' + type(e).__name__, None)
        if m is None:
            raise Unsupported('%s expression %s' % (self.where, type(e).__name__))
        return m(e, env, module, func)

    def eval_Constant(self, e, env, module, func):
        v = e.value
        if isinstance(v, float):
            # literal text -> exact rational (mathematical real)
            return sym.to_frac(v)
        if isinstance(v, complex):
            raise Unsupported('%s complex constant' % self.where)
        return v

    def load_name(self, name, env, module, func):
        if name in env:
            return env[name]
        if func is not None and isinstance(env, dict) and name in func.local_names() and env is self._frame_env(func):
            raise PyRaise('UnboundLocalError', "cannot access local variable '%s' where it is not associated with a value" % name, self.where)
        f = func
        while f is not None and f.closure is not None:
            if name in f.closure:
                return f.closure[name]
            f = getattr(f, 'parent', None)
        e2 = env
        while isinstance(e2, _ChainEnv):
            e2 = e2.outer
            if name in e2:
                return e2[name]
        if name in module.env:
            return module.env[name]
        if name in self.builtins:
            return self.builtins[name]
        raise PyRaise('NameError', "name '%s' is not defined" % name, self.where)

    def _frame_env(self, func):
        for fr in reversed(self.frames):
            if fr[0] is func:
                return fr[1]
        return None

    def eval_Name(self, e, env, module, func):
        return self.load_name(e.id, env, module, func)

    def eval_Attribute(self, e, env, module, func):
        return self.getattr(self.eval(e.value, env, module, func), e.attr)

    def eval_index(self, s, env, module, func):
        if isinstance(s, ast.Slice):
            return slice(None if s.lower is None else self.eval(s.lower, env, module, func),
                         None if s.upper is None else self.eval(s.upper, env, module, func),
                         None if s.step is None else self.eval(s.step, env, module, func))
        if isinstance(s, ast.Tuple):
            return tuple(self.eval_index(x, env, module, func) for x in s.elts)
        return self.eval(s, env, module, func)

    def eval_Slice(self, e, env, module, func):
        return self.eval_index(e, env, module, func)

    def eval_Subscript(self, e, env, module, func):
        return self.getitem(self.eval(e.value, env, module, func), self.eval_index(e.slice, env, module, func))

    def eval_Tuple(self, e, env, module, func):
        return tuple(self._elts(e.elts, env, module, func))

    def eval_List(self, e, env, module, func):
        return list(self._elts(e.elts, env, module, func))

    def eval_Set(self, e, env, module, func):
        return set(self._elts(e.elts, env, module, func))

    def _elts(self, elts, env, module, func):
        out = []
        for x in elts:
            if isinstance(x, ast.Starred):
                out.extend(self.iterate(self.eval(x.value, env, module, func)))
            else:
                out.append(self.eval(x, env, module, func))
        return out

    def eval_Dict(self, e, env, module, func):
        d = SymDict()
        for k, v in zip(e.keys, e.values):
            if k is None:
                d.update(self.eval(v, env, module, func))
            else:
                d[self.eval(k, env, module, func)] = self.eval(v, env, module, func)
        return d

    def eval_JoinedStr(self, e, env, module, func):
        out = []
        for v in e.values:
            if isinstance(v, ast.Constant):
                out.append(str(v.value))
            else:
                out.append('{}')
        return ''.join(out)

    def eval_FormattedValue(self, e, env, module, func):
        return '{}'

    def eval_IfExp(self, e, env, module, func):
        c = self.eval(e.test, env, module, func)
        c = sym._generic(c)
        if isinstance(c, SV):
            # scalar alternatives without side effects are merged into an ite term (no fork)
            try:
                if _pure_scalar_expr(e.body) and _pure_scalar_expr(e.orelse):
                    a = self.eval(e.body, env, module, func)
                    b = self.eval(e.orelse, env, module, func)
                    if _is_scalar(a) and _is_scalar(b):
                        return sym.ite(c, a, b)
                    return a if truth(c) else b
            except PyRaise:
                pass
        if truth(c):
            return self.eval(e.body, env, module, func)
        return self.eval(e.orelse, env, module, func)

    def eval_Lambda(self, e, env, module, func):
        f = Func(self, e, module, env, (func.qualname + '.' if func else '') + '<lambda>', None)
        f.parent = func
        self.bind_defaults(f, e.args, env, module, func)
        return f

    def eval_BoolOp(self, e, env, module, func):
        if isinstance(e.op, ast.And):
            v = True
            for x in e.values:
                v = self.eval(x, env, module, func)
                if not truth(v):
                    return v
            return v
        v = False
        for x in e.values:
            v = self.eval(x, env, module, func)
            if truth(v):
                return v
        return v

    def eval_UnaryOp(self, e, env, module, func):
        v = self.eval(e.operand, env, module, func)
        if isinstance(e.op, ast.Not):
            if isinstance(v, SV):
                return sym.not_(v)
            return not truth(v)
        if isinstance(e.op, ast.USub):
            if isinstance(v, (ArrBase, Masked)):
                return -v
            if v is None or isinstance(v, (str, list, dict, tuple)):
                raise PyRaise('TypeError', "bad operand type for unary -: '%s'" % type(v).__name__, self.where)
            return sym.sub(0, v)
        if isinstance(e.op, ast.UAdd):
            return v
        if isinstance(e.op, ast.Invert):
            if isinstance(v, (ArrBase, SV)):
                return ~v
            if isinstance(v, bool):
                return not v
            return ~v
        raise Unsupported('%s unary op' % self.where)

    def eval_BinOp(self, e, env, module, func):
        a = self.eval(e.left, env, module, func)
        b = self.eval(e.right, env, module, func)
        return self.binop(type(e.op).__name__, a, b)

    def binop(self, opname, a, b):
        a, b = sym._generic(a), sym._generic(b)
        sc_a, sc_b = _is_scalar(a), _is_scalar(b)
        if isinstance(a, sym.FPV) or isinstance(b, sym.FPV):
            if opname in ('Add', 'Sub', 'Mult', 'Div') and sc_a and sc_b:
                return _PY_OPS[opname](a, b)
            raise Unsupported('%s operator %s in FP64 mode' % (self.where, opname))
        if sc_a and sc_b:
            f = _SCALAR_OPS.get(opname)
            if f is None:
                if opname in ('BitAnd', 'BitOr', 'BitXor') and not isinstance(a, SV) and not isinstance(b, SV):
                    return {'BitAnd': operator.and_, 'BitOr': operator.or_, 'BitXor': operator.xor}[opname](a, b)
                raise Unsupported('%s operator %s' % (self.where, opname))
            return f(a, b)
        if isinstance(a, (ArrBase, Masked)) or isinstance(b, (ArrBase, Masked)):
            if a is None or b is None:
                raise PyRaise('TypeError', 'unsupported operand NoneType and array', self.where)
            if isinstance(a, (list, tuple)):
                a = to_arr(a)
            if isinstance(b, (list, tuple)):
                b = to_arr(b)
            if opname == 'MatMult':
                return NP.matmul(a, b)
            f = _PY_OPS.get(opname)
            if f is None:
                raise Unsupported('%s operator %s on arrays' % (self.where, opname))
            r = f(a, b)
            if r is NotImplemented:
                raise PyRaise('TypeError', 'unsupported operand types for array op', self.where)
            return r
        if a is None or b is None:
            raise PyRaise('TypeError', "unsupported operand type(s) for %s: '%s' and '%s'" % (opname, type(a).__name__, type(b).__name__), self.where)
        if isinstance(a, (list, tuple, str)) or isinstance(b, (list, tuple, str)):
            if opname == 'Mod' and isinstance(a, str):
                return a
            if opname == 'Mult':
                if sc_b:
                    b = cidx(b)
                if sc_a:
                    a = cidx(a)
            try:
                return _PY_OPS[opname](a, b)
            except TypeError as ex:
                raise PyRaise('TypeError', str(ex), self.where)
        if isinstance(a, Obj) or isinstance(b, Obj):
            raise Unsupported('%s operator on objects' % self.where)
        if isinstance(a, (set, frozenset)) and isinstance(b, (set, frozenset)):
            return _PY_OPS[opname](a, b)
        if isinstance(a, dict) and isinstance(b, dict) and opname == 'BitOr':
            d = dict(a)
            d.update(b)
            return d
        if not isinstance(a, (Func, BoundMethod, Cls, Module)) and not isinstance(b, (Func, BoundMethod, Cls, Module)):
            # host objects supplied by contracts (opaque state/derivative tokens) define their own algebra
            try:
                r = _PY_OPS[opname](a, b)
                if r is not NotImplemented:
                    return r
            except TypeError:
                pass
        raise PyRaise('TypeError', "unsupported operand type(s) for %s: '%s' and '%s'" % (opname, type(a).__name__, type(b).__name__), self.where)

    def eval_Compare(self, e, env, module, func):
        left = self.eval(e.left, env, module, func)
        result = True
        for op, rhs in zip(e.ops, e.comparators):
            right = self.eval(rhs, env, module, func)
            r = self.compare(type(op).__name__, left, right)
            if len(e.ops) == 1:
                return r
            result = sym.and_(result, r) if _is_scalar(r) and _is_scalar(result) else (r if truth(result) else result)
            if is_conc(result) and not result:
                return False
            left = right
        return result

    def compare(self, op, a, b):
        a, b = sym._generic(a), sym._generic(b)
        if op == 'Is':
            return _identical(a, b)
        if op == 'IsNot':
            return not _identical(a, b)
        if op in ('In', 'NotIn'):
            r = self.contains(b, a)
            return r if op == 'In' else (sym.not_(r) if isinstance(r, SV) else not r)
        sop = {'Lt': '<', 'LtE': '<=', 'Gt': '>', 'GtE': '>=', 'Eq': '==', 'NotEq': '!='}[op]
        if isinstance(a, (ArrBase, Masked)) or isinstance(b, (ArrBase, Masked)):
            if (a is None or b is None) and sop in ('==', '!='):
                return sop == '!='
            return _PY_CMP[sop](a, b)
        if isinstance(a, sym.FPV) or isinstance(b, sym.FPV):
            if _is_scalar(a) and _is_scalar(b):
                return _PY_CMP[sop](sym.FPV.of(a), sym.FPV.of(b))
        if _is_scalar(a) and _is_scalar(b):
            return sym.cmp(sop, a, b)
        if sop in ('==', '!='):
            if isinstance(a, (list, tuple)) and isinstance(b, (list, tuple)) and type(a) == type(b):
                if len(a) != len(b):
                    return sop == '!='
                r = sym.and_(*[self.compare('Eq', x, y) for x, y in zip(a, b)]) if len(a) else True
                return r if sop == '==' else sym.not_(r)
            if isinstance(a, EnumMember) or isinstance(b, EnumMember) or isinstance(a, (Obj, Cls, Func)) or isinstance(b, (Obj, Cls, Func)):
                same = a is b
                return same if sop == '==' else not same
            try:
                r = (a == b)
            except Exception:
                r = False
            r = bool(r)
            return r if sop == '==' else not r
        if a is None or b is None:
            raise PyRaise('TypeError', "'%s' not supported between instances of '%s' and '%s'" % (sop, type(a).__name__, type(b).__name__), self.where)
        try:
            return _PY_CMP[sop](a, b)
        except TypeError as ex:
            raise PyRaise('TypeError', str(ex), self.where)

    def contains(self, container, x):
        if isinstance(container, dict):
            try:
                return x in container
            except TypeError:
                raise PyRaise('TypeError', 'unhashable', self.where)
        if isinstance(container, (list, tuple, set, frozenset)):
            r = False
            for y in container:
                r = sym.or_(r, self.compare('Eq', x, y)) if _is_scalar(self.compare('Eq', x, y)) else r
                if is_conc(r) and r:
                    return True
            return r
        if isinstance(container, str):
            return x in container
        if isinstance(container, ArrBase):
            return NP.any(container == x)
        if isinstance(container, range):
            return x in container
        if isinstance(container, type({}.keys())) or isinstance(container, type({}.values())):
            return x in container
        raise PyRaise('TypeError', "argument of type '%s' is not iterable" % type(container).__name__, self.where)

    def _comp(self, gens, env, module, func, emit):
        def rec(k, scope):
            if k == len(gens):
                emit(scope)
                return
            g = gens[k]
            for v in self.iterate(self.eval(g.iter, scope, module, func)):
                s2 = _ChainEnv({}, scope)
                self.assign(g.target, v, s2, module, func)
                if all(truth(self.eval(c, s2, module, func)) for c in g.ifs):
                    rec(k + 1, s2)
        rec(0, _ChainEnv({}, env))

    def eval_ListComp(self, e, env, module, func):
        out = []
        self._comp(e.generators, env, module, func, lambda s: out.append(self.eval(e.elt, s, module, func)))
        return out

    def eval_GeneratorExp(self, e, env, module, func):
        return self.eval_ListComp(e, env, module, func)

    def eval_SetComp(self, e, env, module, func):
        return set(self.eval_ListComp(e, env, module, func))

    def eval_DictComp(self, e, env, module, func):
        out = {}

        def emit(s):
            out[self.eval(e.key, s, module, func)] = self.eval(e.value, s, module, func)
        self._comp(e.generators, env, module, func, emit)
        return out

    def eval_Starred(self, e, env, module, func):
        raise Unsupported('%s starred expression outside call/sequence' % self.where)

    def eval_Call(self, e, env, module, func):
        # dropped calls: print, plotting
        if isinstance(e.func, ast.Name) and e.func.id == 'print':
            return None
        if isinstance(e.func, ast.Name) and e.func.id == 'super' and not e.args:
            f = None
        fv = self.eval(e.func, env, module, func) if not (isinstance(e.func, ast.Name) and e.func.id == 'super') else 'SUPER'
        args = []
        for a in e.args:
            if isinstance(a, ast.Starred):
                args.extend(self.iterate(self.eval(a.value, env, module, func)))
            else:
                args.append(self.eval(a, env, module, func))
        kwargs = {}
        for k in e.keywords:
            if k.arg is None:
                d = self.eval(k.value, env, module, func)
                if not isinstance(d, dict):
                    raise PyRaise('TypeError', 'argument after ** must be a mapping', self.where)
                kwargs.update(d)
            else:
                kwargs[k.arg] = self.eval(k.value, env, module, func)
        if fv == 'SUPER':
            return self.make_super(args, env, func)
        where = self.where
        try:
            return self.call(fv, args, kwargs)
        finally:
            self.where = where

    def make_super(self, args, env, func):
        if args:
            cls, obj = args[0], args[1]
        else:
            f = func
            while f is not None and f.owner is None:
                f = getattr(f, 'parent', None)
            if f is None:
                raise Unsupported('%s super() outside method' % self.where)
            cls = f.owner
            fr_env = self._frame_env(f)
            first = f.node.args.args[0].arg
            obj = fr_env[first]
        return SuperProxy(self, cls, obj)

    def call(self, fv, args, kwargs):
        if isinstance(fv, Func):
            return self.call_func(fv, args, kwargs)
        if isinstance(fv, BoundMethod):
            return self.call_func(fv.func, [fv.obj] + list(args), kwargs)
        if isinstance(fv, (Cls,)):
            return fv(*args, **kwargs)
        if isinstance(fv, Obj):
            return fv(*args, **kwargs)
        if isinstance(fv, Opaque):
            return fv(*args, **kwargs)
        if fv is None or isinstance(fv, (SV, Fraction, int, str, list, dict, tuple, ArrBase)):
            raise PyRaise('TypeError', "'%s' object is not callable" % type(fv).__name__, self.where)
        try:
            return fv(*args, **kwargs)
        except TypeError as ex:
            import traceback
            tb = traceback.extract_tb(ex.__traceback__)
            if len(tb) <= 1:
                owner = getattr(fv, '__self__', None)
                modname = (type(owner).__module__ if owner is not None else getattr(fv, '__module__', '')) or ''
                if modname.startswith('kvc.'):
                    # a call form the engine's own model of numpy / the standard library does not cover: NOT an error of the program under verification
                    raise Unsupported('%s call form not modelled: %s' % (self.where, ex))
                raise PyRaise('TypeError', str(ex), self.where)
            raise

    def call_func(self, f, args, kwargs):
        if f.key in self.summaries and not getattr(f, '_no_summary', False):
            r = self.summaries[f.key](self, f, args, kwargs)
            if r is not NotImplemented:
                return r
        if self.call_log is not None:
            self.call_log.append((f.key, args, kwargs))
        node = f.node
        a = node.args
        env = {}
        params = [p.arg for p in a.posonlyargs + a.args]
        nd = len(f.defaults or [])
        args = list(args)
        kwargs = dict(kwargs)
        if len(args) > len(params) and a.vararg is None:
            raise PyRaise('TypeError', '%s() takes %d positional arguments but %d were given' % (f.name, len(params), len(args)), self.where)
        for i, p in enumerate(params):
            if i < len(args):
                if p in kwargs:
                    raise PyRaise('TypeError', "%s() got multiple values for argument '%s'" % (f.name, p), self.where)
                env[p] = args[i]
            elif p in kwargs:
                env[p] = kwargs.pop(p)
            else:
                di = i - (len(params) - nd)
                if di >= 0:
                    env[p] = f.defaults[di]
                else:
                    raise PyRaise('TypeError', "%s() missing required positional argument: '%s'" % (f.name, p), self.where)
        if a.vararg is not None:
            env[a.vararg.arg] = tuple(args[len(params):])
        for p, d in zip(a.kwonlyargs, f.kw_defaults or []):
            if p.arg in kwargs:
                env[p.arg] = kwargs.pop(p.arg)
            elif d is not None or True:
                env[p.arg] = d
        if a.kwarg is not None:
            env[a.kwarg.arg] = kwargs
        elif kwargs:
            raise PyRaise('TypeError', "%s() got an unexpected keyword argument '%s'" % (f.name, list(kwargs)[0]), self.where)
        self.depth += 1
        if self.depth > self.MAX_DEPTH:
            raise Unsupported('%s call depth exceeded (recursion?)' % self.where)
        self.frames.append((f, env))
        try:
            if isinstance(node, ast.Lambda):
                return self.eval(node.body, env, f.module, f)
            try:
                self.exec_block(node.body, env, f.module, f)
            except ReturnEx as r:
                return r.v
            return None
        finally:
            self.frames.pop()
            self.depth -= 1


class HashKey(object):
    """result of hash(tuple of scalars): two keys are equal iff the tuples are equal component-wise (the builtin hash is
    assumed injective on the integer tuples that occur: stated assumption of C09)"""
    def __init__(self, items):
        self.items = tuple(items)

    def equals(self, o):
        if not isinstance(o, HashKey) or len(o.items) != len(self.items):
            return False
        return sym.and_(*[sym.cmp('==', a, b) for a, b in zip(self.items, o.items)]) if self.items else True

    __hash__ = object.__hash__


class SymDict(dict):
    """dict that also accepts symbolic keys (HashKey): lookups compare keys symbolically, newest entry first"""
    def __init__(self, *a, **k):
        dict.__init__(self, *a, **k)
        self.sym = []

    def __setitem__(self, k, v):
        if isinstance(k, HashKey):
            self.sym.append((k, v))
        else:
            dict.__setitem__(self, k, v)

    def _find(self, k):
        for kk, v in reversed(self.sym):
            if truth(k.equals(kk)):
                return True, v
        return False, None

    def __getitem__(self, k):
        if isinstance(k, HashKey):
            ok, v = self._find(k)
            if ok:
                return v
            raise KeyError('hash key')
        return dict.__getitem__(self, k)

    def get(self, k, d=None):
        if isinstance(k, HashKey):
            ok, v = self._find(k)
            return v if ok else d
        return dict.get(self, k, d)

    def __contains__(self, k):
        if isinstance(k, HashKey):
            return self._find(k)[0]
        return dict.__contains__(self, k)

    def __len__(self):
        return dict.__len__(self) + len(self.sym)


class SuperProxy(object):
    def __init__(self, interp, cls, obj):
        self.interp, self.cls, self.obj = interp, cls, obj

    def __getattr__(self, name):
        if name in ('interp', 'cls', 'obj'):
            raise AttributeError(name)
        return self.lookup(name)

    def lookup(self, name):
        start = self.obj.cls if isinstance(self.obj, Obj) else self.obj
        mro = start.mro()
        k = mro.index(self.cls)
        for c in mro[k + 1:]:
            if name in c.attrs:
                a = c.attrs[name]
                if isinstance(a, Func):
                    return BoundMethod(a, self.obj)
                if isinstance(a, Prop):
                    return self.interp.call_func(a.fget, [self.obj], {})
                return a
        if name == '__init__':
            return lambda *a, **k: None
        raise PyRaise('AttributeError', "'super' object has no attribute '%s'" % name, self.interp.where)


class FuncNS(object):
    pass


class _ChainEnv(dict):
    """scope for comprehensions / class bodies: reads fall through to the outer scope"""
    def __init__(self, d, outer):
        dict.__init__(self, d)
        self.outer = outer

    def __contains__(self, k):
        return dict.__contains__(self, k) or k in self.outer

    def __getitem__(self, k):
        if dict.__contains__(self, k):
            return dict.__getitem__(self, k)
        return self.outer[k]

    def get(self, k, d=None):
        return self[k] if k in self else d


class EnumModule(object):
    Enum = ENUM_BASE
    IntEnum = ENUM_BASE

    def auto(self):
        return object()


class MathModel(object):
    @property
    def pi(self):
        return arr.pi_const()

    def sqrt(self, x): return sym.sqrt(x)
    def exp(self, x): return sym.exp(x)
    def log(self, x): return sym.log(x)
    def fabs(self, x): return sym.absv(x)
    def isnan(self, x): return False
    def isinf(self, x): return False
    def isfinite(self, x): return True
    def floor(self, x): return sym.trunc_int(x) if not isinstance(x, SV) else SV(z3.ToInt(sym.zterm(x, True)))
    def ceil(self, x):
        if isinstance(x, SV):
            return SV(-z3.ToInt(-sym.zterm(x, True)))
        import math
        return math.ceil(x)


class WarningsModel(object):
    def warn(self, *a, **k):
        return None


def cidx(v):
    v = sym._generic(v)
    if v is None:
        return None
    if isinstance(v, Fraction):
        if v.denominator != 1:
            raise PyRaise('TypeError', 'non-integer used as index/size')
        return int(v)
    if isinstance(v, SV):
        raise Unsupported('symbolic value where a concrete integer is needed: %s' % v.t)
    return v


def truth(v):
    v = sym._generic(v)
    if isinstance(v, SV):
        return bool(v)
    if isinstance(v, ArrBase):
        return bool(v)
    if isinstance(v, Masked):
        raise PyRaise('ValueError', 'truth value of masked array')
    if isinstance(v, Opaque):
        raise Unsupported('truth value of opaque %s' % v.name)
    if isinstance(v, Obj):
        f, _ = v.cls.lookup('__len__')
        if f is not None:
            return truth(v.cls.interp.call_func(f, [v], {}))
        return True
    return bool(v)


def _is_scalar(x):
    return isinstance(x, (SV, Fraction, int, float, bool, sym.FPV, sym.Inf)) and not isinstance(x, (ArrBase,))


def _identical(a, b):
    if a is None or b is None:
        return a is b
    if isinstance(a, bool) or isinstance(b, bool):
        return a is b
    if isinstance(a, (int, Fraction)) and isinstance(b, (int, Fraction)):
        return a == b
    if isinstance(a, str) and isinstance(b, str):
        return a == b
    return a is b


def _pure_scalar_expr(e):
    """expression that cannot have side effects and cannot raise in the modelled semantics"""
    for n in ast.walk(e):
        if isinstance(n, (ast.Call, ast.Subscript, ast.Lambda, ast.ListComp, ast.Await, ast.Yield, ast.NamedExpr)):
            return False
        if isinstance(n, ast.BinOp) and isinstance(n.op, (ast.Div, ast.FloorDiv, ast.Mod, ast.Pow)):
            return False
    return True


_SCALAR_OPS = {'Add': sym.add, 'Sub': sym.sub, 'Mult': sym.mul, 'Div': sym.div, 'FloorDiv': sym.floordiv,
               'Mod': sym.mod, 'Pow': sym.power}
_PY_OPS = {'Add': operator.add, 'Sub': operator.sub, 'Mult': operator.mul, 'Div': operator.truediv,
           'FloorDiv': operator.floordiv, 'Mod': operator.mod, 'Pow': operator.pow, 'BitAnd': operator.and_,
           'BitOr': operator.or_, 'BitXor': operator.xor, 'MatMult': operator.matmul}
_PY_CMP = {'<': operator.lt, '<=': operator.le, '>': operator.gt, '>=': operator.ge, '==': operator.eq, '!=': operator.ne}


def make_builtins(interp):
    b = {}
    for n in _EXC_NAMES:
        b[n] = ExcType(n)

    def _len(x):
        if isinstance(x, (ArrBase, Masked)):
            return x.sym_len()
        if isinstance(x, Obj):
            f, _ = x.cls.lookup('__len__')
            if f is None:
                raise PyRaise('TypeError', "object of type '%s' has no len()" % x.cls.name, interp.where)
            return interp.call_func(f, [x], {})
        if x is None or isinstance(x, (SV, Fraction, int)):
            raise PyRaise('TypeError', "object of type '%s' has no len()" % type(x).__name__, interp.where)
        return len(x)

    def _range(*a):
        return range(*[cidx(v) for v in a])

    def _int(x=0, base=None):
        if isinstance(x, str):
            return int(x)
        if isinstance(x, ArrBase):
            if x.ndim == 0 or (all(arr.dim_conc(d) for d in x.shape) and x.size == 1):
                x = x.get(*([0] * x.ndim))
            else:
                raise PyRaise('TypeError', 'only length-1 arrays can be converted to Python scalars', interp.where)
        return sym.trunc_int(x)

    def _float(x=0):
        if isinstance(x, str):
            return sym.to_frac(float(x))
        if isinstance(x, ArrBase):
            if x.ndim == 0 or (all(arr.dim_conc(d) for d in x.shape) and x.size == 1):
                x = x.get(*([0] * x.ndim))
            else:
                raise PyRaise('TypeError', 'only length-1 arrays can be converted to Python scalars', interp.where)
        if x is None:
            raise PyRaise('TypeError', "float() argument must be a string or a real number, not 'NoneType'", interp.where)
        return sym.to_real(x)

    def _abs(x):
        if isinstance(x, (ArrBase, Masked)):
            return abs(x)
        return sym.absv(x)

    def _minmax(op):
        def f(*a, **kw):
            key = kw.get('key')
            if len(a) == 1:
                items = interp.iterate(a[0])
            else:
                items = list(a)
            if not items:
                if 'default' in kw:
                    return kw['default']
                raise PyRaise('ValueError', 'min()/max() arg is an empty sequence', interp.where)
            if key is None and any(isinstance(i, sym.FPV) for i in items):
                # IEEE doubles: python's min/max keep the first argument unless a later one compares strictly smaller/larger
                r = items[0]
                for x in items[1:]:
                    x = sym.FPV.of(x)
                    r = sym.fp_ite((x < r) if op is sym.vmin else (x > r), x, sym.FPV.of(r))
                return r
            if key is not None or not all(_is_scalar(sym._generic(i)) for i in items):
                return (max if op is sym.vmax else min)(items, key=key) if key else (max if op is sym.vmax else min)(items)
            r = items[0]
            for x in items[1:]:
                r = op(r, x)
            return r
        return f

    def _sum(it, start=0):
        r = start
        for x in interp.iterate(it):
            r = interp.binop('Add', r, x)
        return r

    def _any(it):
        if isinstance(it, ArrBase):
            return NP.any(it)
        r = False
        for x in interp.iterate(it):
            r = sym.or_(r, x) if _is_scalar(sym._generic(x)) else (r or truth(x))
            if is_conc(r) and r:
                return True
        return r

    def _all(it):
        if isinstance(it, ArrBase):
            return NP.all(it)
        r = True
        for x in interp.iterate(it):
            r = sym.and_(r, x) if _is_scalar(sym._generic(x)) else (r and truth(x))
            if is_conc(r) and not r:
                return False
        return r

    def _isinstance(x, t):
        ts = t if isinstance(t, tuple) else (t,)
        for tt in ts:
            if isinstance(tt, Cls):
                if isinstance(x, Obj) and x.cls.issub(tt):
                    return True
                if isinstance(x, EnumMember) and x.cls is tt:
                    return True
                continue
            if tt is float or tt == 'float64':
                if isinstance(x, Fraction) or (isinstance(x, SV) and not x.is_int and not x.is_bool):
                    return True
                continue
            if tt is int:
                if (isinstance(x, int) and not isinstance(x, bool)) or (isinstance(x, SV) and x.is_int):
                    return True
                continue
            if tt is bool:
                if isinstance(x, bool) or (isinstance(x, SV) and x.is_bool):
                    return True
                continue
            if tt is ArrBase:
                if isinstance(x, ArrBase):
                    return True
                continue
            if isinstance(tt, type):
                if isinstance(x, tt) and not isinstance(x, (Obj,)):
                    return True
                continue
            if isinstance(tt, ExcType):
                if isinstance(x, ExcValue) and exc_matches(x.etype.name, tt.name):
                    return True
                continue
            if isinstance(tt, Opaque):
                continue
            if tt is ENUM_BASE:
                if isinstance(x, EnumMember):
                    return True
                continue
        return False

    def _hasattr(o, name):
        if isinstance(o, ArrBase):
            return name in ('__len__', 'shape', '__iter__', '__getitem__', 'ndim', 'size', 'T') and (name != '__len__' or o.ndim > 0)
        if isinstance(o, (SV, Fraction, int)) or o is None:
            return False
        if isinstance(o, Masked):
            return name in ('__len__',)
        try:
            interp.getattr(o, name)
            return True
        except PyRaise as e:
            if e.etype == 'AttributeError':
                return False
            raise

    def _getattr(o, name, *d):
        try:
            return interp.getattr(o, name)
        except PyRaise as e:
            if e.etype == 'AttributeError' and d:
                return d[0]
            raise

    def _callable(x):
        if isinstance(x, Obj):
            return x.cls.lookup('__call__')[0] is not None
        if isinstance(x, (Func, BoundMethod, Cls)):
            return True
        if isinstance(x, (SV, Fraction, int, str, list, dict, tuple, ArrBase)) or x is None:
            return False
        return callable(x)

    def _type(x):
        if isinstance(x, Obj):
            return x.cls
        if isinstance(x, Fraction):
            return float
        if isinstance(x, SV):
            return int if x.is_int else (bool if x.is_bool else float)
        if isinstance(x, ArrBase):
            return ArrBase
        return type(x)

    def _round(x, n=None):
        if isinstance(x, SV):
            raise Unsupported('round() of symbolic value')
        return round(x, n) if n is not None else round(x)

    def _str(x=''):
        if isinstance(x, (SV, ArrBase)):
            return '<sym>'
        if isinstance(x, EnumMember):
            return '%s.%s' % (x.cls.name, x.name)
        if isinstance(x, Fraction):
            return str(float(x))
        return str(x)

    def _sorted(it, key=None, reverse=False):
        items = interp.iterate(it)
        if any(isinstance(sym._generic(x), SV) for x in items):
            raise Unsupported('sorted() of symbolic values')
        return sorted(items, key=key, reverse=reverse)

    def _enumerate(it, start=0):
        return list(enumerate(interp.iterate(it), start))

    def _zip(*its):
        return list(zip(*[interp.iterate(i) for i in its]))

    def _list(it=()):
        return list(interp.iterate(it))

    def _tuple(it=()):
        return tuple(interp.iterate(it))

    def _dict(*a, **k):
        d = {}
        if a:
            if isinstance(a[0], dict):
                for kk, vv in a[0].items():
                    d[kk] = vv
            else:
                for kk, vv in interp.iterate(a[0]):
                    d[kk] = vv
        d.update(k)
        return d

    def _set(it=()):
        return set(interp.iterate(it))

    def _bool(x=False):
        x = sym._generic(x)
        if isinstance(x, SV):
            return x if x.is_bool else sym.cmp('!=', x, 0)
        return truth(x)

    def _pow(a, b):
        return sym.power(a, b)

    def _map(f, *its):
        return [interp.call(f, list(a), {}) for a in zip(*[interp.iterate(i) for i in its])]

    def _filter(f, it):
        return [x for x in interp.iterate(it) if truth(interp.call(f, [x], {}) if f is not None else x)]

    def _setattr(o, n, v):
        interp.setattr(o, n, v)

    def _reversed(it):
        return list(reversed(interp.iterate(it)))

    def _id(x):
        return id(x)

    def _open(*a, **k):
        raise Unsupported('%s open()' % interp.where)

    def _issubclass(c, t):
        if isinstance(c, Cls) and isinstance(t, Cls):
            return c.issub(t)
        return False

    def _divmod(a, b):
        return (sym.floordiv(a, b), sym.mod(a, b))

    def _iter(x):
        return iter(interp.iterate(x))

    def _hash(x):
        if isinstance(x, tuple):
            return HashKey([sym._generic(e) for e in x])
        if isinstance(x, (SV, Fraction, int)):
            return HashKey([x])
        return hash(x)

    def _next(it, *d):
        try:
            return next(it)
        except StopIteration:
            if d:
                return d[0]
            raise PyRaise('StopIteration', '', interp.where)

    b.update({'len': _len, 'range': _range, 'int': _int, 'float': _float, 'abs': _abs, 'min': _minmax(sym.vmin),
              'max': _minmax(sym.vmax), 'sum': _sum, 'any': _any, 'all': _all, 'isinstance': _isinstance,
              'hasattr': _hasattr, 'getattr': _getattr, 'setattr': _setattr, 'callable': _callable, 'type': _type,
              'round': _round, 'str': _str, 'sorted': _sorted, 'enumerate': _enumerate, 'zip': _zip, 'list': _list,
              'tuple': _tuple, 'dict': _dict, 'set': _set, 'bool': _bool, 'pow': _pow, 'map': _map, 'filter': _filter,
              'reversed': _reversed, 'id': _id, 'open': _open, 'object': object, 'issubclass': _issubclass,
              'divmod': _divmod, 'iter': _iter, 'hash': _hash, 'next': _next, 'True': True, 'False': False, 'None': None,
              'NotImplemented': NotImplemented, 'Ellipsis': Ellipsis, 'repr': _str, 'slice': slice,
              'property': Prop, 'staticmethod': StaticM, 'classmethod': ClassM, 'frozenset': frozenset,
              '__name__': '__kvc__'})
    # isinstance needs the raw python types as names
    b['float'] = _TypeLike(float, _float)
    b['int'] = _TypeLike(int, _int)
    b['bool'] = _TypeLike(bool, _bool)
    b['str'] = _TypeLike(str, _str)
    b['list'] = _TypeLike(list, _list)
    b['tuple'] = _TypeLike(tuple, _tuple)
    b['dict'] = _TypeLike(dict, _dict)
    b['set'] = _TypeLike(set, _set)
    return b


class _TypeLike(object):
    """a builtin that is both a type (for isinstance) and a conversion function"""
    def __init__(self, t, f):
        self.t, self.f = t, f
        self.__name__ = t.__name__

    def __call__(self, *a, **k):
        return self.f(*a, **k)

    def __eq__(self, o):
        return o is self or o is self.t

    def __hash__(self):
        return hash(self.t)


# let the isinstance model understand _TypeLike and np.ndarray
_orig_make = make_builtins


def make_builtins(interp):  # noqa: F811
    b = _orig_make(interp)
    inner = b['isinstance']

    def _isinstance(x, t):
        ts = t if isinstance(t, tuple) else (t,)
        ts = tuple(tt.t if isinstance(tt, _TypeLike) else tt for tt in ts)
        return inner(x, ts)
    b['isinstance'] = _isinstance
    return b


NP.ndarray = ArrBase
NP.generic = ()
