#!/bin/sh
# development helper: run the check of each seeded change's property against a scratch copy of /repo with the change applied.
# usage: tools/seed_matrix.sh [seed ...]   -> one line per seed in seeded/DETECTION.tsv (seed, check, exit code, first violated/undecided obligation)
cd "$(dirname "$0")/.."
OUT=${SEED_OUT:-seeded/DETECTION.tsv}
[ $# -gt 0 ] && SEEDS="$*" || { SEEDS=$(ls seeded | grep '^C[0-9][0-9]_'); : > $OUT; }
for s in $SEEDS; do
  prop=${s%_*}
  patch="$PWD/seeded/$s/patch.diff"; note=""
  [ -f "seeded/rebased/$s.diff" ] && { patch="$PWD/seeded/rebased/$s.diff"; note="rebased"; }
  D=$(mktemp -d /tmp/smx.XXXXXX); rsync -a --exclude .git /repo/ "$D/"
  if ! ( cd "$D" && patch -p1 -s --dry-run < "$patch" >/dev/null 2>&1 ); then
    echo "$s	$prop	-	patch does not apply to the current tree (overlaps a fix: commit)" | tee -a $OUT; rm -rf "$D"; continue
  fi
  ( cd "$D" && patch -p1 -s < "$patch" )
  for chk in $prop $(cat seeded/$s/also_checks 2>/dev/null); do
    out=$(KVC_REPO="$D" KVC_EVIDENCE_DIR="$D/.evidence" bin/check $chk 2>&1); rc=$?
    first=$(echo "$out" | grep -E "^(VIOLATION|UNDECIDED|CHECKER-ERROR)" | head -1 | sed -E 's/^VIOLATION property=[A-Z0-9]+ replay=[^ ]+ obligation=//; s/^UNDECIDED property=[A-Z0-9]+ /UNDECIDED /' | cut -c1-200)
    nv=$(echo "$out" | grep -c "^VIOLATION")
    echo "$s	$chk	$rc	$nv violations; $first $note" | tee -a $OUT
  done
  rm -rf "$D"
done
