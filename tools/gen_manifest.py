#!/usr/bin/env python3
"""writes /verif/MANIFEST.json from the per-property metadata below (kept by hand)"""
import json, os
HERE = os.path.dirname(os.path.dirname(os.path.abspath(__file__)))
COMMON_NOTE = ('python floats are mathematical reals (except clauses marked FP64) and ints mathematical integers; the kvc engine '
               '(ast front end + numpy model + VC generator), z3 5.1 / cvc5 1.0.3 and the assumed contracts on dependencies listed in the '
               'evidence file are trusted; configuration sizes (phases, elements, list items) are enumerated up to the stated bound, '
               'array lengths / mesh sizes / histories are symbolic (unbounded)')
P = {
 'C09': ('Partial: the kawin-side conditions for history/caching/batching independence, from the real source: HashTable returns a cached value only for a point that truncates to the same integer key, always for such a point, never when caching is disabled or after clearCache, '
         'integer keys stay in range; _process_xT_arrays/_process_TG_arrays give point i of a batch the numbers of point i alone (symbolic length) and leave caller arrays unchanged; _interfacialCompositionFromEq leaves gExtra unchanged and hands the backend gExtra+offset; '
         'the diffusivity cache is read and written under the QUERIED phase only and cleared by removeCache/clearCache; local_equilibrium overwrites the state variables of every re-used composition set with the current conditions.',
         'value equality of pycalphad results started from different cached composition sets is an ASSUMED contract on the external solver (undecidable here, listed as undecided in the evidence); builtin hash injective on admissible keys assumed'),
 'C10': ('Partial: kawin\'s own algebra on top of database values, from the real Mobility.py / FreeEnergyHessian.py / Thermodynamics.py: tracer diffusivity = R*T*correction*mobility per element (R in 8.31..8.32, one factor for all elements) hence positive for positive mobilities; '
         'substitutional u-fractions sum to one; mobility matrix entries (delta_ab - U_a) U_b M_b Usum, substitutional column sums zero (volume-fixed frame), interstitial rows diagonal with the vacancy fraction; reference elimination Dn = D - D_ref for every reference; '
         'binary interdiffusivity = Darken combination of the tracer diffusivities times x_A dmu_A/dx_A /(R T) GIVEN Gibbs-Duhem for the partial derivatives; dMudX = documented differences of partialdMudX (shared Hessian inverse); inverseMobility * Dn = curvature; '
         'public getters use the equilibrium, composition set, vacancy flag and mobility functions of the QUERIED phase and return values at the position of the named element.',
         'dmu/dx = finite-difference derivative of equilibrium potentials, symmetry/positive definiteness and eigenvalue positivity are statements about pycalphad and the databases: undecidable by contracts here, listed as undecided in the evidence; systems of 2-3 elements with 0-1 interstitial'),
 'C11': ('Element order: for every ordering of 2 and 3 solutes (and a reference element that is not alphabetically first) the real _interdiffusivitySingle / _tracerDiffusivitySingle / _computeSingleMobility return at the user\'s position the backend value of the element NAMED there '
         '(matrices permuted on both axes), and _getConditions maps X(name) to the user\'s number for that name; phase order: each of the five step-size constraints returns the same dt under every permutation of the phases and their per-phase data.',
         'backend (pycalphad) equivariance assumed; P = 2 quick, P = 3 thorough'),
 'C12': ('Partial: the kawin-side chain between driving force, Gibbs-Thomson energy, critical radius and growth sign, from the real source: g(R) = Vm(e_s + 2 f gamma/R) strictly decreasing, g(R*) = Vm(dGv + e_s); growth law (m_c/R)(dG - g) positive iff dG > g, interfacial = matrix composition at zero growth; '
         'multicomponent: through the real volumetricDrivingForce, nucleationBarrier, particleGibbs, getGrowthAndInterfacialComposition and _singleGrowthMulti every size class above the reported critical radius grows, below shrinks, at it stands still (no elastic energy; with elastic energy a known finding); '
         'binary: the table built by the real _createLookupBinary under the ASSUMED interface contract has the unstable classes as a prefix which receives the first stable composition, no sentinel survives, and the real _singleGrowthBinary changes sign at the reported critical radius (with and without elastic energy).',
         'the interface contract I(T) relating pycalphad\'s common-tangent result to its driving force, the sign change at the solvus, monotonicity in supersaturation and agreement of the four driving-force methods are properties of an external numerical solver: assumed/undecided, listed in the evidence; constant aspect ratio; P = 1'),
 'C13': ('Schedule objects (precipitation and diffusion) executed for constant / break-point / function forms: the value equals the documented function of time (hours, linear, end values) and '
         'constructor, setter and model.setTemperature give the same function AND the same isothermal flag, also after re-specification; one accepted step (Euler or RK4 stage pattern) of PrecipitateBase records '
         'time[n+1] = accepted time and temperature[n+1] = schedule(time[n+1]) with all 16 histories aligned; ghost-state invariant dTemp = T[n] - T_tab, |dTemp| <= maxTempChange for the binary lookup table through the real '
         '_growthRateBinary/_createLookupBinary.', 'break-point lists of length 2-3; staleness bound for the Euler iterator (RK4: monotone-over-a-step schedules only, stated)'),
 'C14': ('Real description classes executed on symbolic energy ratios: sphere equivalence area - 2k*removal = 3*volume for boundary/edge/corner (transcendental terms opaque, polynomial identity), k=0 limits 4pi and 4pi/3 (exact trig values), '
         'invalid marker outside the admissible range; nucleationBarrier: R* >= Rmin, zero for dG <= 0, R* = 2*gamma/dG and G* = G_sphere*c/(4pi/3) when unclamped (modular: factors assumed to satisfy the proved identity); Zeldovich/incubation/rate signs and monotone incubation factor; '
         'cached factors follow every sequence (length <= 2) of gamma/gbEnergy/site changes; admissibility = validation; available sites = max(N0 - occupied, 0) per site class for every pair of site types.',
         'sign/monotonicity of edge and corner factors over the whole k range undecided (transcendental); negative clamped barrier on boundary-type sites is a known finding with replayed witness'),
 'C15': ('Real description classes on a symbolic aspect ratio: unit volume and requested aspect of the three semi-axes (cbrt axioms), needle/plate thermodynamic and kinetic factors equal the textbook spheroid surface and capacitance ratios computed from the axes the code itself returns, '
         'value 1 at and below aspect 1, value at 1 = formula at 1 for the algebraic factors of every shape incl. cuboid, array call = scalar call entry-wise for symbolic length (float and int dtype) with the caller array unchanged, ShapeFactor wiring, '
         'and the bisection loop of _findRcrit with an invariant (bracket ordered, sign change kept, midpoint, counter): every return is a root to the tolerance or the 100-iteration fallback.',
         'monotonicity in aspect ratio and limits at 1+ of the transcendental factors undecided; spheroid closed forms trusted geometry'),
 'C17': ('The four bound rules executed on symbolic mobility matrices (p phases x e elements) and fractions on the simplex: each result within [min, max] of the phase mobilities, lower Wiener <= lower HS <= upper HS <= upper Wiener (NRA), '
         'equality to the phase mobility for p = 1, invariance under every permutation of the phase rows, arguments (incl. -1 markers of possibly cached arrays) unchanged; labyrinth(1) = upper Wiener, labyrinth(n>=1) <= upper Wiener, factor clipped to [1,2]; '
         'post-processing acts on the row of the phase NAMED by the user among the stable phases for several stable-phase lists incl. single-phase and reordered, is idempotent, ignores absent phases; computeHomogenizationFunction passes the stable names.',
         'p <= 2 in the quick tier (p = 3 ordering in the thorough tier), e <= 2; p = 4 not attempted'),
 'C18': ('getStrengthContributions executed for each strengthening mechanism on symbolic positive radii/spacings: every weak, strong and Orowan entry is >= 0 after the code\'s filters, combined strength = Taylor factor x smallest branch (0 with no mechanism), '
         'superposition (sum s_i^n)^(1/n) >= each part and monotone (power axioms); Zener drag never reverses/accelerates and freezes when strong enough (linear, pointwise); grain volume = 1 after normalisation (automatic sum linearity); '
         'strength history gains exactly one entry per host step; grain model solves once over exactly the host step after updating the drag; transport = C07 contract, inner solve = C05 contract.',
         'finiteness at zero radius/spacing, edge/screw constants (rounded), monotone mean grain size: undecided'),
 'C16': ('All tensors concrete-shaped, entries symbolic: 6x6 <-> rank-4 and vector <-> 3x3 round trips and minor symmetries; the quick 3x3 inverse is cofactor/det and inverts SYMMETRIC matrices, and its only call site (real sphInt) hands it a symmetric Christoffel matrix; '
         'rotation of rank-2/rank-4 tensors equals the index formula R R R R C (polynomial normal form); every one of the 15 modulus pairs (incl. nu = 0) yields the compliance of the same isotropic material; isotropic sphere closed form 2G(1+nu)/(1-nu) eps^2 V, cube/size and square/eigenstrain scaling of the spherical energy, '
         'degree-1 homogeneity of the ellipsoid radius function; rotation and stiffness may be supplied in either order; precipitate stiffness defaults to the CURRENT matrix stiffness.',
         'Eshelby quadrature numerics (positivity, textbook components, rotation invariance of the energy, Bohm reduction, Lebedev exactness) undecided; (E,M) pair for nu >= 0 only'),
 'C19': ('testCondition of all six condition classes x both inequalities executed on a PrecipitateBase object with a symbolic history: reads the monitored value at pData.n of the model it is '
         'given, latch, interpolated crossing time within [t(n-1), t(n)] (NRA), reset; stop decision of PrecipitateBase.postProcess for every or/and mix of <= 3 conditions; solver-loop stop clause (C05); TTP calculator wiring.',
         'P, E <= 2; model sub-steps of postProcess are arbitrary callables'),
 'C20': ('m2.fromDict(m1.toDict()) and m2.load(m1.save()) executed on the real code over a virtual .npz file: each of the 16 named histories, the step counter and per phase PSD, bounds, centres, '
         'min, max, bins, aspect-ratio table are equal for symbolic history length and grids; diffusion state with recording on and off; untrained pass-through of all seven surrogate getters to the SAME backend method with the same arguments; '
         'every _fit* refits from the current data; _processSurrogateData(_collectSurrogateData()) restores every data dictionary and refits once per phase.',
         'np.savez/np.load/json round trip and RBF interpolation property assumed; P,E <= 2; trained-surrogate reproduction at training points undecided'),
 'C01': ('Postcondition of the real _calcMassBalance for the distribution it is given (P,E<=2, infinite and finite precipitate diffusion, symbolic grids): number density / mean radius / capped volume fraction are moments, '
         'solute held in precipitates is volume x interfacial composition summed over the distribution, and x0 = x_matrix*(1-sum fv) + sum fconc or the documented clamp (NRA over opaque sums with automatic linearity); step-ordering contract '
         '(balance applied to the NEW state, that row recorded); re-mesh / extension keep particle volume (C08 contracts).', 'regime sum fv < 1; positive molar volumes; history lift by induction (trusted principle)'),
 'C02': ('Statistics = moments (the _calcMassBalance contract), stored distribution = state with classes below one removed plus the two documented zeroings (_processX, _updateParticleSizeDistribution without re-mesh), '
         'number balance of one Euler update through the real getdXdtEuler + correctdXdtEuler: N_new - N_old = dt*J + dt*(nf(0) - nf(bins)) <= J*dt (linear-sum lemma), per-phase wiring of _getdXdt/_correctdXdt.',
         'RK4 uses the last stage rate (observation); re-mesh steps: volume fraction vs post-re-mesh distribution; BOUNDED stand-in shared with C08 (grid extension after operation sequences of length <= 2 / <= 3)'),
 'C03': ('Alignment of all 16 histories per accepted step, ranges (0<=fv<=1, R>=0, N>=0, x>=0) from the mass-balance contract, populations 0 or >=1, solver time contract (C05), and the backend-fault paths: _growthRateMulti/_singleGrowthMulti executed with a backend that may return None at every call '
         '(all fault sequences for P<=2): no exception, one-row slices, previous growth rate and last valid equilibrium compositions kept; phase-reset path sizes.',
         'NaN/inf freedom, sum fv <= 1 and x <= 1 are undecided (listed); driving-force/impingement queries assumed to return values'),
 'C04': ('Obligations from the real source of the boundary-condition routine, DiffusionModel.getdXdt/postProcess/setup/flatten/unflatten, both _getFluxes and the '
         'real iterators + DESolver._updateX: boundary-face contract for every flux/composition mix, telescoping flux divergence (linear-sum lemma), '
         'per-step mesh-sum balance for Euler and RK4, fixed nodes, clip bounds, setup idempotence and configuration-op frames, for symbolic mesh size.', 'E <= 2 independent components'),
 'C05': ('Loop invariant of DESolver.solve with arbitrary (uninterpreted) model callbacks: time strictly increases, never exceeds tf, step within the fractions, only '
         'the last step short, progress >= m, exactly one postProcess per step, exit at tf unless stopped; clamp also in IEEE double semantics for every double incl. NaN/inf; '
         'iterator call structure; Coupler routing and stop OR; flatten/unflatten round trips.', 'state lists of <= 3 items, couplings of <= 3 models; termination via the Archimedean property; thorough tier adds the IEEE-double end-time clause through the real solve loop (QF_FP, about 140 s)'),
 'C06': ('The Butcher tableau (c, A, b) is EXTRACTED from the real iterator source by executing it on an uninterpreted right-hand side; the documented stage times, row-sum consistency and the '
         'classical order conditions (1 for Euler, 8 for RK4) are checked on the extracted rationals; X_old is never mutated; the solver advances time by exactly the step the state was advanced.',
         'order theorem for Runge-Kutta schemes trusted (cited)'),
 'C07': ('Every obligation generated from the current source of getdXdtEuler / correctdXdtEuler / getDTEuler / getDissolutionIndex (upwind face flux, telescoping conservation, containing class, '
         'face-wise limiting, step-limit consequence, dt formula, frames) is discharged for symbolic grid size, distribution, growth field and nucleation term.', 'class invariant PBM_INV assumed at entry (preserved: C08); additionally a BOUNDED stand-in (labelled, not counted as proved): the step-limit contract on objects reached from the real constructor by every sequence of <= 2 (quick) / <= 3 (thorough) grid operations'),
 'C08': ('Representation invariant of PopulationBalanceModel established by __init__ and re-established by every public grid operation from an arbitrary invariant state (=> all histories); '
         'extend frame, exact third-moment preservation under re-mesh (unless the interpolated volume is zero), maxBins bound, reset, backup/revert, and all 16 moment functions as sums over their ARGUMENT.',
         'np.interp / np.histogram assumed contracts; re-mesh mass loss of a population lying between the new class centres is a known finding with two replayed witnesses (exact np.interp on concrete grid pairs); BOUNDED stand-in (labelled, not counted): addSizeClasses contract after every operation sequence of length <= 2 / <= 3 from the real constructor'),
}
checks = []
for pid in sorted(P):
    text, note = P[pid]
    checks.append({
        'property_id': pid, 'quick_cmd': 'bin/check %s --tier quick' % pid, 'thorough_cmd': 'bin/check %s --tier thorough' % pid,
        'evidence_file': 'evidence/%s.json' % pid, 'replay_cmd_template': 'bin/check %s --replay {path}' % pid, 'engine': 'kvc',
        'level_claimed': {'category': 'proof', 'text': text, 'design_ref': 'DESIGN.md section 6, %s' % pid},
        'level_note': note + '; ' + COMMON_NOTE,
        'technique': 'sidecar contracts on the real functions; VCs generated from the ast of /repo on every run; z3/cvc5; counterexamples replayed on the imported real code'})
allp = [json.loads(l)['id'] for l in open(os.path.join(HERE, 'properties.jsonl'))]
na = [{'property_id': p, 'reason': 'no check claimed'} for p in allp if p not in P]
m = {'version': 1, 'setup_cmd': './setup.sh',
     'hooks': {'guard': 'KAWIN_VERIF', 'enable': 'no source hooks in /repo: contracts are sidecar files under /verif/contracts; bin/check sets KAWIN_VERIF=1 for its own process only',
               'baseline_off_cmd': 'cd /repo && /venv/bin/python -m pytest -ra -q -p no:cacheprovider --timeout=900 --continue-on-collection-errors', 'source_commits': [], 'add_only': True},
     'engines': [{'name': 'kvc', 'path': '/verif/kvc', 'serves_properties': sorted(P),
                  'kind_free_text': 'contract-based deductive verification: sidecar contracts, VC generation by symbolic execution of the real ast, z3 5.1 (+cvc5, z3 4.8 fallback), native replay of counterexamples'}],
     'checks': checks, 'not_applicable': na,
     'notes': 'fix: commits in /repo repair defects found by these checks (see known_findings.json, status=fixed); no hook commits'}
json.dump(m, open(os.path.join(HERE, 'MANIFEST.json'), 'w'), indent=1)
print('wrote MANIFEST.json with', len(checks), 'checks')
