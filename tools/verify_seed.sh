#!/bin/sh
# verify one seeded change: tools/verify_seed.sh C07 a   (seed material in /tmp/seed_<ID>.out/<x>/)
# result: /verif/seeded/<ID>_<x>/{patch.diff,demo.py,notes.md,meta.json}; scratch worktree removed afterwards
ID="$1"; X="$2"; SRC="${SEED_SRC:-/tmp/seed_$ID.out}/$X"
[ -f "$SRC/patch.diff" ] || { echo "no patch for $ID $X"; exit 2; }
WT=$(mktemp -d /tmp/vseed.XXXXXX); rmdir "$WT"
git -C /repo worktree add -q --detach "$WT" "${SEED_BASE:-9a106ba}" || exit 3
cd "$WT"
D0=$(/venv/bin/python "$SRC/demo.py" >"$WT.demo0.log" 2>&1; echo $?)
APPLY=$(git apply "$SRC/patch.diff" 2>&1; echo "rc=$?")
D1=$(/venv/bin/python "$SRC/demo.py" >"$WT.demo1.log" 2>&1; echo $?)
T=$(/venv/bin/python -m pytest -q -p no:cacheprovider --timeout=900 kawin/tests 2>&1 | tail -1)
OUT="/verif/seeded/${ID}_$X"; mkdir -p "$OUT"
cp "$SRC/patch.diff" "$SRC/demo.py" "$OUT/"; [ -f "$SRC/notes.md" ] && cp "$SRC/notes.md" "$OUT/"
python3 - "$ID" "$X" "$D0" "$D1" "$T" "$APPLY" "$OUT" "$WT" <<'PY'
import sys, json, os
ID, X, D0, D1, T, APPLY, OUT, WT = sys.argv[1:]
tail = lambda p: open(p, errors='replace').read()[-600:]
ok = D0 == '0' and D1 != '0' and ' passed' in T and 'failed' not in T and APPLY.endswith('rc=0')
json.dump(dict(property=ID, seed=X, breaks=ID, verified=ok,
               ran=dict(base=os.environ.get('SEED_BASE','pinned commit 9a106ba')+' in a scratch worktree (removed)', demo_on_original_exit=int(D0), demo_with_patch_exit=int(D1),
                        testsuite_with_patch=T.strip(), git_apply=APPLY),
               demo_with_patch_tail=tail(WT + '.demo1.log'),
               needs_to_manifest='see notes.md (written by the independent sub-agent that produced the change)'),
          open(OUT + '/meta.json', 'w'), indent=1)
print(ID, X, 'verified' if ok else 'NOT VERIFIED', D0, D1, T.strip())
PY
cd /; git -C /repo worktree remove --force "$WT"; rm -f "$WT.demo0.log" "$WT.demo1.log"
