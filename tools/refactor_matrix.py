#!/usr/bin/env python3
"""development helper: behaviour-preserving changes (seeded/harmless/<id>/patch.diff) must leave every check that reads the touched files GREEN.
usage: tools/refactor_matrix.py [id ...]   -> seeded/HARMLESS.tsv (id, check, exit code, first reported line)"""
import json, os, re, subprocess, sys, tempfile, shutil, glob
HERE = os.path.dirname(os.path.dirname(os.path.abspath(__file__)))
ev = {os.path.basename(f)[:-5]: json.load(open(f)) for f in glob.glob(os.path.join(HERE, 'evidence', 'C*.json'))}
ids = sys.argv[1:] or sorted(os.listdir(os.path.join(HERE, 'seeded', 'harmless')))
out = os.environ.get('RFM_OUT') or os.path.join(HERE, 'seeded', 'HARMLESS.tsv')
rows = {}
if os.path.exists(out):
    for l in open(out):
        a = l.rstrip('\n').split('\t')
        if len(a) >= 4:
            rows[(a[0], a[1])] = a
for i in ids:
    patch = os.path.join(HERE, 'seeded', 'harmless', i, 'patch.diff')
    files = [l[6:].strip() for l in open(patch) if l.startswith('+++ b/')]
    mods = [f[:-3].replace('/', '.') for f in files]
    checks = sorted(p for p, e in ev.items() if any(fn.split(':')[0] in mods for fn in e['coverage']['functions_under_contract']))
    d = tempfile.mkdtemp(prefix='rfm.', dir='/tmp')
    subprocess.run(['rsync', '-a', '--exclude', '.git', '/repo/', d + '/'], check=True)
    r = subprocess.run(['patch', '-p1', '-s', '-d', d, '-i', patch], capture_output=True, text=True)
    if r.returncode != 0:
        rows[(i, '-')] = [i, '-', '-', 'patch does not apply']
        shutil.rmtree(d)
        continue
    for c in checks:
        env = dict(os.environ, KVC_REPO=d, KVC_EVIDENCE_DIR=d + '/.evidence')
        r = subprocess.run([os.path.join(HERE, 'bin', 'check'), c], capture_output=True, text=True, env=env)
        first = [l for l in r.stdout.splitlines() if re.match(r'^(VIOLATION|UNDECIDED|CHECKER-ERROR)', l)]
        msg = re.sub(r'^VIOLATION property=\S+ replay=\S+ obligation=', 'VIOLATION ', first[0])[:220] if first else ''
        rows[(i, c)] = [i, c, str(r.returncode), msg]
        print(i, c, r.returncode, msg, flush=True)
    shutil.rmtree(d)
    open(out, 'w').write(''.join('\t'.join(rows[k]) + '\n' for k in sorted(rows)))
