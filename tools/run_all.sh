#!/bin/sh
# development helper: run every registered check (tier $1, default quick) one after another and print a one-line summary per property
cd "$(dirname "$0")/.."
T=${1:-quick}
for p in $(seq -w 1 20); do
  s=$(date +%s)
  out=$(bin/check C$p --tier $T 2>&1); rc=$?
  e=$(date +%s)
  echo "C$p rc=$rc $((e-s))s $(echo "$out" | tail -1)"
done
