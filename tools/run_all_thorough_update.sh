#!/bin/sh
# development helper: thorough tier of every check with ledger update (adds thorough-only clauses to the ledger)
cd "$(dirname "$0")/.."
for p in $(seq -w 1 20); do
  s=$(date +%s); out=$(bin/check C$p --tier thorough --update-ledger 2>&1); rc=$?; e=$(date +%s)
  echo "C$p rc=$rc $((e-s))s $(echo "$out" | tail -1)"
done
