#!/bin/sh
# Build the overlay interpreter /verif/.venv (offline): python 3.12 of /venv + z3-solver/mpmath/sympy/jsonschema
# from the local wheelhouse + a .pth exposing /venv's site-packages (numpy, pycalphad, kawin of /repo).
set -e
cd "$(dirname "$0")"
V=.venv
if [ -x "$V/bin/python" ] && "$V/bin/python" -c "import z3, numpy, jsonschema, mpmath" 2>/dev/null; then
  echo "overlay venv present"; exit 0
fi
rm -rf "$V"
/venv/bin/python -m venv "$V"
PIP_NO_INDEX=1 "$V/bin/python" -m pip install -q --no-index --find-links /opt/veriftools/wheels z3-solver mpmath sympy jsonschema
echo "import site; site.addsitedir('/venv/lib/python3.12/site-packages')" > "$V/lib/python3.12/site-packages/_repo.pth"
"$V/bin/python" -c "import z3, numpy, jsonschema, mpmath, kawin; print('overlay ok', z3.get_version_string())"
