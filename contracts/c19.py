"""C19 -- stopping conditions stop the run when, and only when, they are met (DESIGN 6, C19)."""
import itertools
from kvc.dsl import *
from kvc import sym

REG = Registry('C19')
REG.assumptions += [
    'number of precipitate phases P <= 2 and solutes E <= 2 (configuration sizes); history length n symbolic',
    'stop propagation through the solver: the DESolver.solve loop contract of C05 (re-checked here)',
    'the model sub-steps of postProcess (_calculateDependentTerms, _appendArrays, _updateParticleSizeDistribution, coupled models) '
    'are replaced by arbitrary callables: the stop decision does not depend on them except through the conditions',
]
SC = 'kawin.precipitation.StoppingConditions'
KB = 'kawin.precipitation.KWNBase'
PP = 'kawin.precipitation.PrecipitationParameters'
TTP = 'kawin.precipitation.TimeTemperaturePrecipitation'
ATTRS = ['time', 'temperature', 'composition', 'xEqAlpha', 'xEqBeta', 'drivingForce', 'impingement', 'Gcrit', 'Rcrit', 'nucRate',
         'precipitateDensity', 'Rnuc', 'Ravg', 'ARavg', 'volFrac', 'fconc']
PHASES = ['ALPHA_P', 'BETA_P', 'GAMMA_P']
ELEMS = ['CR', 'AL', 'TI']


def pdata_shapes(L, P, E):
    return dict(time=(L,), temperature=(L,), composition=(L, E), xEqAlpha=(L, P, E), xEqBeta=(L, P, E), drivingForce=(L, P),
                impingement=(L, P), Gcrit=(L, P), Rcrit=(L, P), nucRate=(L, P), precipitateDensity=(L, P), Rnuc=(L, P), Ravg=(L, P),
                ARavg=(L, P), volFrac=(L, P), fconc=(L, P, E))


def mk_pdata(ctx, it, P, E, tag='', L=None, facts=None):
    """PrecipitationData with a history of symbolic length L = n+1"""
    if L is None:
        n = integer(ctx, tag + 'n', lambda v: v >= 0)
        L = n + 1
    else:
        n = L - 1
    phases, elements = PHASES[:P], ELEMS[:E]
    f = dict(phases=phases, elements=elements, n=n)
    for k, shp in pdata_shapes(L, P, E).items():
        f[k] = array(ctx, tag + k, shp, fact=(facts or {}).get(k))
    return new_obj(it, PP, 'PrecipitationData', **f), n


def mk_model(ctx, it, P, E, tag=''):
    pd, n = mk_pdata(ctx, it, P, E, tag)
    m = new_obj(it, KB, 'PrecipitateBase', phases=to_arr(PHASES[:P]), elements=ELEMS[:E], pData=pd, _stoppingConditions=[], _stopConditionMode=[],
                couplingModels=[], numberOfElements=E)
    return m, pd, n


COND = [('VolumeFractionCondition', 'volFrac'), ('AverageRadiusCondition', 'Ravg'), ('DrivingForceCondition', 'drivingForce'),
        ('NucleationRateCondition', 'nucRate'), ('PrecipitateDensityCondition', 'precipitateDensity'), ('CompositionCondition', 'composition')]


def _cfgs():
    out = []
    for cname, field in COND:
        for ineq in ('GREATER_THAN', 'LESSER_THAN'):
            for P, sel in ((1, None), (2, 1)):
                out.append(dict(name='%s,%s,%s' % (cname, '>' if ineq == 'GREATER_THAN' else '<', 'default' if sel is None else 'second'),
                                cls=cname, field=field, ineq=ineq, P=P, sel=sel))
    return out


@REG.contract('testCondition', [SC + ':PrecipitationStoppingCondition.testCondition', SC + ':PrecipitationStoppingCondition._testCondition',
                                SC + ':PrecipitationStoppingCondition._poll', SC + ':CompositionCondition._poll', KB + ':PrecipitateBase.phaseIndex']
              + [SC + ':%s._getData' % c for c, _ in COND[:-1]], configs=_cfgs())
def c_test(ctx, it, cfg):
    P = cfg['P']
    E = P
    m, pd, n = mk_model(ctx, it, P, E)
    Ineq = it.get(SC, 'Inequality')
    C = it.get(SC, cfg['cls'])
    value = real(ctx, 'value')
    if cfg['cls'] == 'CompositionCondition':
        cond = C(Ineq.attrs[cfg['ineq']], value, None if cfg['sel'] is None else ELEMS[cfg['sel']])
    else:
        cond = C(Ineq.attrs[cfg['ineq']], value, None if cfg['sel'] is None else PHASES[cfg['sel']])
    ctx.prove('new-condition-is-unsatisfied', cond.isSatisfied() is False and eq(cond.satisfiedTime(), -1))
    col = 0 if cfg['sel'] is None else cfg['sel']
    data = pd.fields[cfg['field']]
    time = pd.fields['time']
    curr = data.get(n, col)
    prev = data.get(n - 1, col)
    sat = (lambda v: gt(v, value)) if cfg['ineq'] == 'GREATER_THAN' else (lambda v: lt(v, value))
    pre_m, pre_pd = snapshot(m), snapshot(pd)
    cond.testCondition(m)
    s = cond.isSatisfied()
    ctx.prove('satisfied-iff-monitored-value-at-current-step-passes-threshold', eq(s, sat(curr)))
    st = cond.satisfiedTime()
    ctx.prove('unsatisfied-has-no-time', implies(not_(s), eq(st, -1)))
    ctx.prove('first-step-reports-its-own-time', implies(and_(s, eq(n, 0)), eq(st, time.get(0))))
    crossing = and_(s, ge(n, 1))
    ctx.prove('time-is-linear-interpolation-of-threshold-crossing',
              implies(and_(crossing, not_(sat(prev))), eq((st - time.get(n - 1)) * (curr - prev), (time.get(n) - time.get(n - 1)) * (value - prev))))
    ctx.assume(implies(ge(n, 1), lt(time.get(n - 1), time.get(n))))         # recorded times strictly increase (C05)
    ctx.prove('time-lies-within-the-crossing-step', implies(and_(crossing, not_(sat(prev))), between(time.get(n - 1), st, time.get(n))))
    frame(ctx, 'model', m, pre_m, modifies=[])
    frame(ctx, 'model.pData', pd, pre_pd, modifies=[])
    # latch: once satisfied, later polls change nothing, whatever the data do
    pd2, n2 = mk_pdata(ctx, it, P, E, tag='later_')
    m.fields['pData'] = pd2
    before = (cond.fields['_isSatisfied'], cond.fields['_satisfiedTime'])
    ctx.assume(s)
    cond.testCondition(m)
    ctx.prove('latch/stays-satisfied', cond.isSatisfied() is before[0] or eq(cond.isSatisfied(), True))
    ctx.prove('latch/time-written-once', eq(cond.satisfiedTime(), before[1]))
    cond.reset()
    ctx.prove('reset/unsatisfied-again', cond.isSatisfied() is False and eq(cond.satisfiedTime(), -1))


class CondStub(object):
    def __init__(self, ctx, k, log):
        self.k, self.log = k, log
        self.sat = boolean(ctx, 'sat%d' % k)

    def testCondition(self, model):
        self.log.append(('test', self.k, model))

    def isSatisfied(self):
        self.log.append(('is', self.k))
        return self.sat

    def reset(self):
        self.log.append(('reset', self.k))


def _mode_cfgs():
    out = [dict(name='none', modes=())]
    for k in (1, 2, 3):
        for modes in itertools.product(('or', 'and'), repeat=k):
            out.append(dict(name='+'.join(modes), modes=modes))
    return out


@REG.contract('postProcess/stop-decision', [KB + ':PrecipitateBase.postProcess', KB + ':PrecipitateBase.addStoppingCondition',
                                            KB + ':PrecipitateBase.clearStoppingConditions'], configs=_mode_cfgs())
def c_post(ctx, it, cfg):
    m, pd, n = mk_model(ctx, it, 1, 1)
    log = []
    m.fields['_calculateDependentTerms'] = lambda t, x: log.append(('deps',))
    m.fields['_appendArrays'] = lambda y: log.append(('append',))
    m.fields['_updateParticleSizeDistribution'] = lambda t, x: log.append(('psd',))
    m.fields['updateCoupledModels'] = lambda: log.append(('coupled',))
    Xcur = object()
    m.fields['getCurrentX'] = lambda: (0, Xcur)
    m.fields['_currY'] = None
    m.clearStoppingConditions()
    conds = [CondStub(ctx, k, log) for k in range(len(cfg['modes']))]
    for c, mode in zip(conds, cfg['modes']):
        m.addStoppingCondition(c, mode)
    X, stop = m.postProcess(real(ctx, 't'), object())
    ors = [c.sat for c, md in zip(conds, cfg['modes']) if md == 'or']
    ands = [c.sat for c, md in zip(conds, cfg['modes']) if md == 'and']
    want = or_(or_(*ors) if ors else False, and_(*ands) if ands else False)
    ctx.prove('stop-iff-any-or-condition-or-all-and-conditions', eq(stop, want) if not (isinstance(stop, bool) and isinstance(want, bool)) else stop == want)
    tests = [e for e in log if e[0] == 'test']
    ctx.prove('every-condition-polled-exactly-once-with-this-model', len(tests) == len(conds) and all(e[1] == k and e[2] is m for k, e in enumerate(tests)))
    order = [e[0] for e in log if e[0] in ('deps', 'append', 'psd', 'coupled', 'test')]
    ctx.prove('conditions-polled-after-the-step-was-recorded', order[:4] == ['deps', 'append', 'psd', 'coupled'])
    ctx.prove('coupled-models-updated-exactly-once-for-the-recorded-step-whatever-the-stop-decision', log.count(('coupled',)) == 1)
    ctx.prove('returns-current-state', X is Xcur)
    if cfg['modes']:
        ctx.prove('canary/first-condition-decides', eq(stop, conds[0].sat), expect='refuted' if len(cfg['modes']) > 1 else None)


@REG.contract('reset-clears-conditions', [KB + ':PrecipitateBase.reset'])
def c_reset(ctx, it, cfg):
    m, pd, n = mk_model(ctx, it, 1, 1)
    log = []
    m.fields['_resetArrays'] = lambda: log.append(('arrays',))
    conds = [CondStub(ctx, k, log) for k in range(2)]
    m.fields['_stoppingConditions'] = list(conds)
    m.fields['_stopConditionMode'] = [True, False]
    m.reset()
    ctx.prove('every-condition-reset', [e for e in log if e[0] == 'reset'] == [('reset', 0), ('reset', 1)])
    ctx.prove('conditions-stay-attached', m.fields['_stoppingConditions'] == conds and m.fields['_stopConditionMode'] == [True, False])
    ctx.prove('model-marked-for-setup', m.fields['_isSetup'] is False)


@REG.contract('TTPCalculator', [TTP + ':TTPCalculator.__init__', TTP + ':TTPCalculator._getStopTime', TTP + ':TTPCalculator.calculateTTP'])
def c_ttp(ctx, it, cfg):
    log = []

    class Model(object):
        def clearStoppingConditions(self):
            log.append(('clear',))

        def addStoppingCondition(self, c, mode='or'):
            log.append(('add', c, mode))

        def reset(self):
            log.append(('reset',))

        def setTemperature(self, T):
            log.append(('setT', T))

        def solve(self, simTime, **kw):
            log.append(('solve', simTime))

    class Cond(object):
        def __init__(self, k):
            self.t = real(ctx, 'satT%d' % k)

        def satisfiedTime(self):
            return self.t
    model = Model()
    conds = [Cond(0), Cond(1), Cond(2)]
    T = it.get(TTP, 'TTPCalculator')
    calc = T(model, conds)
    ctx.prove('init/previous-conditions-cleared-then-all-added-as-and', [e[0] for e in log] == ['clear', 'add', 'add', 'add']
              and all(e[1] is c and e[2] == 'and' for e, c in zip(log[1:], conds)))
    del log[:]
    calc.fields['_maxTime'] = mt = real(ctx, 'maxTime')
    Tq = real(ctx, 'T')
    vals = calc._getStopTime(Tq)
    ctx.prove('model-reset-then-temperature-then-solve', [e[0] for e in log] == ['reset', 'setT', 'solve'] and eq(log[1][1], Tq) and eq(log[2][1], mt))
    ctx.prove('reports-each-conditions-time', isinstance(vals, ArrBase) and vals.ndim == 1 and vals.shape[0] == 3 and and_(*[eq(vals.get(k), c.t) for k, c in enumerate(conds)]))
    # the whole diagram, requested twice on the same calculator (a second request with another maximum time / after a model change must run again):
    # every temperature of every request resets the model, sets that temperature and solves for the maximum time of THAT request
    for rnd_, (Tlo, Thi) in enumerate(((real(ctx, 'Tlow'), real(ctx, 'Thigh')),) * 2):
        del log[:]
        for k, c in enumerate(conds):
            c.t = real(ctx, 'request%d_satT%d' % (rnd_, k))
        mt2 = real(ctx, 'maxTime_request%d' % rnd_)
        calc.calculateTTP(Tlo, Thi, 2, mt2)
        runs = [e for e in log if e[0] == 'solve']
        sets = [e for e in log if e[0] == 'setT']
        ok = len(runs) == 2 and len(sets) == 2 and [e[0] for e in log] == ['reset', 'setT', 'solve'] * 2
        ctx.prove('request%d/every-temperature-is-run-afresh' % (rnd_ + 1), ok)
        if ok:
            ctx.prove('request%d/at-its-temperature-for-the-maximum-time-of-this-request' % (rnd_ + 1), and_(eq(sets[0][1], Tlo), eq(sets[1][1], Thi), eq(runs[0][1], mt2), eq(runs[1][1], mt2)))
        tt = calc.fields['transformationTimes']
        ctx.prove('request%d/table-holds-the-times-of-this-request' % (rnd_ + 1), and_(*[eq(tt.get(1, k), c.t) for k, c in enumerate(conds)]))


from . import c05 as _c05
REG.contracts.append(_c05.c_solve.contract)
