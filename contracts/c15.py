"""C15 -- precipitate shape factors match the geometry they describe (DESIGN 6, C15)."""
from fractions import Fraction
from kvc.dsl import *
from kvc import sym

REG = Registry('C15')
REG.assumptions += [
    'spheroid closed forms (trusted geometry): prolate a=b<c: S = 2*pi*a^2*(1 + c/(a*e)*arcsin e), C = c*e/artanh e; oblate a=b>c: '
    'S = 2*pi*a^2 + pi*c^2/e*ln((1+e)/(1-e)), C = a*e/arcsin e; e^2 = 1 - (short/long)^2; artanh e = (1/2)*ln((1+e)/(1-e))',
    'log quotient rule ln(u/v) = ln u - ln v (axiom instance), arcsin e = pi/2 - arccos e, cbrt(x)^3 = x, sqrt(x)^2 = x',
    'aspect ratio a real >= 1 (values below 1 are proved to be treated as 1)',
]
REG.undecided += [
    'factors increase with aspect ratio and are continuous at aspect ratio -> 1+ for the needle/plate thermodynamic and kinetic factors (removable 0/0 forms with '
    'transcendental terms): outside NRA; only the value AT 1 and the algebraic (cbrt) factors are decided',
    'reachability of the 100-iteration fallback of the bisection (depends on continuity of the user aspect-ratio function)',
]
SF = 'kawin.precipitation.parameters.ShapeFactors'
SHAPES = ['SphereDescription', 'NeedleDescription', 'PlateDescription', 'CuboidalDescription']


def R0():
    return cbrt(3 / (4 * NP.pi))


@REG.contract('normalRadii/unit-volume-and-aspect', [SF + ':%s._normalRadii' % s for s in SHAPES] + [SF + ':ShapeDescriptionBase.normalRadii', SF + ':ShapeDescriptionBase._processAspectRatio'],
              configs=[dict(name=s, cls=s) for s in SHAPES])
def c_radii(ctx, it, cfg):
    d = it.get(SF, cfg['cls'])()
    ar = real(ctx, 'ar', lambda v: v >= 1)
    r = d.normalRadii(ar)
    ctx.prove('three-semi-axes', isinstance(r, ArrBase) and r.ndim == 1 and r.shape[0] == 3)
    r1, r2, r3 = r.get(0), r.get(1), r.get(2)
    ctx.assume(gt(R0(), 0))
    if cfg['cls'] == 'CuboidalDescription':
        ctx.prove('unit-volume (product of the three lengths)', eq(r1 * r2 * r3, 1))
        ctx.prove('requested-aspect-ratio', and_(eq(r3, ar * r1), eq(r1, r2)))
    else:
        ctx.prove('unit-volume (4pi/3 * r1*r2*r3 = 1)', eq(4 * NP.pi / 3 * r1 * r2 * r3, 1))
        if cfg['cls'] == 'SphereDescription':
            ctx.prove('all-axes-equal', and_(eq(r1, r2), eq(r2, r3)))
        elif cfg['cls'] == 'NeedleDescription':
            ctx.prove('requested-aspect-ratio (long/short)', and_(eq(r3, ar * r1), eq(r1, r2)))
        else:
            ctx.prove('requested-aspect-ratio (long/short)', and_(eq(r1, ar * r3), eq(r1, r2)))
    ctx.prove('positive', and_(gt(r1, 0), gt(r2, 0), gt(r3, 0)))
    # below 1 is treated as 1
    lo = real(ctx, 'ar_below', lambda v: v < 1)
    rl, r1s = d.normalRadii(lo), d.normalRadii(1)
    ctx.prove('aspect-below-1-treated-as-1', and_(*[eq(rl.get(k), r1s.get(k)) for k in range(3)]))


@REG.contract('spheroid-factors/closed-forms', [SF + ':NeedleDescription._thermoFactor', SF + ':NeedleDescription._kineticFactor', SF + ':NeedleDescription._eqRadius',
              SF + ':PlateDescription._thermoFactor', SF + ':PlateDescription._kineticFactor', SF + ':PlateDescription._eqRadius', SF + ':ShapeDescriptionBase.eccentricity',
              SF + ':ShapeDescriptionBase.thermoFactor', SF + ':ShapeDescriptionBase.kineticFactor', SF + ':ShapeDescriptionBase.eqRadiusFactor'],
              configs=[dict(name='needle', cls='NeedleDescription'), dict(name='plate', cls='PlateDescription')])
def c_spheroid(ctx, it, cfg):
    d = it.get(SF, cfg['cls'])()
    ar = real(ctx, 'ar', lambda v: v > 1)
    r = d.normalRadii(ar)
    r0 = R0()
    ctx.assume(gt(r0, 0))
    thermo, kin, eqr = d.thermoFactor(ar), d.kineticFactor(ar), d.eqRadiusFactor(ar)
    pi = NP.pi
    Ssphere = 4 * pi * r0 * r0
    if cfg['cls'] == 'NeedleDescription':
        a, c = r.get(0), r.get(2)                 # a = b < c
        e = sqrt(1 - (a / c) * (a / c))
        ctx.prove('eccentricity-is-that-of-the-axes', eq(e, d.eccentricity(ar)))
        S = 2 * pi * a * a * (1 + c / (a * e) * NP.arcsin(e))
        ctx.prove('thermodynamic-factor = spheroid surface / equal-volume sphere surface', eq(thermo * Ssphere, S))
        ctx.assume(eq(log((1 + e) / (1 - e)), log(1 + e) - log(1 - e)))       # ln(u/v) = ln u - ln v
        C = 2 * c * e / log((1 + e) / (1 - e))      # c*e/artanh(e)
        ctx.prove('kinetic-factor = spheroid capacitance / equal-volume sphere radius', eq(kin * r0, C))
        ctx.prove('equivalent-radius-factor = long semi-axis... = R_eq/short-axis', eq(eqr * a, r0))
    else:
        a, c = r.get(0), r.get(2)                 # a = b > c
        e = sqrt(1 - (c / a) * (c / a))
        ctx.prove('eccentricity-is-that-of-the-axes', eq(e, d.eccentricity(ar)))
        S = 2 * pi * a * a + pi * c * c / e * log((1 + e) / (1 - e))
        ctx.prove('thermodynamic-factor = spheroid surface / equal-volume sphere surface', eq(thermo * Ssphere, S))
        C = a * e / NP.arcsin(e)
        ctx.prove('kinetic-factor = spheroid capacitance / equal-volume sphere radius', eq(kin * r0, C))
        ctx.prove('equivalent-radius-factor = R_eq/short-axis', eq(eqr * c, r0))
    ctx.prove('canary/thermo-factor-is-1', eq(thermo, 1), expect='refuted')


@REG.contract('factors/at-and-below-aspect-1', [SF + ':ShapeDescriptionBase.%s' % f for f in ('eqRadiusFactor', 'kineticFactor', 'thermoFactor', '_processAspectRatio')]
              + [SF + ':CuboidalDescription.__init__'], configs=[dict(name=s, cls=s) for s in SHAPES])
def c_at_one(ctx, it, cfg):
    d = it.get(SF, cfg['cls'])()
    lo = real(ctx, 'ar_below', lambda v: v <= 1)
    for f in ('eqRadiusFactor', 'kineticFactor', 'thermoFactor'):
        ctx.prove('%s/below-1-equals-value-at-1' % f, eq(getattr(d, f)(lo), getattr(d, f)(1)))
    if cfg['cls'] != 'CuboidalDescription':
        for f in ('eqRadiusFactor', 'kineticFactor', 'thermoFactor'):
            ctx.prove('%s/is-1-at-aspect-1' % f, eq(getattr(d, f)(1), 1))
    # continuity at 1 where the formula itself is defined at 1 (cbrt / polynomial forms): value at 1 = formula at 1
    one = NP.ones(1)
    algebraic = {'SphereDescription': ('_eqRadius', '_kineticFactor', '_thermoFactor'), 'NeedleDescription': ('_eqRadius',), 'PlateDescription': ('_eqRadius',),
                 'CuboidalDescription': ('_eqRadius', '_thermoFactor')}[cfg['cls']]
    pub = {'_eqRadius': 'eqRadiusFactor', '_kineticFactor': 'kineticFactor', '_thermoFactor': 'thermoFactor'}
    for f in algebraic:
        ctx.prove('%s/continuous-at-1 (value at 1 = formula at 1)' % pub[f], eq(getattr(d, pub[f])(1), getattr(d, f)(one).get(0)))
    if cfg['cls'] == 'CuboidalDescription':
        # the cuboid kinetic factor is 0/0 at aspect 1; its limit there is 0.1 + 1.736/2 = 0.968.  The value the code uses at and below 1 is a closed
        # numeric expression: decided with outward-rounded interval enclosures of exp, sqrt, cbrt and log (continuity to within 1e-3)
        lim = Fraction(968, 1000)
        ctx.prove('kineticFactor/value-at-1-is-the-limit-of-the-formula (within 1e-3)', and_(d.kineticFactor(1) >= lim - Fraction(1, 1000), d.kineticFactor(1) <= lim + Fraction(1, 1000)))


@REG.contract('factors/array-calls', [SF + ':ShapeDescriptionBase.%s' % f for f in ('eqRadiusFactor', 'kineticFactor', 'thermoFactor', 'normalRadii', '_processAspectRatio')],
              configs=[dict(name='%s,%s' % (s, t), cls=s, dtype=t) for s in ('SphereDescription', 'NeedleDescription', 'PlateDescription', 'CuboidalDescription') for t in ('real', 'int')
                       if not (s == 'CuboidalDescription' and t == 'int')])
def c_array(ctx, it, cfg):
    """array and scalar calls agree entry by entry; the caller's array is not modified; integer-typed aspect ratios are not truncated"""
    d = it.get(SF, cfg['cls'])()
    n = integer(ctx, 'n', lambda v: v >= 2)
    arr = array(ctx, 'ar', (n,), dtype=cfg['dtype'])
    s = snapshot(arr)
    i = integer(ctx, 'i', lambda v: v >= 0)
    ctx.assume(lt(i, n))
    for f in ('eqRadiusFactor', 'kineticFactor', 'thermoFactor'):
        ra = getattr(d, f)(arr)
        rs = getattr(d, f)(arr.get(i))
        ctx.prove('%s/one-value-per-entry' % f, and_(isinstance(ra, ArrBase) and ra.ndim == 1, eq(ra.shape[0], n)) if isinstance(ra, ArrBase) else False)
        if isinstance(ra, ArrBase):
            ctx.prove('%s/entry-equals-the-scalar-call' % f, eq(ra.get(i), rs), inst=[i])
    # semi-axes: row i of the array call is the scalar call for entry i -- for EVERY array length (a (3, n) intermediate must not be confused with (n, 3) when n = 3)
    ra = d.normalRadii(arr)
    rs = d.normalRadii(arr.get(i))
    ok = isinstance(ra, ArrBase) and ra.ndim == 2
    ctx.prove('normalRadii/one-row-of-three-semi-axes-per-entry', and_(eq(ra.shape[0], n), eq(ra.shape[1], 3)) if ok else False)
    if ok:
        ctx.prove('normalRadii/row-equals-the-scalar-call', and_(*[eq(ra.get(i, k), rs.get(k) if rs.ndim == 1 else rs.get(0, k)) for k in range(3)]), inst=[i])
    # a second array with the same length and the same first and last entries: every entry is still the function of ITS aspect ratio (no stale results)
    arr2 = array(ctx, 'ar_second', (n,), dtype=cfg['dtype'])
    ctx.assume(and_(eq(arr2.get(0), arr.get(0)), eq(arr2.get(n - 1), arr.get(n - 1))))
    for f in ('eqRadiusFactor', 'kineticFactor', 'thermoFactor'):
        rb = getattr(d, f)(arr2)
        rs2 = getattr(d, f)(arr2.get(i))
        if isinstance(rb, ArrBase):
            ctx.prove('%s/second-array: entry-equals-the-scalar-call' % f, eq(rb.get(i), rs2), inst=[i])
    unchanged(ctx, 'arg:aspect-ratio-array', s, arr)


@REG.contract('ShapeFactor/wiring', [SF + ':ShapeFactor.%s' % f for f in ('__init__', 'setPrecipitateShape', 'setAspectRatio', '_scalarAspectRatioEquation', 'normalRadii',
              'eqRadiusFactor', 'kineticFactor', 'thermoFactor', '_findRcritScalar', 'description')], configs=[dict(name=s, shape=s) for s in ('sphere', 'needle', 'plate', 'cubic')])
def c_wiring(ctx, it, cfg):
    S = it.get(SF, 'ShapeFactor')
    ar = real(ctx, 'ar', lambda v: v >= 1)
    s = S(cfg['shape'], ar)
    d = s.description
    R = real(ctx, 'R', lambda v: v > 0)
    ctx.prove('description-selected-by-name', d.cls.name == {'sphere': 'SphereDescription', 'needle': 'NeedleDescription', 'plate': 'PlateDescription', 'cubic': 'CuboidalDescription'}[cfg['shape']])
    ctx.prove('constant-aspect-ratio-at-every-radius', eq(s.aspectRatio(R), ar))
    for f in ('eqRadiusFactor', 'kineticFactor', 'thermoFactor'):
        ctx.prove('%s/is-the-descriptions-factor-at-the-aspect-ratio' % f, eq(getattr(s, f)(R), getattr(d, f)(ar)))
    Rs = real(ctx, 'Rsphere', lambda v: v > 0)
    ctx.prove('constant-aspect: critical radius = R_sphere * thermodynamic factor', eq(s.findRcrit(Rs, 10 * Rs), Rs * d.thermoFactor(ar)))
    # the description object replaced through its public setter AFTER the aspect ratio was set: every factor and the critical radius follow the new description
    calls = []
    s.fields['_updateCallbacks'] = list(s.fields.get('_updateCallbacks', [])) + [lambda: calls.append(1)]
    other = {'sphere': 'PlateDescription', 'needle': 'PlateDescription', 'plate': 'NeedleDescription', 'cubic': 'NeedleDescription'}[cfg['shape']]
    d2 = it.get(SF, other)()
    s.description = d2
    ctx.prove('description-replaced/observers-notified', len(calls) == 1)
    for f in ('eqRadiusFactor', 'kineticFactor', 'thermoFactor'):
        ctx.prove('description-replaced/%s-is-the-new-descriptions-factor' % f, eq(getattr(s, f)(R), getattr(d2, f)(ar)))
    ctx.prove('description-replaced/critical-radius-uses-the-new-description', eq(s.findRcrit(Rs, 10 * Rs), Rs * d2.thermoFactor(ar)))


@REG.contract('_findRcrit/bisection', [SF + ':ShapeFactor._findRcrit'])
def c_bisect(ctx, it, cfg):
    """R = R_sphere * f(aspect(R)) for a radius-dependent aspect ratio: every return is a root to the tolerance, or the iteration limit"""
    import z3
    F = z3.Function('thermoF', sym.R, sym.R)

    def thermo(R):
        v = SV(F(sym.zterm(R, True)))
        ctx.assume(v >= 1)
        return v
    tol = real(ctx, 'tol', lambda v: v > 0)
    s = new_obj(it, SF, 'ShapeFactor', tol=tol, thermoFactor=thermo)
    Rs = real(ctx, 'RcritSphere', lambda v: v > 0)
    Rmax = real(ctx, 'Rmax')
    ctx.assume(gt(Rmax, Rs))
    g = lambda R: R / (Rs * thermo(R)) - 1
    ctx.assume(lt(g(Rs) * g(Rmax), 0))                    # a root is bracketed (sign change between the two ends)
    key = it.get(SF, 'ShapeFactor._findRcrit').key
    st = {}

    def inv(env, c):
        return [('bracket-ordered', and_(le(env['minR'], env['midR']), le(env['midR'], env['maxR']), le(Rs, env['minR']), le(env['maxR'], Rmax))),
                ('sign-change-stays-bracketed', lt(env['fMin'] * env['fMax'], 0)),
                ('residuals-are-those-of-the-bracket', and_(eq(env['fMin'], g(env['minR'])), eq(env['fMax'], g(env['maxR'])), eq(env['fMid'], g(env['midR'])))),
                ('midpoint', eq(2 * env['midR'], env['minR'] + env['maxR'])),
                ('iteration-count', and_(ge(env['n'], 0), lt(env['n'], 100)))]

    def havoc(env, c):
        for v in ('minR', 'maxR', 'midR', 'fMin', 'fMax', 'fMid'):
            env[v] = real(c, 'loop_' + v)
        env['n'] = integer(c, 'loop_n')

    def ghost(env, c):
        st['body_env'] = env                 # locals of the iteration that is executed on this path
        return dict(width=env['maxR'] - env['minR'], n=env['n'])

    def body_post(env, c, gh):
        c.prove('bisection/bracket-halves-each-iteration', eq(2 * (env['maxR'] - env['minR']), gh['width']))
        c.prove('bisection/counter-advances', eq(env['n'], gh['n'] + 1))

    def exit_post(env, c):
        st['exit'] = (env['midR'], env['fMid'])
    it.loop_specs[(key, 0)] = LoopSpec(inv, havoc, name='bisection', ghost=ghost, body_post=body_post, exit_post=exit_post)
    try:
        r = s._findRcrit(Rs, Rmax)
    except PathEnd:
        raise
    root = le(absv(g(r)), tol)
    if 'exit' in st:
        ctx.prove('normal-exit-returns-the-midpoint-with-small-residual', and_(eq(r, st['exit'][0]), root))
    elif 'body_env' in st:
        # returned from inside the loop: only the documented iteration limit may do that, and it returns the spherical radius
        ctx.prove('early-return-only-at-the-iteration-limit', and_(eq(st['body_env']['n'], 100), eq(r, Rs)))
    else:
        # returned without entering the loop: must already be a root
        ctx.prove('return-without-search-is-a-root', root)
    ctx.prove('result-within-the-initial-bracket', and_(ge(r, Rs), le(r, Rmax)))
