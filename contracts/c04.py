"""C04 -- diffusion conserves every component and honours boundary conditions (DESIGN 6, C04)."""
import itertools
from kvc.dsl import *
from kvc import sym

REG = Registry('C04')
REG.assumptions += [
    'number of independent components E <= 2 (configuration size; loops over elements unrolled); mesh size N symbolic (N >= 3)',
    'the flux routine of a model is opaque in the step contracts except for its shape and the boundary-face contract, which is '
    'proved for BoundaryConditions.applyBoundaryConditionsToFluxes and proved to be the last thing both _getFluxes do',
    '0 <= minComposition <= 1/2',
    'thermodynamics / homogenization back ends: arbitrary values (uninterpreted)',
]
DIFF = 'kawin.diffusion.Diffusion'
SP = 'kawin.diffusion.SinglePhase'
HOM = 'kawin.diffusion.Homogenization'
DP = 'kawin.diffusion.DiffusionParameters'
SOLV = 'kawin.solver.Solver'
ITER = 'kawin.solver.Iterators'
FLUX, COMP = 0, 1
ELS = ['A', 'B', 'C']


def bc_configs(E):
    out = []
    for types in itertools.product([FLUX, COMP], repeat=2 * E):
        out.append(dict(name='E=%d,' % E + ''.join('FC'[t] for t in types), E=E, types=types))
    return out


def mk_bc(ctx, it, E, types, tag='', rev=False):
    els = ELS[1:1 + E]
    # rev: the conditions were set in another order than the model's element order (dictionary insertion order differs from the element list)
    order = list(reversed(list(enumerate(els)))) if rev else list(enumerate(els))
    lt = {e: types[2 * k] for k, e in order}
    rt = {e: types[2 * k + 1] for k, e in order}
    lv = {e: real(ctx, '%sleftBC_%s' % (tag, e)) for k, e in order}
    rv = {e: real(ctx, '%srightBC_%s' % (tag, e)) for k, e in order}
    bc = new_obj(it, DP, 'BoundaryConditions', leftBCtype=lt, rightBCtype=rt, leftBC=lv, rightBC=rv)
    return bc, els


def bc_face_contract(bc, els, J, N):
    """what applyBoundaryConditionsToFluxes guarantees about the two boundary faces of J (E x N+1)"""
    out = []
    f = bc.fields
    for k, e in enumerate(els):
        if f['leftBCtype'][e] == FLUX:
            out.append(('left-flux[%s]' % e, eq(J.get(k, 0), f['leftBC'][e])))
        else:
            out.append(('left-composition[%s]: boundary face repeats its neighbour' % e, eq(J.get(k, 0), J.get(k, 1))))
        if f['rightBCtype'][e] == FLUX:
            out.append(('right-flux[%s]' % e, eq(J.get(k, N), f['rightBC'][e])))
        else:
            out.append(('right-composition[%s]: boundary face repeats its neighbour' % e, eq(J.get(k, N), J.get(k, N - 1))))
    return out


@REG.contract('applyBoundaryConditionsToFluxes', [DP + ':BoundaryConditions.applyBoundaryConditionsToFluxes'],
              configs=bc_configs(1) + bc_configs(2) + [dict(c, name=c['name'] + ',set-in-reverse-order', rev=True) for c in bc_configs(2)])
def c_bc(ctx, it, cfg):
    E = cfg['E']
    bc, els = mk_bc(ctx, it, E, cfg['types'], rev=cfg.get('rev', False))
    N = integer(ctx, 'N', lambda v: v >= 3)
    J = array(ctx, 'J', (E, N + 1))
    old = J.snap()
    pre = snapshot(bc)
    bc.applyBoundaryConditionsToFluxes(els, J)
    for name, t in bc_face_contract(bc, els, J, N):
        ctx.prove(name, t)
    for k in range(E):
        forall(ctx, 'interior-faces-untouched[%s]' % els[k], 1, N, lambda i: eq(J.get(k, i), old(k, i)))
    # each element uses its own side and value: with the interior untouched, the face values are functions of the element's own row
    frame(ctx, 'bc', bc, pre, modifies=[])
    ctx.prove('canary/left-face-always-prescribed', eq(J.get(0, 0), bc.fields['leftBC'][els[0]]), expect='refuted' if cfg['types'][0] == COMP else None)
    ctx.prove('canary/right-face-uses-left-type', eq(J.get(0, N), bc.fields['rightBC'][els[0]]) if cfg['types'][0] == FLUX else eq(J.get(0, N), J.get(0, N - 1)),
              expect='refuted' if cfg['types'][0] != cfg['types'][1] else None)


@REG.contract('setupDefaults+initial-profile', [DP + ':BoundaryConditions.setupDefaults', DP + ':BoundaryConditions._setupBoundary',
                                                DP + ':BoundaryConditions.applyBoundaryConditionsToInitialProfile', DP + ':BoundaryConditions.setBoundaryCondition'],
              configs=[dict(name='E=%d' % E, E=E) for E in (1, 2)])
def c_bc_defaults(ctx, it, cfg):
    E = cfg['E']
    els = ELS[1:1 + E]
    BC = it.get(DP, 'BoundaryConditions')
    bc = BC()
    bc.setupDefaults(els)
    f = bc.fields
    ctx.prove('default-is-closed-boundary', all(f['leftBCtype'][e] == FLUX and f['rightBCtype'][e] == FLUX and f['leftBC'][e] == 0 and f['rightBC'][e] == 0 for e in els))
    # a user setting survives setupDefaults, per element and per side
    bc2 = BC()
    v = real(ctx, 'v')
    bc2.setBoundaryCondition(BC.attrs['RIGHT'], BC.attrs['COMPOSITION_BC'], v, els[-1])
    bc2.setupDefaults(els)
    g = bc2.fields
    ctx.prove('user-setting-kept', g['rightBCtype'][els[-1]] == COMP and eq(g['rightBC'][els[-1]], v) and g['leftBCtype'][els[-1]] == FLUX and eq(g['leftBC'][els[-1]], 0))
    ctx.prove('other-elements-default', all(g['rightBCtype'][e] == FLUX and g['leftBCtype'][e] == FLUX for e in els[:-1]))
    N = integer(ctx, 'N', lambda v: v >= 3)
    x = array(ctx, 'x', (E, N))
    old = x.snap()
    bc2.applyBoundaryConditionsToInitialProfile(els, x, None)
    ctx.prove('fixed-node-gets-its-value', eq(x.get(E - 1, N - 1), v))
    for k in range(E):
        forall(ctx, 'other-nodes-untouched[%s]' % els[k], 0, N - 1 if k == E - 1 else N, lambda i: eq(x.get(k, i), old(k, i)))


# ---------------------------------------------------------------------------------------------------
class Constraints(object):
    pass


def mk_model(ctx, it, E, types, cls=(DIFF, 'DiffusionModel'), record=False, tag=''):
    N = integer(ctx, tag + 'N', lambda v: v >= 3)
    dz = real(ctx, tag + 'dz', lambda v: v > 0)
    z0 = real(ctx, tag + 'z0')
    bc, els = mk_bc(ctx, it, E, types, tag)
    minC = real(ctx, tag + 'minComposition', lambda v: v >= 0, lambda v: 2 * v <= 1)
    cons = new_obj(it, DP, 'DiffusionConstraints', minComposition=minC, vonNeumannThreshold=real(ctx, tag + 'vN', lambda v: v > 0),
                   maxCompositionChange=real(ctx, tag + 'maxdX', lambda v: v > 0))
    x = array(ctx, tag + 'x', (E, N))
    z = Arr((N,), lambda i: z0 + to_real(i) * dz, 'real', name='z')
    fields = dict(zlim=(z0, z0 + (N - 1) * dz), N=N, allElements=ELS[:E + 1], elements=els, phases=['P'], therm=None, z=z, dz=dz,
                  t=real(ctx, tag + 't_model'), temperatureParameters=None, boundaryConditions=bc, compositionProfile=None,
                  constraints=cons, hashTable=None, x=x, isSetup=True, couplingModels=[], _record=record,
                  _recordedX=None, _recordedTime=None)
    m = new_obj(it, cls[0], cls[1], **fields)
    return m, N, dz, bc, els, x, minC


def stub_fluxes(ctx, m, bc, els, N, log):
    """_getFluxes replaced by its contract: an (E, N+1) array whose boundary faces satisfy the BC face contract"""
    E = len(els)

    def _getFluxes(t, xc):
        J = array(ctx, 'J%d' % (len(log) + 1), (E, N + 1))
        log.append((t, xc, J))
        for name, c in bc_face_contract(bc, els, J, N):
            ctx.assume(c)
        return J
    m.fields['_getFluxes'] = _getFluxes


@REG.contract('getdXdt/divergence-telescopes', [DIFF + ':DiffusionModel.getdXdt'], configs=[dict(name='E=%d' % E, E=E) for E in (1, 2)])
def c_getdxdt(ctx, it, cfg):
    E = cfg['E']
    m, N, dz, bc, els, x, minC = mk_model(ctx, it, E, (FLUX,) * (2 * E))
    log = []
    stub_fluxes(ctx, m, bc, els, N, log)
    t = real(ctx, 't')
    X = [x]
    r = m.getdXdt(t, X)
    ctx.prove('one-state-array', isinstance(r, list) and len(r) == 1 and isinstance(r[0], ArrBase) and r[0].ndim == 2)
    d = r[0]
    ctx.prove('shape', and_(eq(d.shape[0], E), eq(d.shape[1], N)))
    ctx.prove('flux-routine-called-once-with-time-and-state', len(log) == 1 and eq(log[0][0], t) and log[0][1] is X)
    J = log[0][2]
    for k in range(E):
        forall(ctx, 'rate-is-minus-flux-divergence[%s]' % els[k], 0, N, lambda i: eq(d.get(k, i) * dz, -(J.get(k, i + 1) - J.get(k, i))))
        S = NP.sum(d[k])
        ctx.sum_lemma('mesh-sum-is-boundary-flux-balance[%s]' % els[k], [(dz, S)], lambda i: -J.get(k, i))
        ctx.prove('mesh-sum-is-boundary-flux-balance[%s]' % els[k], eq(S * dz, J.get(k, 0) - J.get(k, N)))
    ctx.prove('canary/sum-zero-regardless-of-boundary-flux', eq(NP.sum(d[0]), 0), expect='refuted')


def one_step(ctx, it, m, solver, iterator, t):
    """the statements of DESolver.solve's loop body that move the state (real code, real iterator)"""
    X0 = m.getCurrentX()[1]
    solver.fields['_X0'] = X0
    flat, dt = iterator(solver._getdXdt, t, solver._flattenX(X0), solver._updateX)
    Xn = solver._unflattenX(flat, X0)
    return X0, Xn, dt


@REG.contract('step/conservation-and-fixed-nodes', [DIFF + ':DiffusionModel.getdXdt', DIFF + ':DiffusionModel.flattenX', DIFF + ':DiffusionModel.unflattenX',
                                                    DIFF + ':DiffusionModel.getCurrentX', SOLV + ':DESolver._getdXdt', SOLV + ':DESolver._updateX',
                                                    ITER + ':ExplicitEulerIterator', ITER + ':RK4Iterator'],
              configs=[dict(name='%s,E=%d,%s' % (itn, E, ''.join('FC'[t] for t in types)), E=E, types=types, it=itn)
                       for itn in ('euler', 'rk4') for E, types in ((1, (FLUX, FLUX)), (1, (COMP, FLUX)), (1, (FLUX, COMP)), (1, (COMP, COMP)),
                                                                    (2, (FLUX, FLUX, COMP, FLUX)), (2, (FLUX, COMP, FLUX, FLUX)))])
def c_step(ctx, it, cfg):
    E, types = cfg['E'], cfg['types']
    m, N, dz, bc, els, x, minC = mk_model(ctx, it, E, types)
    log = []
    stub_fluxes(ctx, m, bc, els, N, log)
    dtm = real(ctx, 'dt_model')
    m.fields['getDt'] = lambda dXdt: dtm
    S = it.get(SOLV, 'DESolver')
    solver = S()
    solver.setdXdtFunctions(m.getdXdt, m.correctdXdt, m.getDt, m.flattenX, m.unflattenX)
    solver.fields['_dtmin'] = real(ctx, '_dtmin')
    solver.fields['_dtmax'] = real(ctx, '_dtmax')
    iterator = it.get(ITER, 'ExplicitEulerIterator' if cfg['it'] == 'euler' else 'RK4Iterator')
    x0 = x.snap()
    sx = snapshot(x)
    t = real(ctx, 't')
    X0, Xn, dt = one_step(ctx, it, m, solver, iterator, t)
    ctx.prove('state-structure-kept', isinstance(Xn, list) and len(Xn) == 1 and isinstance(Xn[0], ArrBase) and Xn[0].ndim == 2)
    xn = Xn[0]
    ctx.prove('state-shape-kept', and_(eq(xn.shape[0], E), eq(xn.shape[1], N)))
    Js = [e[2] for e in log]
    ctx.prove('stages', len(Js) == (1 if cfg['it'] == 'euler' else 4))
    if len(Js) not in (1, 4):
        return
    wts = [1] if len(Js) == 1 else [Fraction(1, 6), Fraction(1, 3), Fraction(1, 3), Fraction(1, 6)]
    for k in range(E):
        Jbar = lambda i, k=k: sum((w * J.get(k, i) for w, J in zip(wts, Js)), 0)
        Sn, So = NP.sum(xn[k]), NP.sum(Arr((N,), lambda i, k=k: x0(k, i)))
        ctx.sum_lemma('mesh-sum-changes-by-boundary-flux-balance[%s]' % els[k], [(dz, Sn), (-dz, So)], lambda i: -dt * Jbar(i))
        ctx.prove('mesh-sum-changes-by-boundary-flux-balance[%s]' % els[k], eq((Sn - So) * dz, dt * (Jbar(0) - Jbar(N))))
        lt, rt = types[2 * k], types[2 * k + 1]
        if lt == FLUX and rt == FLUX:
            lv, rv = bc.fields['leftBC'][els[k]], bc.fields['rightBC'][els[k]]
            ctx.prove('closed-or-prescribed-boundaries[%s]: change is (left - right)*dt/dz' % els[k], eq((Sn - So) * dz, dt * (lv - rv)))
        if lt == COMP:
            ctx.prove('fixed-left-node-keeps-its-composition[%s]' % els[k], eq(xn.get(k, 0), x0(k, 0)))
        if rt == COMP:
            ctx.prove('fixed-right-node-keeps-its-composition[%s]' % els[k], eq(xn.get(k, N - 1), x0(k, N - 1)))
    unchanged(ctx, 'model.x-not-modified-by-the-iterator', sx, x)
    ctx.prove('canary/interior-node-frozen', eq(xn.get(0, 1), x0(0, 1)), expect='refuted')


@REG.contract('postProcess/bounds', [DIFF + ':DiffusionModel.postProcess', DIFF + ':DiffusionModel.record', DIFF + ':DiffusionModel.getCurrentX'],
              configs=[dict(name='E=%d' % E, E=E) for E in (1, 2)])
def c_post(ctx, it, cfg):
    E = cfg['E']
    m, N, dz, bc, els, x, minC = mk_model(ctx, it, E, (FLUX,) * (2 * E))
    xnew = array(ctx, 'xnew', (E, N))
    time = real(ctx, 'time')
    pre = snapshot(m)
    X, stop = m.postProcess(time, [xnew])
    ctx.prove('never-requests-stop', stop is False)
    ctx.prove('time-recorded', eq(m.fields['t'], time))
    mx = m.fields['x']
    ctx.prove('returns-model-state', isinstance(X, list) and len(X) == 1 and X[0] is mx)
    for k in range(E):
        forall(ctx, 'within-[minC,1-minC][%s]' % els[k], 0, N, lambda i: between(minC, mx.get(k, i), 1 - minC))
        forall(ctx, 'values-inside-the-range-are-kept[%s]' % els[k], 0, N,
               lambda i: implies(between(minC, xnew.get(k, i), 1 - minC), eq(mx.get(k, i), xnew.get(k, i))))
    frame(ctx, 'self', m, pre, modifies=['t', 'x'])


class ProfileStub(object):
    def __init__(self, log):
        self.log = log

    def buildProfile(self, elements, x, z):
        self.log.append(('build', x))


@REG.contract('setup/idempotent-after-first-call', [DIFF + ':DiffusionModel.setup', DIFF + ':DiffusionModel.record'],
              configs=[dict(name='E=%d,%s' % (E, 'rec' if r else 'norec'), E=E, rec=r) for E in (1, 2) for r in (False, True)]
              + [dict(name='E=%d,norec,composition-boundaries' % E, E=E, rec=False, comp=True) for E in (1, 2)])
def c_setup(ctx, it, cfg):
    E = cfg['E']
    # with composition boundary conditions the two end nodes start at the boundary values, which may be exactly 0 or 1: they too must end up within the bounds
    m, N, dz, bc, els, x, minC = mk_model(ctx, it, E, ((COMP,) if cfg.get('comp') else (FLUX,)) * (2 * E), record=cfg['rec'])
    if cfg.get('comp'):
        for side in ('leftBC', 'rightBC'):          # boundary compositions are compositions: each within [0, 1] (0 and 1 included), their sum at most 1
            vals = [bc.fields[side][e] for e in els]
            ctx.assume(and_(*[and_(ge(v, 0), le(v, 1)) for v in vals]))
            ctx.assume(le(sum(vals, 0), 1))
    log = []
    m.fields['compositionProfile'] = ProfileStub(log)
    m.fields['isSetup'] = False
    m.fields['t'] = 0
    if cfg['rec']:
        m.fields['_recordedX'] = NP.zeros((1, E, N))
        m.fields['_recordedTime'] = NP.zeros(1)
    # admissible initial profile: every component and their sum within [0, 1]
    for k in range(E):
        pass
    xin = x.snap()
    for k in range(E):
        ctx.qfact('x-in-[0,1]', lambda i, k=k: and_(ge(xin(k, i), 0), le(xin(k, i), 1)))
    ctx.qfact('sum<=1', lambda i: le(sum((xin(k, i) for k in range(E)), 0), 1))
    if not getattr(ctx, 'replay', False):
        ctx.assume(not_(NP.any(NP.sum(x, axis=0) > 1)))
    m.setup()
    x1 = m.fields['x'].snap()
    ctx.prove('first-call/profile-built-once', len(log) == 1 and m.fields['isSetup'] is True)
    nE = E + 1
    for k in range(E):
        forall(ctx, 'first-call/at-least-minComposition[%s]' % els[k], 0, N, lambda i: ge(x1(k, i), minC))
        lo, hi = (1, N - 1) if cfg.get('comp') else (0, N)          # end nodes of a composition boundary start from the boundary value instead
        forall(ctx, 'first-call/shifted-by-n*minC-or-floored[%s]' % els[k], lo, hi,
               lambda i: eq(x1(k, i), ite(gt(xin(k, i), minC), vmax(xin(k, i) - nE * minC, minC), minC)))
    rec1 = m.fields['_recordedTime'].shape[0] if cfg['rec'] else None
    pre = snapshot(m)
    # ... any number of further solve calls: setup() is called again by GenericModel.solve
    m.fields['t'] = real(ctx, 't_later', lambda v: v > 0)
    pre = snapshot(m)
    m.setup()
    x2 = m.fields['x']
    ctx.prove('later-call/profile-not-rebuilt', len(log) == 1)
    for k in range(E):
        forall(ctx, 'later-call/composition-unchanged[%s]' % els[k], 0, N, lambda i: eq(x2.get(k, i), x1(k, i)))
    if cfg['rec']:
        ctx.prove('later-call/no-duplicate-record', eq(m.fields['_recordedTime'].shape[0], rec1))
    frame(ctx, 'later-call/self', m, pre, modifies=['x'])


# ---------------------------------------------------------------------------------------------------
class HashStub(object):
    def retrieveFromHashTable(self, x, T):
        return None

    def addToHashTable(self, x, T, v):
        pass


@REG.contract('SinglePhaseModel._getFluxes/ends-with-boundary-conditions', [SP + ':SinglePhaseModel._getFluxes', DP + ':BoundaryConditions.applyBoundaryConditionsToFluxes'],
              configs=[dict(name='E=%d,%s' % (E, ''.join('FC'[t] for t in types)), E=E, types=types)
                       for E, types in ((1, (FLUX, FLUX)), (1, (COMP, FLUX)), (1, (FLUX, COMP)), (2, (FLUX, COMP, COMP, FLUX)))])
def c_sp_fluxes(ctx, it, cfg):
    E, types = cfg['E'], cfg['types']
    m, N, dz, bc, els, x, minC = mk_model(ctx, it, E, types, cls=(SP, 'SinglePhaseModel'))
    Tz = array(ctx, 'T', (N,), fact=lambda v, i: v > 0)
    m.fields['temperatureParameters'] = lambda z, t: Tz
    m.fields['hashTable'] = HashStub()
    D = array(ctx, 'D', (N,) if E == 1 else (N, E, E))

    class Therm(object):
        def getInterdiffusivity(self, xx, TT, phase=None):
            return real(ctx, 'Dnode') if E == 1 else array(ctx, 'Dnode', (E, E))
    m.fields['therm'] = Therm()
    key = it.get(SP, 'SinglePhaseModel._getFluxes').key

    def inv(env, c):
        return []

    def havoc(env, c):
        env['d'] = D
        env['inter_diff'] = None
    it.loop_specs[(key, 0)] = LoopSpec(inv, havoc, name='node-loop')
    sx = snapshot(x)
    J = m._getFluxes(real(ctx, 't'), [x])
    ctx.prove('shape', and_(isinstance(J, ArrBase) and J.ndim == 2, eq(J.shape[0], E), eq(J.shape[1], N + 1)))
    for name, t in bc_face_contract(bc, els, J, N):
        ctx.prove(name, t)
    if E == 1:
        forall(ctx, 'interior-flux-is-minus-D-grad-x', 1, N, lambda i: eq(J.get(0, i) * dz * 2, -(D.get(i) + D.get(i - 1)) * (x.get(0, i) - x.get(0, i - 1))))
    unchanged(ctx, 'arg:x', sx, x)


def _interstitials(it):
    return it.load('kawin.thermo.Mobility').env['interstitials']


@REG.contract('HomogenizationModel._getFluxes/ends-with-boundary-conditions', [HOM + ':HomogenizationModel._getFluxes', DP + ':BoundaryConditions.applyBoundaryConditionsToFluxes'],
              configs=[dict(name='E=%d,%s' % (E, ''.join('FC'[t] for t in types)), E=E, types=types)
                       for E, types in ((1, (FLUX, FLUX)), (1, (COMP, FLUX)), (1, (FLUX, COMP)), (2, (FLUX, COMP, COMP, FLUX)))])
def c_hom_fluxes(ctx, it, cfg):
    E, types = cfg['E'], cfg['types']
    m, N, dz, bc, els, x, minC = mk_model(ctx, it, E, types, cls=(HOM, 'HomogenizationModel'))
    Tz = array(ctx, 'T', (N,), fact=lambda v, i: v > 0)
    m.fields['temperatureParameters'] = lambda z, t: Tz
    m.fields['hashTable'] = HashStub()
    m.fields['homogenizationParameters'] = new_obj(it, 'kawin.diffusion.HomogenizationParameters', 'HomogenizationParameters', eps=real(ctx, 'eps'))
    mob = array(ctx, 'avg_mob', (N, E + 1), fact=lambda v, i, j: v > 0)
    mu = array(ctx, 'mu', (N, E + 1))
    hk = it.load(HOM).env['computeHomogenizationFunction'].key
    it.summaries[hk] = lambda interp, f, args, kwargs: (mob, mu)
    sx = snapshot(x)
    J = m._getFluxes(real(ctx, 't'), [x])
    ctx.prove('shape', and_(isinstance(J, ArrBase) and J.ndim == 2, eq(J.shape[0], E), eq(J.shape[1], N + 1)))
    for name, t in bc_face_contract(bc, els, J, N):
        ctx.prove(name, t)
    unchanged(ctx, 'arg:x', sx, x)


# ---------------------------------------------------------------------------------------------------
_CONFIG_OPS = [('setBC', lambda ctx, m: m.setBC(COMP, real(ctx, 'lv'), FLUX, real(ctx, 'rv'), m.fields['elements'][0]), ['boundaryConditions']),
               ('setTemperature', lambda ctx, m: m.setTemperature(real(ctx, 'T')), ['temperatureParameters']),
               ('setTemperatureArray', lambda ctx, m: m.setTemperatureArray([0, 1], [real(ctx, 'T0'), real(ctx, 'T1')]), ['temperatureParameters']),
               ('setTemperatureFunction', lambda ctx, m: m.setTemperatureFunction(lambda z, t: 0), ['temperatureParameters']),
               ('setHashSensitivity', lambda ctx, m: m.setHashSensitivity(5), ['hashTable']),
               ('useCache', lambda ctx, m: m.useCache(False), ['hashTable']),
               ('clearCache', lambda ctx, m: m.clearCache(), ['hashTable']),
               ('disableRecording', lambda ctx, m: m.disableRecording(), ['_record'])]


@REG.contract('between-solve-calls/configuration-keeps-the-evolved-state',
              [DIFF + ':DiffusionModel.' + n for n, _, _ in _CONFIG_OPS], configs=[dict(name=n, op=k) for k, (n, _, _) in enumerate(_CONFIG_OPS)])
def c_config_ops(ctx, it, cfg):
    """changing boundary conditions / temperature / cache settings between solve calls must not touch the mesh, the clock or
    the set-up flag (otherwise the next solve call rebuilds or shifts the profile and the mesh sums jump)"""
    name, op, owned = _CONFIG_OPS[cfg['op']]
    m, N, dz, bc, els, x, minC = mk_model(ctx, it, 1, (FLUX, FLUX))
    m.fields['temperatureParameters'] = it.get(DP, 'TemperatureParameters')()
    m.fields['hashTable'] = it.get(DP, 'HashTable')()
    pre = snapshot(m)
    sub = {k: snapshot(m.fields[k]) for k in ('boundaryConditions', 'temperatureParameters', 'hashTable', 'constraints') if k not in owned}
    op(ctx, m)
    frame(ctx, 'self', m, pre, modifies=[k for k in owned if k.startswith('_')])
    for k, s in sub.items():
        frame(ctx, k, m.fields[k], s, modifies=[])
    ctx.prove('set-up-flag-kept', m.fields['isSetup'] is True)


# the mesh-sum balance of a recorded step needs the solver to advance the clock by exactly the step the compositions were advanced with:
# the clamp and loop contracts of the generic solver are part of this property too (shared with C05/C06)
from . import c05 as _c05
REG.contracts.append(_c05.c_clamp.contract)
REG.contracts.append(_c05.c_solve.contract)
