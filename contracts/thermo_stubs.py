"""stand-ins for pycalphad as far as kawin's own layer touches it structurally (names, state variables, composition sets).
Nothing here computes thermodynamics: every number is an arbitrary (uninterpreted) value supplied by the contract."""
from kvc.dsl import *
from kvc.arr import Opaque


class StateVar(object):
    def __init__(self, name):
        self.name = name

    def __repr__(self):
        return self.name
    __str__ = __repr__

    def __eq__(self, o):
        return isinstance(o, StateVar) and o.name == self.name

    def __hash__(self):
        return hash(('sv', self.name))


class Variables(object):
    T, P, N, GE = StateVar('T'), StateVar('P'), StateVar('N'), StateVar('GE')
    StateVariable = StateVar

    class IndependentPotential(StateVar):
        pass

    class SiteFraction(StateVar):
        pass

    class Species(object):
        def __init__(self, name):
            self.name = name

    @staticmethod
    def X(el):
        return ('X', el)

    @staticmethod
    def MU(el):
        return ('MU', el)


class FakePycalphad(object):
    variables = Variables
    Model = object
    Workspace = Opaque('pycalphad.Workspace')
    Database = Opaque('pycalphad.Database')
    equilibrium = Opaque('pycalphad.equilibrium')
    calculate = Opaque('pycalphad.calculate')


class FakeCoreUtils(object):
    @staticmethod
    def extract_parameters(p):
        return [], []

    @staticmethod
    def wrap_symbol(s):
        return s


def install(it):
    it.host_modules['pycalphad'] = FakePycalphad
    it.host_modules['pycalphad.variables'] = Variables
    it.host_modules['pycalphad.core.utils'] = FakeCoreUtils
    return Variables


class PhaseRecord(object):
    def __init__(self, phase_name, nonvacant_elements, v, variables=()):
        self.phase_name = phase_name
        self.nonvacant_elements = list(nonvacant_elements)
        self.state_variables = sorted([v.GE, v.N, v.P, v.T], key=str)
        self.variables = list(variables)


class CompSet(object):
    """composition set: X (alphabetical element order, as pycalphad keeps it), dof = [GE, N, P, T, site fractions...], NP"""
    def __init__(self, ctx, tag, phase_name, elements, v, T=None, nsf=0):
        self.phase_record = PhaseRecord(phase_name, sorted(elements), v)
        self.names = sorted(elements)
        self.X = [real(ctx, '%s_X_%s' % (tag, e), lambda x: x > 0, lambda x: x < 1) for e in self.names]
        Tv = T if T is not None else real(ctx, tag + '_T', lambda x: x > 0)
        self.dof = NP.array([real(ctx, tag + '_GE'), 1, 101325, Tv] + [real(ctx, '%s_y%d' % (tag, k)) for k in range(nsf)])
        self.NP = real(ctx, tag + '_NP', lambda x: x >= 0)
