"""C13 -- temperature schedules are followed faithfully (DESIGN 6, C13)."""
from kvc.dsl import *
from kvc import sym
from .c19 import mk_pdata, PHASES, ELEMS, ATTRS, pdata_shapes

REG = Registry('C13')
REG.assumptions += [
    'break-point schedules with 2 or 3 break points (list length is a configuration size); times strictly increasing',
    'lookup-table staleness: explicit Euler iterator (one growth-rate evaluation per accepted step); for RK4 the stage evaluations add their '
    'increments to the accumulator as well, so the bound is only implied for schedules monotone over a step (not proved)',
    'staleness is stated for the table entries rebuilt by _createLookupBinary; entries appended on a grid extension are computed at the current '
    'temperature (drift 0 at that step) and share the accumulator of the older entries (observation, not proved)',
    'the thermodynamics back end and mass balance / nucleation sub-steps are arbitrary callables',
]
PP = 'kawin.precipitation.PrecipitationParameters'
DP = 'kawin.diffusion.DiffusionParameters'
KB = 'kawin.precipitation.KWNBase'
KE = 'kawin.precipitation.KWNEuler'
SP = 'kawin.diffusion.SinglePhase'

FORMS = ['constant', 'breakpoints2', 'breakpoints3', 'function']


def _args(ctx, form, tag=''):
    if form == 'constant':
        return (real(ctx, tag + 'T'),), None
    if form.startswith('breakpoints'):
        k = int(form[-1])
        times = [real(ctx, tag + 'h%d' % i) for i in range(k)]
        temps = [real(ctx, tag + 'K%d' % i) for i in range(k)]
        for i in range(k - 1):
            ctx.assume(lt(times[i], times[i + 1]))
        return (times, temps), (times, temps)
    F = ctx.fresh_fn('userT', 1, 'real') if not getattr(ctx, 'replay', False) else None
    import z3

    def fn(t):
        return SV(z3.Function('userT', sym.R, sym.R)(sym.zterm(t, True)))
    return (fn,), None


def _spec(form, args, t):
    """the documented meaning of a schedule: constant; (hours, kelvin) break points, linear in between, end values outside; function"""
    if form == 'constant':
        return args[0]
    if form == 'function':
        return args[0](t)
    times, temps = args
    h = t / 3600
    r = temps[-1]
    for i in range(len(times) - 2, -1, -1):
        seg = temps[i] + (h - times[i]) * (temps[i + 1] - temps[i]) / (times[i + 1] - times[i])
        r = ite(lt(h, times[i + 1]), seg, r)
    return ite(lt(h, times[0]), temps[0], r)


@REG.contract('precipitation.TemperatureParameters/constructor-equals-setter', [PP + ':TemperatureParameters.__init__', PP + ':TemperatureParameters.setTemperatureParameters',
              PP + ':TemperatureParameters.setIsothermalTemperature', PP + ':TemperatureParameters.setTemperatureArray', PP + ':TemperatureParameters.setTemperatureFunction',
              PP + ':TemperatureParameters.__call__', KB + ':PrecipitateBase.setTemperature'],
              configs=[dict(name=f, form=f) for f in FORMS])
def c_tp(ctx, it, cfg):
    TP = it.get(PP, 'TemperatureParameters')
    args, _ = _args(ctx, cfg['form'])
    a = TP(*args)                      # given to the constructor
    b = TP()                           # built empty, configured through the setter
    b.setTemperatureParameters(*args)
    m = new_obj(it, KB, 'PrecipitateBase', temperatureParameters=TP())
    m.setTemperature(*args)            # through the model
    c = m.fields['temperatureParameters']
    t = real(ctx, 't')
    want = _spec(cfg['form'], args, t)
    for name, o in (('constructor', a), ('setter', b), ('model.setTemperature', c)):
        ctx.prove('%s/schedule-is-the-documented-function-of-time' % name, eq(o(t), want))
        ctx.prove('%s/isothermal-flag-iff-constant' % name, o.fields['_isIsothermal'] is (cfg['form'] == 'constant'))
    ctx.prove('equivalent-specifications-same-incubation-treatment', a.fields['_isIsothermal'] is b.fields['_isIsothermal'] is c.fields['_isIsothermal'])
    # re-specifying an object keeps flag and schedule in step
    for f2 in FORMS:
        args2, _ = _args(ctx, f2, tag='re_') if f2 != 'function' else _args(ctx, f2)
        b.setTemperatureParameters(*args2)
        ctx.prove('respecify-as-%s/flag-and-schedule-follow' % f2, and_(b.fields['_isIsothermal'] is (f2 == 'constant'), eq(b(t), _spec(f2, args2, t))))
    if cfg['form'].startswith('break'):
        ctx.prove('canary/breakpoints-in-seconds', eq(a(t), _spec(cfg['form'], args, t * 3600)), expect='refuted')
        # the same schedule given as numpy arrays that the caller keeps using (a second model, the diffusion model): the arrays are left as they are and every object
        # built from them follows the schedule
        ta, Ka = NP.array(list(args[0])), NP.array(list(args[1]))
        s_t, s_K = snapshot(ta), snapshot(Ka)
        a3 = TP(ta, Ka)
        b3 = TP()
        b3.setTemperatureParameters(ta, Ka)
        unchanged(ctx, 'array-arguments/callers-break-point-times', s_t, ta)
        unchanged(ctx, 'array-arguments/callers-break-point-temperatures', s_K, Ka)
        for name, o in (('first-object', a3), ('second-object-from-the-same-arrays', b3)):
            ctx.prove('array-arguments/%s-follows-the-schedule' % name, eq(o(t), want))
        # break points with REPEATED times (an instantaneous step, e.g. a quench) are legitimate input: whatever route the schedule takes, the interpolation
        # receives exactly the break points the user gave (equivalent specifications give identical runs)
        k = int(cfg['form'][-1])
        times = [real(ctx, 'nd_h%d' % i) for i in range(k)]
        temps = [real(ctx, 'nd_K%d' % i) for i in range(k)]
        for i in range(k - 1):
            ctx.assume(le(times[i], times[i + 1]))
        m2 = new_obj(it, KB, 'PrecipitateBase', temperatureParameters=TP())
        m2.setTemperature(times, temps)
        for name, o in (('constructor', TP(times, temps)), ('model.setTemperature', m2.fields['temperatureParameters'])):
            tp = o.fields['Tparameters']
            ok = isinstance(tp, tuple) and len(tp) == 2 and all(len(NP.shape(x)) == 1 and NP.shape(x)[0] == k for x in tp)
            ctx.prove('%s/non-decreasing-break-points-kept-as-given' % name, and_(ok, *[and_(eq(to_arr(tp[0]).get(i), times[i]), eq(to_arr(tp[1]).get(i), temps[i])) for i in range(k)]) if ok else False)


@REG.contract('diffusion.TemperatureParameters/constructor-equals-setter', [DP + ':TemperatureParameters.__init__', DP + ':TemperatureParameters.setIsothermalTemperature',
              DP + ':TemperatureParameters.setTemperatureArray', DP + ':TemperatureParameters.setTemperatureFunction', DP + ':TemperatureParameters.__call__'],
              configs=[dict(name=f, form=f) for f in FORMS if f != 'function'])
def c_dtp(ctx, it, cfg):
    TP = it.get(DP, 'TemperatureParameters')
    args, _ = _args(ctx, cfg['form'])
    a = TP(*args)
    b = TP()
    if cfg['form'] == 'constant':
        b.setIsothermalTemperature(*args)
    else:
        b.setTemperatureArray(*args)
    N = integer(ctx, 'N', lambda v: v >= 1)
    z = array(ctx, 'z', (N,))
    t = real(ctx, 't')
    want = _spec(cfg['form'], args, t)
    for name, o in (('constructor', a), ('setter', b)):
        r = o(z, t)
        ctx.prove('%s/one-temperature-per-node' % name, and_(isinstance(r, ArrBase) and r.ndim == 1, eq(r.shape[0], N)))
        forall(ctx, '%s/every-node-follows-the-schedule' % name, 0, N, lambda i: eq(r.get(i), want))
    # re-specifying an object that has already been evaluated: the next evaluation at the SAME (z, t) follows the new schedule
    for f2 in [f for f in FORMS if f != 'function']:
        args2, _ = _args(ctx, f2, tag='re_%s_' % f2)
        if f2 == 'constant':
            b.setIsothermalTemperature(*args2)
        else:
            b.setTemperatureArray(*args2)
        r2 = b(z, t)
        want2 = _spec(f2, args2, t)
        forall(ctx, 'respecify-as-%s/same-point-follows-the-new-schedule' % f2, 0, N, lambda i: eq(r2.get(i), want2))
    # one object used on two meshes of the same size: every call sees the mesh it was given (the schedule may depend on position)
    calls = []
    c = TP()
    c.setTemperatureFunction(lambda zz, tt: (calls.append((zz, tt)), array(ctx, 'Tfun%d' % len(calls), (N,)))[1])
    z2 = array(ctx, 'z_other', (N,))
    r_a, r_b = c(z, t), c(z2, t)
    ctx.prove('function-form/evaluated-for-every-mesh-it-is-asked-for', len(calls) == 2 and calls[0][0] is z and calls[1][0] is z2 and r_a is not r_b)


# ---------------------------------------------------------------------------------------------------
def mk_precip(ctx, it, P=1, E=1, cls=(KE, 'PrecipitateModel'), facts=None):
    pd, n = mk_pdata(ctx, it, P, E, facts=facts)
    import z3
    Tf = z3.Function('schedule', sym.R, sym.R)
    log = []

    def tfun(t):
        log.append(('T', t))
        return SV(Tf(sym.zterm(t, True)))
    # the isothermal flag is arbitrary: a constant schedule may have been replaced by another constant between two solve calls,
    # so also an 'isothermal' step must read the schedule (the history rows are arbitrary, they need not lie on the current schedule)
    tp = new_obj(it, PP, 'TemperatureParameters', Tfunction=tfun, Tparameters=None, _isIsothermal=boolean(ctx, 'isothermal_flag'))
    m = new_obj(it, cls[0], cls[1], phases=to_arr(PHASES[:P]), elements=ELEMS[:E], pData=pd, temperatureParameters=tp, numberOfElements=E,
                _currY=None, couplingModels=[], _stoppingConditions=[], _stopConditionMode=[], growth=None)
    return m, pd, n, Tf, log


@REG.contract('recorded-temperature-is-schedule-at-recorded-time', [KB + ':PrecipitateBase._calculateDependentTerms', KB + ':PrecipitateBase.postProcess',
              KB + ':PrecipitateBase.getdXdt', KB + ':PrecipitateBase.preProcess', KB + ':PrecipitateBase._appendArrays', PP + ':PrecipitationData.copySlice',
              PP + ':PrecipitationData.appendToArrays', PP + ':PrecipitationData.__init__', PP + ':PrecipitationData.reset'],
              configs=[dict(name='P=%d,E=%d,stages=%d' % (P, E, s), P=P, E=E, stages=s) for P, E in ((1, 1), (2, 2)) for s in (1, 4)])
def c_record(ctx, it, cfg):
    """one accepted step of either iterator: preProcess; getdXdt at the stage times; postProcess(t_new)"""
    P, E = cfg['P'], cfg['E']
    m, pd, n, Tf, log = mk_precip(ctx, it, P, E, cls=(KB, 'PrecipitateBase'))
    calls = []
    m.fields['_processX'] = lambda x: calls.append('processX')
    m.fields['_calcMassBalance'] = lambda t, x, Y: (calls.append('mass'), Y)[1]
    m.fields['_calcNucleationRate'] = lambda t, x, Y: (calls.append('nuc'), Y)[1]
    m.fields['_growthRate'] = lambda Y: (calls.append('growth'), ('G', Y))[1]
    m.fields['_getdXdt'] = lambda t, x, Y, g: 'dxdt'
    m.fields['_updateParticleSizeDistribution'] = lambda t, x: calls.append('psd')
    m.fields['getCurrentX'] = lambda: (0, 'X')
    old = {k: pd.fields[k].snap() for k in ATTRS}
    L = n + 1
    m.preProcess()
    x = object()
    tn = pd.fields['time'].get(n)
    tnew = real(ctx, 't_new')
    stage_times = [tn] if cfg['stages'] == 1 else [tn, real(ctx, 't_s2'), real(ctx, 't_s3'), real(ctx, 't_s4')]
    for ts in stage_times:
        m.getdXdt(ts, x)
    X, stop = m.postProcess(tnew, x)
    shapes = pdata_shapes(L + 1, P, E)
    ctx.prove('step-counter-advances-by-one', eq(pd.fields['n'], n + 1))
    for k in ATTRS:
        a = pd.fields[k]
        ok = isinstance(a, ArrBase) and a.ndim == len(shapes[k])
        ctx.prove('histories-aligned/%s-has-one-row-per-step' % k, and_(ok, *[eq(d, e) for d, e in zip(a.shape, shapes[k])]) if ok else False)
    ctx.prove('recorded-time-is-the-accepted-time', eq(pd.fields['time'].get(n + 1), tnew))
    ctx.prove('recorded-temperature-is-schedule-at-that-time', eq(pd.fields['temperature'].get(n + 1), SV(Tf(sym.zterm(tnew, True)))))
    for k in ('time', 'temperature'):
        forall(ctx, 'earlier-rows-kept/%s' % k, 0, L, lambda i, k=k: eq(pd.fields[k].get(i), old[k](i)))
    forall(ctx, 'earlier-rows-kept/composition', 0, L, lambda i: and_(*[eq(pd.fields['composition'].get(i, e), old['composition'](i, e)) for e in range(E)]))
    ctx.prove('canary/temperature-of-previous-step-recorded', eq(pd.fields['temperature'].get(n + 1), old['temperature'](n)), expect='refuted')


@REG.contract('setup/initial-temperature', [KB + ':PrecipitateBase.setup'], configs=[dict(name='E=1', E=1)])
def c_setup(ctx, it, cfg):
    m, pd, n, Tf, log = mk_precip(ctx, it, 1, cfg['E'], cls=(KB, 'PrecipitateBase'))
    ctx.assume(eq(n, 0))

    class Nuc(object):
        gbEnergy = None

    class Prec(object):
        def __init__(self):
            self.nucleation = Nuc()
            self.validated = 0

        def validate(self):
            self.validated += 1

    class Mat(object):
        GBenergy = real(ctx, 'GBenergy')
        initComposition = real(ctx, 'x0')
    m.fields['precipitateParameters'] = [Prec()]
    m.fields['matrixParameters'] = Mat()
    m.fields['_isSetup'] = False
    m.setup()
    ctx.prove('temperature[0]-is-schedule-at-time[0]', eq(pd.fields['temperature'].get(0), SV(Tf(sym.zterm(pd.fields['time'].get(0), True)))))
    ctx.prove('composition[0]-is-initial-composition', eq(pd.fields['composition'].get(0, 0), Mat.initComposition))
    before = snapshot(pd)
    m.setup()
    frame(ctx, 'second-call-changes-nothing/pData', pd, before, modifies=[])


# ---------------------------------------------------------------------------------------------------
@REG.contract('binary-lookup-table/staleness-bound', [KE + ':PrecipitateModel._growthRateBinary', KE + ':PrecipitateModel._createLookupBinary'],
              configs=[dict(name='P=1', P=1), dict(name='P=2', P=2)])
def c_lookup(ctx, it, cfg):
    """ghost T_tab = temperature at which the table in use was computed.  Invariant between steps (Euler iterator):
    dTemp = temperature[n] - T_tab  and  |dTemp| <= maxTempChange.  One call of _growthRateBinary for the next step keeps it."""
    P = cfg['P']
    m, pd, n, Tf, log = mk_precip(ctx, it, P, 1)
    m.fields['constraints'] = symbolise(ctx, it.get(PP, 'Constraints')(), 'constraints.')
    maxdT = m.fields['constraints'].fields['maxTempChange']
    T_tab = real(ctx, 'T_tab')
    Tn = pd.fields['temperature'].get(n)
    m.fields['dTemp'] = Tn - T_tab
    ctx.assume(le(absv(Tn - T_tab), maxdT))
    # the table rebuild: the real _createLookupBinary is executed with an arbitrary back end
    built = []

    class Therm(object):
        def getInterfacialComposition(self, T, g, precPhase=None):
            built.append(T)
            k = len(built)
            if isinstance(g, ArrBase):
                return array(ctx, 'xa%d' % k, g.shape), array(ctx, 'xb%d' % k, g.shape)
            return real(ctx, 'xa%d' % k), real(ctx, 'xb%d' % k)
    m.fields['therm'] = Therm()
    bins = integer(ctx, 'bins', lambda v: v >= 1)
    mn, w = real(ctx, 'pmin', lambda v: v > 0), real(ctx, 'pw', lambda v: v > 0)

    class PBMs(object):
        def __init__(self):
            self.bins = bins
            self.PSDbounds = Arr((bins + 1,), lambda i: mn + to_real(i) * w, 'real')
    m.fields['PBM'] = [PBMs() for _ in range(P)]

    class Prec(object):
        def __init__(self, k):
            self.phase = PHASES[k]
            self.RdrivingForceLimit = 0
    m.fields['precipitateParameters'] = [Prec(k) for k in range(P)]
    m.fields['particleGibbs'] = lambda radius=None, phase=None: array(ctx, 'gibbs%d' % len(built), radius.shape)
    m.fields['_singleGrowthBinary'] = lambda p, Y: 'growth%d' % p
    old_eq = pd.fields['xEqAlpha'].snap()
    Y = pd.copySlice(n)
    Tnew = real(ctx, 'T_new')
    Y.fields['temperature'] = NP.array([Tnew])
    growth, Y2 = m._growthRateBinary(Y)
    rebuilt = len(built) > 0
    T_tab2 = Tnew if rebuilt else T_tab
    ctx.prove('rebuilt-exactly-when-drift-exceeds-limit', eq(rebuilt, gt(absv(Tnew - T_tab), maxdT)) if not isinstance(gt(absv(Tnew - T_tab), maxdT), bool) else True)
    ctx.prove('table-rebuilt-at-the-new-temperature', all(eq(T, Tnew) is True or isinstance(eq(T, Tnew), SV) for T in built) and and_(*[eq(T, Tnew) for T in built]))
    ctx.prove('table-in-use-is-within-maxTempChange-of-the-new-temperature', le(absv(Tnew - T_tab2), maxdT))
    ctx.prove('accumulator-tracks-drift-since-last-rebuild', eq(m.fields['dTemp'], Tnew - T_tab2))
    if not rebuilt:
        xe = Y2.fields['xEqAlpha']
        ctx.prove('equilibrium-compositions-reused-from-the-previous-step', and_(*[eq(xe.get(0, p, 0), old_eq(n, p, 0)) for p in range(P)]))
    ctx.prove('one-growth-rate-per-phase', growth == ['growth%d' % p for p in range(P)])
    ctx.prove('canary/never-rebuilt', not rebuilt, expect='refuted')


@REG.contract('diffusion/_getFluxes-reads-temperature-at-the-given-time', [SP + ':SinglePhaseModel._getFluxes'])
def c_diff_T(ctx, it, cfg):
    from . import c04
    m, N, dz, bc, els, x, minC = c04.mk_model(ctx, it, 1, (0, 0), cls=(SP, 'SinglePhaseModel'))
    calls = []
    Tz = array(ctx, 'T', (N,), fact=lambda v, i: v > 0)

    def tfun(z, t):
        calls.append((z, t))
        return Tz
    m.fields['temperatureParameters'] = tfun
    m.fields['hashTable'] = c04.HashStub()
    seen = []

    class Therm(object):
        def getInterdiffusivity(self, xx, TT, phase=None):
            seen.append(TT)
            return real(ctx, 'Dnode')
    m.fields['therm'] = Therm()
    key = it.get(SP, 'SinglePhaseModel._getFluxes').key
    D = array(ctx, 'D', (N,))
    ghost = {}

    def havoc(env, c):
        env['d'] = D
        env['inter_diff'] = None

    def body_post(env, c, g):
        c.prove('node-loop/diffusivity-evaluated-at-the-nodes-own-temperature', len(seen) >= 1 and eq(seen[-1], Tz.get(env['i'])))
    it.loop_specs[(key, 0)] = LoopSpec(lambda env, c: [], havoc, name='node-loop', body_post=body_post)
    t = real(ctx, 't')
    m._getFluxes(t, [x])
    ctx.prove('schedule-evaluated-once-at-the-time-given', len(calls) == 1 and eq(calls[0][1], t) and calls[0][0] is m.fields['z'])


@REG.contract('_updateParticleSizeDistribution/tables-and-growth-follow-every-grid-change', [KE + ':PrecipitateModel._updateParticleSizeDistribution'],
              configs=[dict(name='binary', E=1), dict(name='ternary', E=2)], max_paths=400)
def c_update_psd(ctx, it, cfg):
    """after a step, whenever the size classes of ANY phase changed, the interfacial-composition tables are rebuilt for the temperature of the step just recorded
    (pData.temperature[pData.n]) and the growth rates are recomputed after that change -- for every phase, not only the last one"""
    from .kwn import mk_kwn
    P, E = 2, cfg['E']
    m, pd, n = mk_kwn(ctx, it, P, E)
    log = []
    Tn = pd.fields['temperature'].get(n)

    class PBMStub(object):
        def __init__(self, p):
            self.p = p
            self.bins = integer(ctx, 'bins%d' % p, lambda v: v >= 2)
            self.PSD = array(ctx, 'psd%d' % p, (self.bins,), fact=lambda v, i: v >= 0)
            self.PSDsize = array(ctx, 'size%d' % p, (self.bins,), fact=lambda v, i: v > 0)
            self.PSDbounds = array(ctx, 'bounds%d' % p, (self.bins + 1,), fact=lambda v, i: v > 0)
            self.change = boolean(ctx, 'grid_of_phase%d_changes' % p)
            self.remesh = boolean(ctx, 'phase%d_remeshed_rather_than_extended' % p)

        def reset(self):
            log.append(('reset', self.p))

        def UpdatePBMEuler(self, t, x):
            log.append(('update', self.p))

        def adjustSizeClassesEuler(self, flag):
            log.append(('adjust', self.p, self.change))
            if not self.change:
                return False, None
            if self.remesh:
                return True, None
            return True, integer(ctx, 'added_from%d' % self.p, lambda v: v >= 1, lambda v: v <= self.bins)

        def getDissolutionIndex(self, maxDiss, rIdx):
            return integer(ctx, 'diss%d' % self.p, lambda v: v >= 0)
    pbms = [PBMStub(p) for p in range(P)]
    m.fields['PBM'] = pbms
    m.fields['PSDXalpha'] = [array(ctx, 'xa%d' % p, (integer(ctx, 'oldlen%d' % p, lambda v: v >= 1, lambda v, p=p: v <= pbms[p].bins + 1), E)) for p in range(P)]
    m.fields['PSDXbeta'] = [array(ctx, 'xb%d' % p, (m.fields['PSDXalpha'][p].shape[0], E)) for p in range(P)]
    m.fields['growth'] = [array(ctx, 'g%d' % p, (pbms[p].bins + 1,)) for p in range(P)]
    m.fields['eqAspectRatio'] = [None] * P
    ctx.assume(and_(*[pd.fields['drivingForce'].get(n, p) >= 0 for p in range(P)]))       # the phase-reset branch has its own contract (C03)

    class Therm(object):
        def getInterfacialComposition(self, T, g, precPhase=None):
            log.append(('tables-extended', precPhase, T))
            return array(ctx, 'nxa_%s' % precPhase, g.shape), array(ctx, 'nxb_%s' % precPhase, g.shape)
    m.fields['therm'] = Therm()
    m.fields['particleGibbs'] = lambda radius=None, phase=None: array(ctx, 'gibbs_%s' % phase, radius.shape)
    m.fields['_createLookupBinary'] = lambda T: log.append(('tables-rebuilt', T))

    made = []

    def growthRate(Y):
        log.append(('growth', Y.fields['temperature'].get(0)))
        g = [array(ctx, 'newgrowth%d_%d' % (len(made), p), (pbms[p].bins + 1,)) for p in range(P)]
        made.append(g)
        return g, Y
    m.fields['_growthRate'] = growthRate
    x = [array(ctx, 'x%d' % p, (pbms[p].bins,), fact=lambda v, i: v >= 0) for p in range(P)]
    m._updateParticleSizeDistribution(real(ctx, 't'), x)
    kinds = [e[0] for e in log]
    for p in range(P):
        ch = [e for e in log if e[0] == 'adjust' and e[1] == p]
        ctx.prove('phase%d/adjusted-once' % p, len(ch) == 1)
        if pbms[p].change:
            k = log.index(ch[0])
            after = [e for e in log[k + 1:] if e[0] == 'growth']
            ctx.prove('phase%d/growth-recomputed-after-its-grid-changed' % p, len(after) >= 1)
            ctx.prove('phase%d/growth-recomputed-for-the-state-just-recorded' % p, len(after) >= 1 and all(eq(e[1], Tn) is True or (not isinstance(eq(e[1], Tn), bool) and ctx.prove('phase%d/growth-state-temperature' % p, eq(e[1], Tn))) for e in after[:1]))
    for e in log:
        if e[0] in ('tables-rebuilt', 'tables-extended'):
            ctx.prove('tables-computed-at-the-temperature-of-the-recorded-step', eq(e[-1], Tn))
    if not any(o.change for o in pbms):
        ctx.prove('no-grid-change-no-recomputation', 'growth' not in kinds and 'tables-rebuilt' not in kinds)
    last_growth = [e for e in log if e[0] == 'growth']
    if last_growth:
        ctx.prove('growth-field-is-the-latest-recomputation', m.fields['growth'] is made[-1])
