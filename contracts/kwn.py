"""shared construction of PrecipitateModel states for the model-level properties (C01, C02, C03, C11, C12)"""
from kvc.dsl import *
from kvc import sym
from .common import pbm_obj, PBM_MOD
from .c19 import mk_pdata, PHASES, ELEMS, ATTRS, pdata_shapes

PP = 'kawin.precipitation.PrecipitationParameters'
KB = 'kawin.precipitation.KWNBase'
KE = 'kawin.precipitation.KWNEuler'


class Volume(object):
    def __init__(self, vm):
        self.Vm = vm


class Nucleation(object):
    def __init__(self, ctx, tag):
        self.volumeFactor = real(ctx, tag + 'volumeFactor', lambda v: v > 0)
        self.areaFactor = real(ctx, tag + 'areaFactor', lambda v: v > 0)
        self.gbRemoval = real(ctx, tag + 'gbRemoval', lambda v: v >= 0)
        self.GBk = real(ctx, tag + 'GBk', lambda v: v >= 0)
        self.description = None


class Shape(object):
    def __init__(self, ctx, tag):
        self.ctx, self.tag = ctx, tag

    def aspectRatio(self, R):
        if isinstance(R, ArrBase):
            return array(self.ctx, self.tag + 'AR', R.shape, fact=lambda v, *i: v >= 1)
        return real(self.ctx, self.tag + 'AR_s', lambda v: v >= 1)


class Prec(object):
    """precipitate parameters as far as the mass balance / transport code reads them: arbitrary positive values"""
    def __init__(self, ctx, p, infinite=True):
        tag = 'prec%d_' % p
        self.phase = PHASES[p]
        self.name = PHASES[p]
        self.volume = Volume(real(ctx, tag + 'Vm', lambda v: v > 0))
        self.nucleation = Nucleation(ctx, tag)
        self.shapeFactor = Shape(ctx, tag)
        self.infinitePrecipitateDiffusion = infinite
        self.parentPhases = []
        self.RdrivingForceLimit = 0
        self.Rmin = real(ctx, tag + 'Rmin', lambda v: v > 0)
        self.calculateAspectRatio = False


class Matrix(object):
    def __init__(self, ctx):
        self.volume = Volume(real(ctx, 'VmAlpha', lambda v: v > 0))


def mk_kwn(ctx, it, P, E, infinite=True, L=None, facts=None):
    """a PrecipitateModel in an arbitrary mid-run state"""
    pd, n = mk_pdata(ctx, it, P, E, L=L, facts=facts)
    pbms, xb = [], []
    for p in range(P):
        o, w = pbm_obj(ctx, it, tag='p%d_' % p)
        pbms.append(o)
        xb.append(array(ctx, 'PSDXbeta%d' % p, (o.bins + 1, E), fact=lambda v, i, e: and_(v >= 0, v <= 1)))
    cons = symbolise(ctx, it.get(PP, 'Constraints')(), 'constraints.', keep=('minComposition',))
    cons.fields['minComposition'] = real(ctx, 'constraints.minComposition', lambda v: v >= 0)
    inf = infinite if isinstance(infinite, (list, tuple)) else [infinite] * P
    m = new_obj(it, KE, 'PrecipitateModel', phases=to_arr(PHASES[:P]), elements=ELEMS[:E], pData=pd, PBM=pbms, numberOfElements=E,
                precipitateParameters=[Prec(ctx, p, inf[p]) for p in range(P)], matrixParameters=Matrix(ctx), constraints=cons,
                PSDXbeta=xb, PSDXalpha=[array(ctx, 'PSDXalpha%d' % p, (pbms[p].bins + 1, E)) for p in range(P)],
                RdrivingForceIndex=to_arr([integer(ctx, 'Rdf%d' % p, lambda v: v >= 0) for p in range(P)]),
                dissolutionIndex=to_arr([integer(ctx, 'diss%d' % p, lambda v: v >= 0) for p in range(P)]),
                couplingModels=[], _stoppingConditions=[], _stopConditionMode=[], _currY=None, growth=None, therm=None, removeCache=False,
                eqAspectRatio=[None] * P, dTemp=0)
    return m, pd, n


def mk_slice(ctx, it, P, E, tag='Y_'):
    """the one-row PrecipitationData the model carries through a step"""
    Y, _ = mk_pdata(ctx, it, P, E, tag=tag, L=1)
    return Y
