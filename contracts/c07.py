"""C07 -- size-class transport is conservative and bounded (DESIGN 6, C07)."""
from kvc.dsl import *
from .common import *

REG = Registry('C07')
REG.assumptions += [
    'class invariant PBM_INV of PopulationBalanceModel at entry (established/preserved: see C08 contracts)',
    'len(flux) = bins+1, len(psd) = bins, psd >= 0 (shape/type preconditions taken from the call sites in KWNEuler/GrainGrowth)',
]
T = PBM_MOD + ':PopulationBalanceModel.'


def _nuc_class(o, nucRadius):
    """index of the class the code's rule `argmax(bounds > r) - 1` (python negative wrap) selects"""
    bins = o.fields['bins']
    am = NP.argmax(o.fields['PSDbounds'] > nucRadius)
    return ite(am - 1 < 0, am - 1 + bins, am - 1), am


@REG.contract('getdXdtEuler', [T + 'getdXdtEuler'], configs=[dict(name=''), dict(name='after-an-earlier-evaluation', prev=True)])
def c_getdXdt(ctx, it, cfg):
    o, w = pbm_obj(ctx, it)
    bins = o.bins
    if cfg.get('prev'):
        # the rate is evaluated several times per step (RK4 stages, step correction): whatever an earlier evaluation left in the flux buffer must not matter
        o.fields['_netFlux'] = array(ctx, 'netFlux_left_by_an_earlier_call', (bins + 1,))
    flux = array(ctx, 'flux', (bins + 1,))
    psd = array(ctx, 'psd', (bins,), fact=lambda v, i: v >= 0)
    nucRate = real(ctx, 'nucRate')
    nucRadius = real(ctx, 'nucRadius')
    pre = snapshot(o)
    s_flux, s_psd = snapshot(flux), snapshot(psd)
    res = o.getdXdtEuler(flux, nucRate, nucRadius, psd)
    nf = o.fields['_netFlux']
    ctx.prove('result-shape', and_(isinstance(res, ArrBase) and res.ndim == 1, eq(res.shape[0], bins)))
    ctx.prove('netFlux-shape', and_(isinstance(nf, ArrBase) and nf.ndim == 1, eq(nf.shape[0], bins + 1)))
    b = o.PSDbounds
    dR = lambda j: b.get(j + 1) - b.get(j)

    def upwind(j):
        f = flux.get(j)
        neg = ite(f < 0, f * psd.get(j) / dR(j), 0)          # dissolution: leaves class j through its lower face
        pos = ite(f > 0, f * psd.get(j - 1) / dR(j - 1), 0)  # growth: leaves class j-1 through its upper face
        return eq(nf.get(j), ite(j < bins, neg, 0) + ite(j >= 1, pos, 0))
    forall(ctx, 'upwind-face-flux', 0, bins + 1, upwind)
    k, am = _nuc_class(o, nucRadius)
    forall(ctx, 'exchange-cancels', 0, bins, lambda i: eq(res.get(i), nf.get(i) - nf.get(i + 1) + ite(eq(i, k), nucRate, 0)), inst=[k])
    S = NP.sum(res)
    ctx.sum_lemma('conservation', [(1, S)], lambda i: -nf.get(i) + ite(i > k, nucRate, 0), inst=[k])
    ctx.prove('conservation', eq(S, nf.get(0) - nf.get(bins) + nucRate))
    ctx.prove('nucleation-class-contains-radius',
              implies(and_(le(o.min, nucRadius), lt(nucRadius, o.max)), and_(le(b.get(k), nucRadius), lt(nucRadius, b.get(k + 1)))), inst=[k, k + 1, am, am - 1])
    ctx.prove('out-of-grid-nuclei-go-to-last-class', implies(or_(lt(nucRadius, o.min), ge(nucRadius, o.max)), eq(k, bins - 1)), inst=[k, 0, bins])
    # step-limit consequence (DESIGN C07 clause 5)
    dt = real(ctx, 'dt', lambda v: v > 0)
    rho = real(ctx, 'rho', lambda v: v > 0, lambda v: 2 * v < 1)

    def stays_nonneg(i):
        ok = and_(le(absv(flux.get(i)) * dt, rho * dR(i)), le(absv(flux.get(i + 1)) * dt, rho * dR(i)), ge(nucRate, 0))
        lo = ge(dt * nf.get(i), -rho * psd.get(i))          # what leaves through the lower face
        hi = le(dt * nf.get(i + 1), rho * psd.get(i))        # what leaves through the upper face
        fin = and_(ge(psd.get(i) + dt * res.get(i), (1 - 2 * rho) * psd.get(i)), ge(psd.get(i) + dt * res.get(i), 0))
        return ok, lo, hi, fin
    steps(ctx, 'step-limit-keeps-classes-nonnegative', 0, bins, stays_nonneg, inst=[k])
    frame(ctx, 'self', o, pre, modifies=['_netFlux'])
    unchanged(ctx, 'arg:flux', s_flux, flux)
    unchanged(ctx, 'arg:psd', s_psd, psd)
    ctx.prove('canary/nuclei-lost', eq(S, nf.get(0) - nf.get(bins)), expect='refuted')
    forall(ctx, 'canary/downwind', 0, bins + 1, lambda j: eq(nf.get(j), ite(j < bins, flux.get(j) * psd.get(j) / dR(j), 0)), expect='refuted')


@REG.contract('correctdXdtEuler', [T + 'correctdXdtEuler'])
def c_correct(ctx, it, cfg):
    o, w = pbm_obj(ctx, it)
    bins = o.bins
    nf0 = array(ctx, 'netFlux', (bins + 1,))
    o.fields['_netFlux'] = nf0
    old = nf0.snap()
    flux = array(ctx, 'flux', (bins + 1,))
    psd = array(ctx, 'psd', (bins,), fact=lambda v, i: v >= 0)
    nucRate = real(ctx, 'nucRate')
    nucRadius = real(ctx, 'nucRadius')
    dt = real(ctx, 'dt', lambda v: v > 0)
    pre = snapshot(o)
    s_flux, s_psd = snapshot(flux), snapshot(psd)
    res = o.correctdXdtEuler(dt, flux, nucRate, nucRadius, psd)
    nf = o.fields['_netFlux']
    ctx.prove('result-shape', and_(isinstance(res, ArrBase) and res.ndim == 1, eq(res.shape[0], bins)))
    forall(ctx, 'no-class-loses-more-than-it-holds/lower-face', 0, bins, lambda i: le(-nf.get(i) * dt, psd.get(i)))
    forall(ctx, 'no-class-loses-more-than-it-holds/upper-face', 0, bins, lambda i: le(nf.get(i + 1) * dt, psd.get(i)))

    def kept(j):
        lim_lo = and_(j < bins, lt(old(j) * dt, -psd.get(j)))
        lim_hi = and_(j >= 1, gt(old(j) * dt, psd.get(j - 1)))
        return and_(implies(not_(or_(lim_lo, lim_hi)), eq(nf.get(j), old(j))),
                    implies(lim_lo, eq(nf.get(j) * dt, -psd.get(j))),
                    implies(and_(lim_hi, not_(lim_lo)), eq(nf.get(j) * dt, psd.get(j - 1))))
    forall(ctx, 'unlimited-faces-keep-their-flux', 0, bins + 1, kept)
    forall(ctx, 'limiting-only-reduces-magnitude', 0, bins + 1, lambda j: and_(le(absv(nf.get(j)), absv(old(j))), ge(nf.get(j) * old(j), 0)))
    k, am = _nuc_class(o, nucRadius)
    forall(ctx, 'exchange-cancels', 0, bins, lambda i: eq(res.get(i), nf.get(i) - nf.get(i + 1) + ite(eq(i, k), nucRate, 0)), inst=[k])
    S = NP.sum(res)
    ctx.sum_lemma('conservation', [(1, S)], lambda i: -nf.get(i) + ite(i > k, nucRate, 0), inst=[k])
    ctx.prove('conservation', eq(S, nf.get(0) - nf.get(bins) + nucRate))
    frame(ctx, 'self', o, pre, modifies=['_netFlux'])
    unchanged(ctx, 'arg:flux', s_flux, flux)
    unchanged(ctx, 'arg:psd', s_psd, psd)
    forall(ctx, 'canary/unlimited', 0, bins + 1, lambda j: eq(nf.get(j), old(j)), expect='refuted')


@REG.contract('getDTEuler', [T + 'getDTEuler'])
def c_getdt(ctx, it, cfg):
    o, w = pbm_obj(ctx, it)
    bins = o.bins
    growth = array(ctx, 'growth', (bins + 1,))
    d = integer(ctx, 'dissolutionIndex', lambda v: v >= 0)
    ctx.assume(d <= bins)
    currDT = real(ctx, 'currDT')
    rho = real(ctx, 'maxBinRatio', lambda v: v > 0)
    pre = snapshot(o)
    s_g = snapshot(growth)
    res = o.getDTEuler(currDT, growth, d, rho)
    PSD, b = o.PSD, o.PSDbounds
    width = b.get(1) - b.get(0)
    rel = lambda j: and_(j >= d, j < bins, gt(PSD.get(j), 0))      # classes relevant for the limit
    j = integer(ctx, 'j_any')
    # the limit is an upper bound for every relevant class with non-zero growth ...
    ctx.prove('limit-bounds-every-relevant-class',
              implies(and_(rel(j), not_(eq(growth.get(j), 0))), and_(le(res * absv(growth.get(j)), rho * width), gt(res, 0))), inst=[j, j - d])
    # ... is attained by the fastest one, or no relevant class moves and the current dt is kept
    wit = lambda: [SV(s) for s in ctx.skolems] + [d + SV(s) for s in ctx.skolems]
    exists(ctx, 'limit-attained-or-current-dt', 0, bins, lambda jj: and_(rel(jj), eq(res * absv(growth.get(jj)), rho * width)), wit, alt=eq(res, currDT))
    exists(ctx, 'current-dt-replaced-only-if-some-relevant-class-moves', 0, bins, lambda jj: and_(rel(jj), not_(eq(growth.get(jj), 0))), wit, alt=eq(res, currDT))
    ctx.prove('width-is-the-class-width', eq(width, w))
    frame(ctx, 'self', o, pre, modifies=['maxRatio'])
    unchanged(ctx, 'arg:growth', s_g, growth)
    ctx.prove('canary/half-width', eq(res, currDT), expect='refuted')
    # a later call WITHOUT a fraction uses the documented default 0.4, whatever fraction an earlier call was given
    res2 = o.getDTEuler(currDT, growth, d)
    ctx.prove('default-fraction-after-an-explicit-one/limit-bounds-every-relevant-class',
              implies(and_(rel(j), not_(eq(growth.get(j), 0))), and_(le(res2 * absv(growth.get(j)), Fraction(2, 5) * width), gt(res2, 0))), inst=[j, j - d])
    exists(ctx, 'default-fraction-after-an-explicit-one/limit-attained-or-current-dt', 0, bins, lambda jj: and_(rel(jj), eq(res2 * absv(growth.get(jj)), Fraction(2, 5) * width)), wit, alt=eq(res2, currDT))


@REG.contract('getDissolutionIndex', [T + 'getDissolutionIndex', T + 'CumulativeMoment', T + 'ThirdMoment'])
def c_dissidx(ctx, it, cfg):
    o, w = pbm_obj(ctx, it)
    bins = o.bins
    maxDiss = real(ctx, 'maxDissolution', lambda v: v >= 0)
    minIndex = integer(ctx, 'minIndex', lambda v: v >= 0)
    ctx.assume(minIndex < bins)
    pre = snapshot(o)
    r = o.getDissolutionIndex(maxDiss, minIndex)
    cum = o.CumulativeMoment(3)
    frac = maxDiss * o.ThirdMoment()
    ctx.prove('index-in-range', and_(ge(r, minIndex), ge(r, 0), lt(r, bins)))
    j = integer(ctx, 'j_any')
    ctx.prove('classes-below-index-are-within-allowed-fraction',
              implies(and_(j >= 0, j < r, or_(gt(r, minIndex), False)), le(cum.get(j), frac)), inst=[j, r])
    ctx.prove('index-is-first-exceeding-class', implies(gt(r, minIndex), gt(cum.get(r), frac)), inst=[r])
    ctx.prove('index-is-minIndex-when-exceeded-earlier',
              implies(and_(j >= 0, j <= minIndex, gt(cum.get(j), frac)), eq(r, minIndex)), inst=[j, r])
    frame(ctx, 'self', o, pre, modifies=[])
    ctx.prove('canary/always-minIndex', eq(r, minIndex), expect='refuted')


# ---------------------------------------------------------------------------------------------------
# BOUNDED stand-in (labelled; never counted as proved): the step-limit contract on objects reached from the real constructor by every
# sequence of <= 2 (quick) / <= 3 (thorough) public grid operations.  The deductive contracts above start from the class-invariant schema;
# a field the schema does not know (a cached width, say) makes them undecided, this stand-in still sees the value the real code gave it.
REG.contract('bounded-history/getDTEuler', [T + 'getDTEuler', T + '__init__', T + 'reset', T + 'createBackup', T + 'revert', T + 'changeSizeClasses', T + 'addSizeClasses', T + 'UpdatePBMEuler'],
             configs=history_configs(2, 3), bounded='operation sequences of length <= 2 (quick) / <= 3 (thorough) from the real constructor; arguments symbolic')(with_history(c_getdt))


# ---------------------------------------------------------------------------------------------------
# the second anchored file: the grain-growth model drives the same transport routines; its step limit must come from the growth field that
# actually moves the grains and from the dissolution index of the CURRENT grid
GG = 'kawin.precipitation.coupling.GrainGrowth'


@REG.contract('GrainGrowthModel/transport-wiring', [GG + ':GrainGrowthModel.getdXdt', GG + ':GrainGrowthModel.correctdXdt', GG + ':GrainGrowthModel.getDt',
              GG + ':GrainGrowthModel.postProcess', GG + ':GrainGrowthModel.grainGrowth', GG + ':GrainGrowthModel.constrainedGrowth'])
def c_gg_wiring(ctx, it, cfg):
    g = it.get(GG, 'GrainGrowthModel')()                      # real constructor: every field has the value the real code gives it
    n = integer(ctx, 'nb', lambda v: v >= 2)
    log = []
    bounds = array(ctx, 'bounds', (n + 1,), fact=lambda v, i: v > 0)

    class PBMStub(object):
        """PopulationBalanceModel as this caller sees it: the transport contracts proved above, here recorded calls with arbitrary results"""
        PSDbounds = bounds

        def __init__(self):
            self.PSD = array(ctx, 'PSD0', (n,), fact=lambda v, i: v >= 0)
            self.grid = 0

        def SecondMomentFromN(self, x): return real(ctx, 'M2', lambda v: v > 0)
        def FirstMomentFromN(self, x): return real(ctx, 'M1', lambda v: v > 0)
        def ThirdMomentFromN(self, x): return real(ctx, 'M3', lambda v: v > 0)
        def ZeroMomentFromN(self, x): return real(ctx, 'M0', lambda v: v > 0)
        def ThirdMoment(self): return real(ctx, 'M3s', lambda v: v > 0)

        def getdXdtEuler(self, flux, nucRate, nucRadius, psd):
            log.append(('getdXdt', flux, nucRate, nucRadius, psd))
            return 'rate'

        def correctdXdtEuler(self, dt, flux, nucRate, nucRadius, psd):
            log.append(('correct', dt, flux, nucRate, nucRadius, psd))
            return 'corrected'

        def getDTEuler(self, currDT, growth, dissolutionIndex, maxBinRatio=0.4):
            log.append(('getDT', currDT, growth, dissolutionIndex))
            return real(ctx, 'dt_limit')

        def UpdatePBMEuler(self, time, x):
            log.append(('update', time, x))

        def adjustSizeClassesEuler(self, check):
            self.grid += 1                                      # the grid may have been re-meshed here
            log.append(('adjust', check))

        def getDissolutionIndex(self, maxDissolution, minIndex=0):
            k = integer(ctx, 'dissolution_index_on_grid%d' % self.grid, lambda v: v >= 0)
            log.append(('dissidx', self.grid, k))
            return k
    pbm = PBMStub()
    g.fields['pbm'] = pbm
    g.fields['_z'] = real(ctx, 'z', lambda v: v >= 0)
    for k in ('alpha', 'M', 'gbe'):
        g.fields[k] = real(ctx, k, lambda v: v > 0)
    g.fields['dissolutionIndex'] = d0 = integer(ctx, 'd0', lambda v: v >= 0)
    g.fields['finalTime'] = tf = real(ctx, 'finalTime')
    g.fields['time'] = NP.array([real(ctx, 'tcur')])
    g.fields['avgR'] = NP.array([real(ctx, 'avgR0')])
    g.fields['couplingModels'] = []
    x = array(ctx, 'x', (n,), fact=lambda v, i: v >= 0)
    r = g.getdXdt(real(ctx, 't'), [x])
    moved = [e for e in log if e[0] == 'getdXdt']
    ctx.prove('transport-called-once-on-the-given-distribution-without-nucleation', len(moved) == 1 and moved[0][4] is x and eq(moved[0][2], 0) is True and r == ['rate'])
    field = moved[0][1]
    aMg = g.fields['alpha'] * g.fields['M'] * g.fields['gbe']
    # the field handed to the transport is the Zener-constrained one: zero inside the pinned window, reduced in magnitude outside
    z = g.fields['_z']
    un = g.grainGrowth(x)
    forall(ctx, 'grains-move-with-the-pinned-growth-rate', 0, n + 1,
           lambda i: eq(field.get(i), ite(un.get(i) - aMg * z > 0, un.get(i) - aMg * z, ite(un.get(i) + aMg * z < 0, un.get(i) + aMg * z, 0))))
    dxdt = ['rate']
    g.correctdXdt(real(ctx, 'dt'), [x], dxdt)
    cor = [e for e in log if e[0] == 'correct']
    ctx.prove('correction-uses-the-field-that-moved-the-grains', len(cor) == 1 and cor[0][2] is field and dxdt == ['corrected'])
    g.getDt(dxdt)
    lim = [e for e in log if e[0] == 'getDT']
    ctx.prove('step-limit-from-the-field-that-moves-the-grains', len(lim) == 1 and lim[0][2] is field)
    ctx.prove('step-limit-with-the-current-dissolution-index-and-remaining-time', len(lim) == 1 and eq(lim[0][3], d0) and eq(lim[0][1], tf - g.fields['time'].get(0)))
    # after the step: the dissolution index kept for the next step limit is the one of the grid AFTER the automatic adjustment
    del log[:]
    tnew = real(ctx, 't_new')
    g.postProcess(tnew, [x])
    kinds = [e[0] for e in log]
    ctx.prove('postProcess-order: update, adjust grid, dissolution index', kinds[:2] == ['update', 'adjust'] and 'dissidx' in kinds)
    last = [e for e in log if e[0] == 'dissidx'][-1]
    ctx.prove('dissolution-index-refers-to-the-adjusted-grid', last[1] == pbm.grid and eq(g.fields['dissolutionIndex'], last[2]))
    ctx.prove('time-recorded', eq(g.fields['time'].get(1), tnew))
    ctx.prove('canary/unpinned-field', eq(field.get(0), un.get(0)), expect='refuted')
