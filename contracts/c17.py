"""C17 -- homogenized mobilities respect classical bounds and address phases by name (DESIGN 6, C17)."""
import itertools
from kvc.dsl import *
from kvc import sym

REG = Registry('C17')
REG.undecided += ['ordering lower HS <= upper HS <= upper Wiener for p >= 3 phases (attempted for p = 3: solver limit; proved for p <= 2, the lower pair Wiener <= HS also for p = 3)']
REG.assumptions += [
    'phase counts p <= 3 (p = 3 only in the thorough tier: range, lower ordering pair and permutation invariance), elements e <= 2; mobilities of defined phases > 0, fractions >= 0 summing to 1',
    'undefined entries (-1) are replaced by the code by float tiny / float max: the bound clauses are stated over the fully defined case, the replacement itself is a separate clause',
    'pow axioms for the labyrinth factor: f^1 = f, 0 <= f <= 1 and n >= 1 imply f^n <= f',
    'the equilibrium / mobility evaluation of a point (_computeSingleMobility) is replaced by an arbitrary result with named stable phases',
]
HP = 'kawin.diffusion.HomogenizationParameters'
RULES = ['wienerLower', 'hashinShtrikmanLower', 'hashinShtrikmanUpper', 'wienerUpper']


def mk_inputs(ctx, p, e, tag=''):
    mob = [[real(ctx, '%sm%d%d' % (tag, i, j), lambda v: v > 0) for j in range(e)] for i in range(p)]
    f = [real(ctx, '%sf%d' % (tag, i), lambda v: v >= 0) for i in range(p)]
    ctx.assume(eq(sum(f, 0), 1))
    return mob, f


def arrs(mob, f):
    return NP.array([list(r) for r in mob]), NP.array(list(f))


@REG.contract('bound-rules', [HP + ':' + r for r in RULES] + [HP + ':_hashinShtrikmanGeneral'],
              configs=[dict(name='p=%d,e=%d' % (p, e), p=p, e=e, weight=p * p) for p, e in ((1, 1), (1, 2), (2, 1), (2, 2))] + [dict(name='p=3,e=1', p=3, e=1, tier='thorough', weight=20)],
              timeout_ms=40000)
def c_bounds(ctx, it, cfg):
    p, e = cfg['p'], cfg['e']
    mob, f = mk_inputs(ctx, p, e)
    M, F = arrs(mob, f)
    sM, sF = snapshot(M), snapshot(F)
    mod = it.load(HP)
    res = {}
    for r in RULES:
        out = mod.env[r](M, F)
        ctx.prove('%s/one-value-per-element' % r, isinstance(out, ArrBase) and out.ndim == 1 and out.shape[0] == e)
        res[r] = [out.get(j) for j in range(e)]
        unchanged(ctx, '%s/arg:mobility' % r, sM, M)
        unchanged(ctx, '%s/arg:fractions' % r, sF, F)
    for j in range(e):
        col = [mob[i][j] for i in range(p)]
        lo, hi = col[0], col[0]
        for v in col[1:]:
            lo, hi = vmin(lo, v), vmax(hi, v)
        for r in RULES:
            ctx.prove('%s/between-smallest-and-largest-phase-mobility[e%d]' % (r, j), between(lo, res[r][j], hi))
            if p == 1:
                ctx.prove('%s/single-phase-returns-the-phase-mobility[e%d]' % (r, j), eq(res[r][j], col[0]))
        ctx.prove('ordering/wiener-lower <= hashin-lower[e%d]' % j, le(res['wienerLower'][j], res['hashinShtrikmanLower'][j]))
        if p <= 2:      # for p = 3 these two are degree-7 rational inequalities that neither z3 nor cvc5 decides within the budget: listed as undecided
            ctx.prove('ordering/hashin-lower <= hashin-upper[e%d]' % j, le(res['hashinShtrikmanLower'][j], res['hashinShtrikmanUpper'][j]))
            ctx.prove('ordering/hashin-upper <= wiener-upper[e%d]' % j, le(res['hashinShtrikmanUpper'][j], res['wienerUpper'][j]))
    # independence of the order in which phases are listed
    if p >= 2:
        for perm in itertools.permutations(range(p)):
            if perm == tuple(range(p)):
                continue
            Mp, Fp = arrs([mob[i] for i in perm], [f[i] for i in perm])
            for r in RULES:
                out = mod.env[r](Mp, Fp)
                ctx.prove('%s/phase-order-%s-gives-the-same-value' % (r, ''.join(map(str, perm))), and_(*[eq(out.get(j), res[r][j]) for j in range(e)]))
    if p >= 2:
        ctx.prove('canary/upper-equals-lower', eq(res['wienerUpper'][0], res['wienerLower'][0]), expect='refuted')


@REG.contract('labyrinth', [HP + ':labyrinth', HP + ':HomogenizationParameters.setLabyrinthFactor'], configs=[dict(name='p=%d' % p, p=p) for p in (1, 2, 3)])
def c_lab(ctx, it, cfg):
    p = cfg['p']
    mob, f = mk_inputs(ctx, p, 1)
    M, F = arrs(mob, f)
    mod = it.load(HP)
    wu = mod.env['wienerUpper'](M, F).get(0)
    l1 = mod.env['labyrinth'](M, F, labyrinth_factor=1).get(0)
    ctx.prove('factor-1-equals-upper-wiener', eq(l1, wu))
    n = real(ctx, 'n', lambda v: v >= 1)
    sM, sF = snapshot(M), snapshot(F)
    ln = mod.env['labyrinth'](M, F, labyrinth_factor=n).get(0)
    ctx.prove('never-exceeds-upper-wiener', le(ln, wu))
    ctx.prove('non-negative', ge(ln, 0))
    # the arrays may be the ones held in the composition cache: the rule must leave them alone, so that the same point evaluated again gives the same answer
    unchanged(ctx, 'arg:mobility', sM, M)
    unchanged(ctx, 'arg:fractions', sF, F)
    ctx.prove('same-point-evaluated-again-gives-the-same-value', eq(mod.env['labyrinth'](M, F, labyrinth_factor=n).get(0), ln))
    h = it.get(HP, 'HomogenizationParameters')()
    h.setLabyrinthFactor(real(ctx, 'requested'))
    ctx.prove('factor-clipped-to-[1,2]', between(1, h.labyrinthFactor, 2))


@REG.contract('undefined-entries', [HP + ':' + r for r in RULES], configs=[dict(name=r, rule=r) for r in RULES])
def c_undefined(ctx, it, cfg):
    """an undefined entry (-1) of one phase does not poison the average: the upper rules treat it as (practically) zero mobility, the lower rules as infinite"""
    mob, f = mk_inputs(ctx, 2, 1)
    M = NP.array([[mob[0][0]], [-1]])
    F = NP.array(list(f))
    sM, sF = snapshot(M), snapshot(F)
    out = it.load(HP).env[cfg['rule']](M, F).get(0)
    # the arrays may be the ones held in the composition cache: evaluating a rule must leave them (incl. the -1 markers) alone
    unchanged(ctx, 'arg:mobility-with-undefined-marker', sM, M)
    unchanged(ctx, 'arg:fractions', sF, F)
    tiny, big = NP.finfo(float).tiny, NP.finfo(float).max
    ctx.assume(and_(gt(mob[0][0], tiny), lt(mob[0][0], big)))
    ctx.prove('finite-and-non-negative', ge(out, 0))
    ctx.prove('never-above-the-defined-mobility-for-upper-rules', le(out, mob[0][0]) if 'Upper' in cfg['rule'] else ge(out, 0))


class ThermStub(object):
    def __init__(self, phases, elements):
        self.phases, self.elements = phases, elements
        self.numElements = len(elements)


DB_PHASES = ['FCC_A1', 'BCC_A2', 'SIGMA']


def _post_cfgs():
    out = []
    for stable in (['BCC_A2', 'SIGMA'], ['FCC_A1', 'BCC_A2', 'SIGMA'], ['BCC_A2'], ['SIGMA', 'BCC_A2']):
        out.append(dict(name='stable=' + '+'.join(stable), stable=stable))
    return out


@REG.contract('post-processing/acts-on-the-named-phase', [HP + ':_postProcessPredefinedMatrixPhase', HP + ':_postProcessExcludePhases', HP + ':_postProcessMajorityPhase',
              HP + ':_postProcessDoNothing'], configs=_post_cfgs())
def c_post(ctx, it, cfg):
    stable = cfg['stable']
    p, e = len(stable), 2
    therm = ThermStub(DB_PHASES, ['NI', 'AL', 'CR'])
    mod = it.load(HP)
    named = 'BCC_A2'
    k = stable.index(named)                      # the row of the phase the user named

    def fresh(tag):
        mob, f = mk_inputs(ctx, p, e, tag)
        rows = [list(r) for r in mob]
        und = [i for i in range(p) if i != k][:1]          # one other phase has no mobility model for element 0
        for i in und:
            rows[i][0] = -1
        return rows, f, und
    # --- predefined matrix phase
    rows, f, und = fresh('pre_')
    M, F = arrs(rows, f)
    M2, F2 = mod.env['_postProcessPredefinedMatrixPhase'](therm, M, F, named, phases=NP.array(stable))
    for i in range(p):
        for j in range(e):
            want = rows[k][j] if (i in und and j == 0) else rows[i][j]
            ctx.prove('predefined/entry[%d,%d]-%s' % (i, j, 'filled-from-the-NAMED-phase' if (i in und and j == 0) else 'kept'), eq(M2.get(i, j), want))
    M3, F3 = mod.env['_postProcessPredefinedMatrixPhase'](therm, M2, F2, named, phases=NP.array(stable))
    ctx.prove('predefined/second-evaluation-changes-nothing', and_(*[eq(M3.get(i, j), M2.get(i, j)) for i in range(p) for j in range(e)]))
    # --- exclude phases
    rows, f, und = fresh('exc_')
    M, F = arrs(rows, f)
    M2, F2 = mod.env['_postProcessExcludePhases'](therm, M, F, [named], phases=NP.array(stable))
    for i in range(p):
        ctx.prove('exclude/fraction[%d]-%s' % (i, 'of-the-NAMED-phase-zeroed' if i == k else 'kept'), eq(F2.get(i), 0 if i == k else f[i]))
    M3, F3 = mod.env['_postProcessExcludePhases'](therm, M2, F2, [named], phases=NP.array(stable))
    ctx.prove('exclude/second-evaluation-changes-nothing', and_(*[eq(F3.get(i), F2.get(i)) for i in range(p)]))
    # several excluded phases, in either order: exactly the named phases lose their fraction
    if p >= 3:
        others = [n for n in stable if n != named]
        for order in ([named, others[-1]], [others[-1], named], [others[0], named, others[-1]][:p]):
            rows, f, und = fresh('exc%d_' % len(order) + order[0][:3] + '_')
            M, F = arrs(rows, f)
            M2, F2 = mod.env['_postProcessExcludePhases'](therm, M, F, list(order), phases=NP.array(stable))
            ctx.prove('exclude/several-phases[%s]/exactly-the-named-fractions-zeroed' % ','.join(order), and_(*[eq(F2.get(i), 0 if stable[i] in order else f[i]) for i in range(p)]))
    # a phase the user named that is not stable at this point: nothing to do, no error (single-phase regions!)
    rows, f, und = fresh('abs_')
    M, F = arrs(rows, f)
    absent = [n for n in DB_PHASES if n not in stable]
    if absent:
        M2, F2 = mod.env['_postProcessExcludePhases'](therm, M, F, [absent[0]], phases=NP.array(stable))
        ctx.prove('exclude/absent-phase-is-ignored', and_(*[eq(F2.get(i), f[i]) for i in range(p)]))
        M2, F2 = mod.env['_postProcessPredefinedMatrixPhase'](therm, M, F, absent[0], phases=NP.array(stable))
        ctx.prove('predefined/absent-phase-is-ignored', and_(*[eq(M2.get(i, j), rows[i][j]) for i in range(p) for j in range(e)]))
    # --- majority phase
    rows, f, und = fresh('maj_')
    M, F = arrs(rows, f)
    M2, F2 = mod.env['_postProcessMajorityPhase'](therm, M, F, phases=NP.array(stable))
    for i in und:
        ctx.prove('majority/undefined-entry-filled-from-a-phase-of-largest-fraction',
                  or_(*[and_(eq(M2.get(i, 0), rows[q][0]), *[ge(f[q], f[r]) for r in range(p)]) for q in range(p)]))


@REG.contract('computeHomogenizationFunction/passes-stable-phase-names', [HP + ':computeHomogenizationFunction'])
def c_compute(ctx, it, cfg):
    """two nodes with DIFFERENT stable-phase sets: the post-processing of node i receives the names of the phases stable at node i and that node's arrays"""
    mod = it.load(HP)
    DPm = it.load('kawin.diffusion.DiffusionParameters')
    therm = ThermStub(DB_PHASES, ['NI', 'AL', 'CR'])
    stable = [['SIGMA'], ['BCC_A2', 'SIGMA']]
    MD = DPm.env['MobilityData']
    nodes = []
    for k, st in enumerate(stable):
        mob, f = mk_inputs(ctx, len(st), 2, tag='n%d_' % k)
        M, F = arrs(mob, f)
        nodes.append((M, F, NP.array([real(ctx, 'n%d_mu0' % k), real(ctx, 'n%d_mu1' % k)])))
    key = DPm.env['_computeSingleMobility'].key          # wherever it is called from (directly or through computeMobility)
    cnt = [0]

    def single(interp, fn, args, kwargs):
        k = cnt[0]
        cnt[0] += 1
        M, F, mu = nodes[k]
        return MD(mobility=M, phases=NP.array(stable[k]), phase_fractions=F, chemical_potentials=mu)
    it.summaries[key] = single
    seen = []

    def post(th, m, pf, *a, **k):
        seen.append(('post', th, m, pf, a, k))
        return m, pf

    def avg(m, pf, **k):
        seen.append(('avg', m, pf, k))
        return NP.array([real(ctx, 'avg%d_0' % len(seen)), real(ctx, 'avg%d_1' % len(seen))])
    hp = it.get(HP, 'HomogenizationParameters')()
    hp.fields['postProcessFunction'] = post
    hp.fields['postProcessParameters'] = ['BCC_A2']
    hp.fields['homogenizationFunction'] = avg
    x = NP.array([[real(ctx, 'x%d%d' % (i, e)) for e in range(2)] for i in range(2)])
    T = NP.array([real(ctx, 'T0'), real(ctx, 'T1')])
    out, pot = mod.env['computeHomogenizationFunction'](therm, x, T, hp, None)
    posts = [s_ for s_ in seen if s_[0] == 'post']
    avgs = [s_ for s_ in seen if s_[0] == 'avg']
    ctx.prove('one-post-processing-and-one-average-per-node', len(posts) == 2 and len(avgs) == 2 and cnt[0] == 2)

    def same(a, b):
        """-> False, or the (possibly symbolic) statement that the two arrays have equal entries"""
        if not (isinstance(a, ArrBase) and tuple(a.shape) == tuple(b.shape)):
            return False
        return and_(*[eq(u, v_) for u, v_ in zip(a.tolist() if a.ndim == 1 else sum(a.tolist(), []), b.tolist() if b.ndim == 1 else sum(b.tolist(), []))])
    for k in range(min(2, len(posts))):
        M, F, mu = nodes[k]
        ctx.prove('node%d/post-processing-gets-the-user-arguments' % k, posts[k][1] is therm and posts[k][4] == ('BCC_A2',))
        ctx.prove('node%d/post-processing-gets-this-nodes-arrays' % k, and_(same(posts[k][2], M), same(posts[k][3], F)))
        names = posts[k][5].get('phases')
        ctx.prove('node%d/post-processing-receives-the-names-of-the-phases-stable-at-this-node' % k,
                  names is not None and ([names.get(i) for i in range(names.shape[0])] if isinstance(names, ArrBase) else list(names)) == stable[k])
        ctx.prove('node%d/averaging-uses-the-post-processed-arrays-and-the-labyrinth-factor' % k, and_(same(avgs[k][1], M), same(avgs[k][2], F), 'labyrinth_factor' in avgs[k][3]))
        ctx.prove('node%d/chemical-potentials-of-this-node' % k, and_(eq(pot.get(k, 0), mu.get(0)), eq(pot.get(k, 1), mu.get(1))))
