"""C11 -- results are equivariant under re-ordering of elements and of phases (DESIGN 6, C11)."""
import itertools
from kvc.dsl import *
from kvc import sym
from .thermo_stubs import *
from .kwn import *

REG = Registry('C11')
NUCP = 'kawin.precipitation.parameters.Nucleation'
REG.assumptions += [
    'the thermodynamic backend itself is equivariant (pycalphad keeps elements in alphabetical order internally): assumed; what is proved is kawin\'s own '
    're-ordering between the user\'s element order and that alphabetical order, for every ordering of 2 and 3 solutes',
    'phase order: P = 2 (swap) and P = 3 (all permutations) for the step-size constraints, per-phase data arbitrary',
]
TH = 'kawin.thermo.Thermodynamics'
MT = 'kawin.thermo.MultiTherm'
DP = 'kawin.diffusion.DiffusionParameters'
PPM = 'kawin.precipitation.PrecipitationParameters'
SOLUTE_SETS = [['AL', 'CR'], ['AL', 'CR', 'TI']]


def element_orders():
    out = []
    for sol in SOLUTE_SETS:
        for perm in itertools.permutations(sol):
            out.append(dict(name='NI,' + ','.join(perm), elements=['NI'] + list(perm) + ['VA']))
    out.append(dict(name='AL,NI,CR (reference not alphabetically first)', elements=['NI', 'AL', 'CR', 'VA'][1:2] + ['NI', 'CR', 'VA']))
    return out


def mk_therm(ctx, it, elements, cls=(TH, 'GeneralThermodynamics')):
    v = install(it)
    th = new_obj(it, cls[0], cls[1], elements=list(elements), phases=['FCC_A1', 'GAMMA_PRIME'], numElements=len(elements) - 1,
                 mobCallables={'FCC_A1': 'MOBCALL', 'GAMMA_PRIME': None}, diffCallables={'FCC_A1': None, 'GAMMA_PRIME': None},
                 mobility_correction={e: 1 for e in elements}, vacancyPoorInterstitialSublattice={}, _parameters={}, _diffusivity_cache={})
    return th, v


@REG.contract('element-order/interdiffusivity-and-tracer', [TH + ':GeneralThermodynamics._interdiffusivitySingle', TH + ':GeneralThermodynamics._tracerDiffusivitySingle',
              TH + ':GeneralThermodynamics._getConditions'], configs=element_orders())
def c_diff_order(ctx, it, cfg):
    els = cfg['elements']
    th, v = mk_therm(ctx, it, els)
    solutes = els[1:-1]
    nonva = els[:-1]
    alpha = sorted(nonva)                       # backend order of all non-vacant elements
    alpha_sol = sorted(solutes)                 # backend order of the independent components
    D = {(a, b): real(ctx, 'D_%s_%s' % (a, b)) for a in alpha_sol for b in alpha_sol}
    Dt = {a: real(ctx, 'Dtr_%s' % a) for a in alpha}
    mod = it.load(TH)
    cs = CompSet(ctx, 'cs', 'FCC_A1', nonva, v)

    class Res(object):
        chemical_potentials = 'MU'
    th.fields['getLocalEq'] = lambda x, T, g, phases, composition_sets=None: (Res(), [cs])
    mod.env['inverseMobility'] = lambda *a, **k: (NP.array([[D[(p, q)] for q in alpha_sol] for p in alpha_sol]), None, None)
    mod.env['tracer_diffusivity'] = lambda *a, **k: NP.array([Dt[a_] for a_ in alpha])
    x = NP.array([real(ctx, 'x_%s' % e) for e in solutes])
    T = real(ctx, 'T')
    Dn = th._interdiffusivitySingle(x, T, True, None)
    if len(solutes) == 1:
        ctx.prove('binary/interdiffusivity-is-the-backend-value', eq(Dn if not isinstance(Dn, ArrBase) else Dn.get(*([0] * Dn.ndim)), D[(solutes[0], solutes[0])]))
    else:
        for i, a in enumerate(solutes):
            for j, b in enumerate(solutes):
                ctx.prove('interdiffusivity[%s,%s]-is-the-backend-value-for-these-elements' % (a, b), eq(Dn.get(i, j), D[(a, b)]))
    tr = th._tracerDiffusivitySingle(x, T, True, None)
    for i, a in enumerate(nonva):
        ctx.prove('tracer-diffusivity[%s]-is-the-backend-value-for-this-element' % a, eq(tr.get(i), Dt[a]))
    cond = th._getConditions(x, T, 0)
    for i, a in enumerate(solutes):
        ctx.prove('conditions/X(%s)-is-the-users-value-for-%s' % (a, a), eq(cond[v.X(a)], x.get(i)))
    ctx.prove('conditions/state-variables', eq(cond[v.T], T) and cond[v.N] == 1 and cond[v.P] == 101325)


@REG.contract('element-order/mobility-of-stable-phases', [DP + ':_computeSingleMobility', DP + ':computeMobility'], configs=element_orders())
def c_mob_order(ctx, it, cfg):
    els = cfg['elements']
    th, v = mk_therm(ctx, it, els)
    nonva = els[:-1]
    alpha = sorted(nonva)
    mod = it.load(DP)
    cs1, cs2 = CompSet(ctx, 'c1', 'FCC_A1', nonva, v), CompSet(ctx, 'c2', 'GAMMA_PRIME', nonva, v)
    M = {(p, a): real(ctx, 'M_%s_%s' % (p, a), lambda x: x > 0) for p in ('FCC_A1', 'GAMMA_PRIME') for a in alpha}
    mu = {a: real(ctx, 'mu_%s' % a) for a in alpha}

    class Eq(object):
        MU = NP.array([[mu[a] for a in alpha]])

    class Wks(object):
        eq = Eq()

        def get_composition_sets(self):
            return [cs1, cs2]
    th.fields['getEq'] = lambda x, T, g, phases: Wks()
    th.fields['mobCallables'] = {'FCC_A1': 'CALL1', 'GAMMA_PRIME': 'CALL2'}
    mod.env['mobility_from_composition_set'] = lambda cs, call, corr: NP.array([M[(cs.phase_record.phase_name, a)] for a in alpha])
    u = {('c1', a): real(ctx, 'u1_%s' % a, lambda x: x > 0) for a in alpha}
    u.update({('c2', a): real(ctx, 'u2_%s' % a, lambda x: x > 0) for a in alpha})
    mod.env['x_to_u_frac'] = lambda X, elements, inter: NP.array([u[('c1' if X.get(0) is cs1.X[list(alpha).index(elements[0])] or any(X.get(k) is cs1.X[kk] for k in range(len(alpha)) for kk in range(len(alpha))) else 'c2', e)] for e in elements])
    x = NP.array([[real(ctx, 'x_%s' % e) for e in els[1:-1]]])
    T = NP.array([real(ctx, 'T')])
    data = mod.env['computeMobility'](th, x, T, None)
    mob = data.mobility[0]
    for p, (pname, tag) in enumerate((('FCC_A1', 'c1'), ('GAMMA_PRIME', 'c2'))):
        for i, a in enumerate(nonva):
            ctx.prove('mobility[%s,%s]-is-backend-mobility-times-u-fraction-of-this-element' % (pname, a), eq(mob.get(p, i), M[(pname, a)] * u[(tag, a)]))
    pot = data.chemical_potentials[0]
    for i, a in enumerate(nonva):
        ctx.prove('chemical-potential[%s]-is-the-backend-value-for-this-element' % a, eq(pot.get(i), mu[a]))
    ctx.prove('phases-in-backend-order', [data.phases[0].get(k) for k in range(2)] == ['FCC_A1', 'GAMMA_PRIME'])


class PBMS(object):
    def __init__(self, ctx, p):
        self.dt = real(ctx, 'dtPBM%d' % p, lambda v: v > 0)
        self.bins = 3
        self.PSD = NP.array([real(ctx, 'psd%d_%d' % (p, i), lambda v: v >= 0) for i in range(3)])
        self.PSDsize = NP.array([real(ctx, 'size%d_%d' % (p, i), lambda v: v > 0) for i in range(3)])

    def getDTEuler(self, currDT, growth, dissolutionIndex, maxBinRatio=None):
        return self.dt


DTFUNCS = ['computeDTfromPSD', 'computeDTfromNucleationRate', 'computeDTfromRcrit', 'computeDTfromVolume', 'computeDTfromTemperature']


@REG.contract('phase-order/step-size-constraints', [PPM + ':Constraints.' + f for f in DTFUNCS],
              configs=[dict(name='%s,P=2' % f, P=2, fn=f) for f in DTFUNCS] + [dict(name='%s,P=3' % f, P=3, fn=f, tier='thorough', weight=10) for f in DTFUNCS], max_paths=3000)
def c_phase_order(ctx, it, cfg):
    """every step-size constraint gives the same dt when the phases (and all per-phase data) are listed in a different order"""
    P = cfg['P']
    cons = symbolise(ctx, it.get(PPM, 'Constraints')(), 'c.')
    n = 1
    T = NP.array([real(ctx, 'T0'), real(ctx, 'T1')])
    dtPrev, dtMax = real(ctx, 'dtPrev', lambda v: v > 0), real(ctx, 'dtMax', lambda v: v > 0)
    pb = [PBMS(ctx, p) for p in range(P)]
    nuc = [[real(ctx, 'nuc%d_%d' % (k, p), lambda v: v >= 0) for p in range(P)] for k in range(2)]
    Rc = [[real(ctx, 'Rc%d_%d' % (k, p), lambda v: v >= 0) for p in range(P)] for k in range(2)]
    dG = [[real(ctx, 'dG%d_%d' % (k, p)) for p in range(P)] for k in range(2)]
    Rn = [[real(ctx, 'Rn%d_%d' % (k, p), lambda v: v >= 0) for p in range(P)] for k in range(2)]
    growth = [NP.array([real(ctx, 'g%d_%d' % (p, i)) for i in range(4)]) for p in range(P)]
    VmB = [real(ctx, 'VmB%d' % p, lambda v: v > 0) for p in range(P)]
    VmA = real(ctx, 'VmA', lambda v: v > 0)

    class GB(object):
        def __init__(self, p):
            self.areaFactor = real(ctx, 'af%d' % p, lambda v: v > 0)
            self.volumeFactor = real(ctx, 'vf%d' % p, lambda v: v > 0)
    gb = [GB(p) for p in range(P)]
    diss = [0] * P

    def run(perm):
        sel = lambda lst: [lst[q] for q in perm]
        phases = ['PH%d' % q for q in perm]
        arr2 = lambda rows: NP.array([sel(r) for r in rows])
        f = cfg['fn']
        if f == 'computeDTfromPSD':
            return cons.computeDTfromPSD(n, NP.array([T.get(0), T.get(0)]), sel(pb), sel(growth), sel(diss), phases, dtMax)
        if f == 'computeDTfromNucleationRate':
            return cons.computeDTfromNucleationRate(n, arr2(nuc), phases, dtPrev, dtMax)
        if f == 'computeDTfromRcrit':
            return cons.computeDTfromRcrit(n, arr2(Rc), arr2(dG), phases, dtPrev, dtMax)
        if f == 'computeDTfromVolume':
            return cons.computeDTfromVolume(n, arr2(nuc), arr2(Rn), sel(pb), sel(growth), VmA, sel(VmB), sel(gb), phases, dtMax)
        return cons.computeDTfromTemperature(n, T, dtPrev, dtMax)
    base = run(tuple(range(P)))
    for perm in itertools.permutations(range(P)):
        if perm == tuple(range(P)):
            continue
        ctx.prove('phase-order-%s-gives-the-same-step' % ''.join(map(str, perm)), eq(run(perm), base))
    ctx.prove('step-is-positive', gt(base, 0))


@REG.contract('element-order/driving-force-methods', [TH + ':GeneralThermodynamics._getDrivingForceSampling', TH + ':GeneralThermodynamics._getDrivingForceApprox',
              TH + ':GeneralThermodynamics._getDrivingForceCurvature', TH + ':GeneralThermodynamics._resetDrivingForceCache'],
              configs=[dict(o, name=o['name'] + ' ' + meth, method=meth) for o in element_orders() for meth in ('sampling', 'approximate', 'curvature')])
def c_df_order(ctx, it, cfg):
    """the precipitate composition returned with the driving force lists, at position i, the fraction of the solute NAMED elements[1+i] -- for every ordering
    (the back end keeps its composition sets in alphabetical order); the driving force itself does not depend on the ordering"""
    els = cfg['elements']
    th, v = mk_therm(ctx, it, els)
    th.fields.update(_compset_cache_df={}, _matrix_cs=None, _points_cache={})
    solutes, nonva = els[1:-1], els[:-1]
    alpha = sorted(nonva)
    alpha_sol = [e for e in alpha if e != els[0]]
    mod = it.load(TH)
    cs_m = CompSet(ctx, 'csm', 'FCC_A1', nonva, v)
    cs_p = CompSet(ctx, 'csp', 'GAMMA_PRIME', nonva, v)
    XP = dict(zip(alpha, cs_p.X))
    XM = dict(zip(alpha, cs_m.X))
    mu_parent = {e: real(ctx, 'mu_parent_%s' % e) for e in alpha}
    mu_eq = {e: real(ctx, 'mu_eq_%s' % e) for e in alpha}

    class Res(object):
        chemical_potentials = NP.array([mu_parent[e] for e in alpha])
    th.fields['getLocalEq'] = lambda x, T, g, phases, composition_sets=None: (Res(), [cs_m])
    dg_s = real(ctx, 'dg_sampling')
    th.fields['_getPrecCompositionSetSamplingDF'] = lambda x, T, mu, precPhase, cond=None: (dg_s, cs_p)
    th.fields['_getCompositionSetsForDF'] = lambda x, T, precPhase: (NP.array([mu_eq[e] for e in alpha]), cs_m, cs_p)
    H = {(a, b): real(ctx, 'H_%s_%s' % (a, b)) for a in alpha_sol for b in alpha_sol}
    mod.env['dMudX'] = lambda mu, cs, ref: NP.array([[H[(a, b)] for b in alpha_sol] for a in alpha_sol])
    xu = {e: real(ctx, 'x_%s' % e) for e in solutes}
    x = NP.array([xu[e] for e in solutes])
    T = real(ctx, 'T')
    meth = {'sampling': '_getDrivingForceSampling', 'approximate': '_getDrivingForceApprox', 'curvature': '_getDrivingForceCurvature'}[cfg['method']]
    sx = snapshot(x)
    dg, xb = getattr(th, meth)(x, T, 'GAMMA_PRIME', True)
    xbv = [xb] if not isinstance(xb, ArrBase) or xb.ndim == 0 else [xb.get(i) for i in range(xb.shape[0])]
    ctx.prove('one-fraction-per-solute', len(xbv) == len(solutes))
    for i, e in enumerate(solutes):
        ctx.prove('precipitate-composition[%d]-is-the-fraction-of-%s' % (i, e), eq(xbv[i], XP[e]))
    if len(solutes) >= 2:
        ctx.prove('canary/first-position-holds-the-last-solute', eq(xbv[0], XP[solutes[-1]]), expect='refuted')
    if cfg['method'] == 'sampling':
        ctx.prove('driving-force-is-the-sampled-one', eq(dg, dg_s))
    elif cfg['method'] == 'approximate':
        want = 0
        for e in alpha:
            want = want + XP[e] * (mu_parent[e] - mu_eq[e])
        ctx.prove('driving-force = sum_e x_e^beta (mu_e(matrix) - mu_e(two-phase))', eq(dg, want))
    else:
        want = 0
        for a in alpha_sol:
            for b in alpha_sol:
                want = want + (xu[a] - XM[a]) * H[(a, b)] * (XP[b] - XM[b])
        ctx.prove('driving-force = (x - x_alpha)^T H (x_beta - x_alpha) with every factor taken for the same NAMED solute', eq(dg, want))
    unchanged(ctx, 'arg:x', sx, x)


@REG.contract('phase-order/aspect-ratio-table-of-each-phase', ['kawin.precipitation.KWNEuler:PrecipitateModel._setupAspectRatio'],
              configs=[dict(name='calc=%s' % ''.join('TF'[not c] for c in calc), calc=calc) for calc in ((True, True), (True, False), (False, True))])
def c_aspect_binding(ctx, it, cfg):
    """a phase whose aspect ratio is computed from the strain energy interpolates ITS OWN table, wherever it stands in the phase list"""
    from .kwn import mk_kwn
    P = 2
    m, pd, n = mk_kwn(ctx, it, P, 1)
    log, funcs = [], {}
    for p, prm in enumerate(m.fields['precipitateParameters']):
        prm.calculateAspectRatio = cfg['calc'][p]
        prm.gamma = real(ctx, 'gamma%d' % p, lambda v: v > 0)

        class SE(object):
            def __init__(self, p):
                self.p = p

            def eqAR_bySearch(self, R, gamma, shp):
                log.append(('search', self.p))
                return ('table', self.p)
        prm.strainEnergy = SE(p)

        class SF(object):
            def __init__(self, p):
                self.p = p

            def setAspectRatio(self, f):
                funcs[self.p] = f

            def aspectRatio(self, R):
                return ('constant-table', self.p)
        prm.shapeFactor = SF(p)
    for o in m.fields['PBM']:
        o.fields['reset'] = lambda *a, **k: None
    m.fields['_interpolateAspectRatio'] = lambda R, p: ('interp', R, p)
    m._setupAspectRatio()
    tab = m.fields['eqAspectRatio']
    for p in range(P):
        if cfg['calc'][p]:
            ctx.prove('phase%d/table-computed-from-its-own-strain-energy' % p, tab[p] == ('table', p))
            R = object()
            ctx.prove('phase%d/aspect-ratio-function-installed' % p, p in funcs)
            if p in funcs:
                r = funcs[p](R)
                ctx.prove('phase%d/interpolates-its-own-table' % p, r == ('interp', R, p))
        else:
            ctx.prove('phase%d/constant-aspect-ratio-kept' % p, tab[p] == ('constant-table', p) and p not in funcs)


@REG.contract('element-order/composition-profile-rows', [DP + ':CompositionProfile.buildProfile', DP + ':CompositionProfile.addCompositionBuildStep',
              DP + ':CompositionProfile.addLinearCompositionStep', DP + ':CompositionProfile._setLinearComposition'],
              configs=[dict(name='%s;defined-%s' % (','.join(e), ','.join(d)), els=e, defs=d) for e in (['AL', 'CR'], ['CR', 'AL']) for d in (['AL', 'CR'], ['CR', 'AL'])])
def c_profile_rows(ctx, it, cfg):
    """row i of the initial composition profile is the profile the user defined for the element NAMED elements[i], in whatever order the steps were defined"""
    CP = it.get(DP, 'CompositionProfile')
    cp = CP()
    ends = {e: (real(ctx, 'left_' + e), real(ctx, 'right_' + e)) for e in cfg['els']}
    for e in cfg['defs']:
        cp.addLinearCompositionStep(e, ends[e][0], ends[e][1])
    N = integer(ctx, 'N', lambda v: v >= 2)
    z0, dz = real(ctx, 'z0'), real(ctx, 'dz', lambda v: v > 0)
    z = Arr((N,), lambda i: z0 + to_real(i) * dz, 'real')
    x = NP.zeros((len(cfg['els']), N))
    cp.buildProfile(cfg['els'], x, z)
    for i, e in enumerate(cfg['els']):
        ctx.prove('row%d-starts-at-the-left-value-of-%s' % (i, e), eq(x.get(i, 0), ends[e][0]))
        ctx.prove('row%d-ends-at-the-right-value-of-%s' % (i, e), eq(x.get(i, N - 1), ends[e][1]), inst=[N - 1])
    ctx.prove('canary/rows-swapped', eq(x.get(0, 0), ends[cfg['els'][1]][0]), expect='refuted')


@REG.contract('PrecipitateModel.getDt/smallest-of-the-five-limits', ['kawin.precipitation.KWNEuler:PrecipitateModel.getDt'], configs=[dict(name='P=2', P=2)])
def c_getdt_model(ctx, it, cfg):
    """the proposed step is the smallest of the five per-phase limits (each proved independent of the phase order above) and the remaining time, or -- when
    none of them binds -- the previous step grown by the configured factor; every limit is computed from the CURRENT step's data of ALL phases"""
    from .kwn import mk_kwn
    P = cfg['P']
    m, pd, n = mk_kwn(ctx, it, P, 1)
    calls = {}

    class Cons(object):
        dtScale = real(ctx, 'dtScale', lambda v: v > 0)

        def _rec(self, name, args):
            calls[name] = args
            return real(ctx, 'dt_' + name, lambda v: v > 0)

        def computeDTfromPSD(self, *a): return self._rec('psd', a)
        def computeDTfromNucleationRate(self, *a): return self._rec('nuc', a)
        def computeDTfromTemperature(self, *a): return self._rec('temp', a)
        def computeDTfromRcrit(self, *a): return self._rec('rcrit', a)
        def computeDTfromVolume(self, *a): return self._rec('vol', a)
    cons = Cons()
    m.fields['constraints'] = cons
    m.fields['finalTime'] = tf = real(ctx, 'finalTime')
    tn = pd.fields['time'].get(n)
    ctx.assume(tf > tn)
    m.fields['growth'] = [object() for _ in range(P)]
    dXdt = object()
    dt = m.getDt(dXdt)
    lims = [real(ctx, 'dt_' + k) for k in ('psd', 'nuc', 'temp', 'rcrit', 'vol')]
    dtMax = tf - tn
    dtPrev = ite(eq(n, 0), Fraction(1, 100), tn - pd.fields['time'].get(n - 1))
    smallest = dtMax
    for l in lims:
        smallest = vmin(smallest, l)
    ctx.prove('all-five-limits-asked', sorted(calls) == ['nuc', 'psd', 'rcrit', 'temp', 'vol'])
    ctx.prove('step-is-the-smallest-limit-or-the-grown-previous-step', eq(dt, ite(eq(smallest, dtMax), (1 + cons.dtScale) * dtPrev, smallest)))
    for k in sorted(calls):
        ctx.prove('limit-%s-computed-at-the-current-step' % k, eq(calls[k][0], n))
        ctx.prove('limit-%s-given-the-remaining-time' % k, eq(calls[k][-1], dtMax))
    ctx.prove('limits-see-the-recorded-histories', calls['nuc'][1] is pd.fields['nucRate'] and calls['temp'][1] is pd.fields['temperature'] and calls['psd'][1] is pd.fields['temperature']
              and calls['rcrit'][1] is pd.fields['Rcrit'] and calls['rcrit'][2] is pd.fields['drivingForce'] and calls['vol'][1] is pd.fields['nucRate'] and calls['vol'][2] is pd.fields['Rnuc'])
    ctx.prove('limits-see-every-phase', calls['psd'][2] is m.fields['PBM'] and calls['psd'][3] is m.fields['growth'] and calls['vol'][3] is m.fields['PBM'] and len(calls['vol'][6]) == P and len(calls['vol'][7]) == P
              and all(calls['vol'][6][p] is m.fields['precipitateParameters'][p].volume.Vm for p in range(P)))
    ctx.prove('remaining-time-and-previous-step-handed-over', and_(eq(calls['nuc'][3], dtPrev), eq(calls['temp'][2], dtPrev), eq(calls['rcrit'][4], dtPrev)))
    ctx.prove('canary/always-the-grown-previous-step', eq(dt, (1 + cons.dtScale) * dtPrev), expect='refuted')


# the nucleation step treats every phase on its own (one thermodynamic query per phase, each phase's own driving force recorded whatever the phases listed before it
# do): the C01 contract on the real _calcNucleationRate, registered here because it is what makes the result independent of the phase order
from . import c01 as _c01
REG.contracts.append(_c01.c_rest.contract)


@REG.contract('setBulkDensityFromComposition/independent-of-the-solute-order', [NUCP + ':NucleationSiteParameters.setBulkDensityFromComposition'],
              configs=[dict(name='E=%d' % E, E=E) for E in (1, 2, 3)])
def c_bulkn0(ctx, it, cfg):
    """the default bulk nucleation-site density is the number of atoms of the SCARCEST solute per volume: the same for every order in which the solutes are listed"""
    E = cfg['E']
    xs = [real(ctx, 'x%d' % e, lambda v: v > 0) for e in range(E)]
    Vm = real(ctx, 'VmAlpha', lambda v: v > 0)
    NA = it.load('kawin.Constants').env['AVOGADROS_NUMBER']
    smallest = xs[0]
    for v in xs[1:]:
        smallest = vmin(smallest, v)
    vals = []
    for perm in itertools.permutations(range(E)):
        sp = it.get(NUCP, 'NucleationSiteParameters')()
        sp.fields['VmAlpha'] = Vm
        sp.fields['_validateVolume'] = lambda what: None
        x0 = NP.array([xs[k] for k in perm]) if E > 1 else xs[0]
        sp.setBulkDensityFromComposition(x0)
        ctx.prove('order[%s]/sites = scarcest solute * N_A / Vm' % ''.join(map(str, perm)), eq(sp.bulkN0 * Vm, smallest * NA))
        ctx.prove('order[%s]/marked-as-composition-dependent' % ''.join(map(str, perm)), sp.fields['_compositionDependentBulkN0'] is True)
    if E >= 2:
        ctx.prove('canary/sites-from-the-first-listed-solute', eq(sp.bulkN0 * Vm, xs[E - 1] * NA), expect='refuted')
