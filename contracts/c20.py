"""C20 -- saved files and surrogates reproduce what they were made from (DESIGN 6, C20)."""
from kvc.dsl import *
from kvc import sym
from .c19 import mk_pdata, PHASES, ELEMS, pdata_shapes
from .common import pbm_obj, PBM_MOD

REG = Registry('C20')
REG.assumptions += [
    'np.savez / np.savez_compressed / np.load: arrays (and python numbers / lists of numbers) round-trip exactly; anything else (None, objects) is '
    'pickled on save and refused by np.load(allow_pickle=False) -- modelled by the virtual .npz file system of the numpy model',
    'json.dump / json.load with NumpyEncoder round-trip nested lists of numbers, strings and booleans exactly',
    'scipy RBFInterpolator reproduces its data at the training nodes and is a function of (data, kwargs) (the kernel is replaced by a recording stub)',
    'P <= 2 phases, E <= 2 solutes; history length and grid sizes symbolic; PBM state satisfies PBM_INV and max >= 10*min (invariant of '
    'PopulationBalanceModel construction / re-mesh / extension, needed because fromDict rebuilds the PBM through its constructor)',
    'assumed contract on Surrogate._filter_points (scipy pdist / squareform and index-form np.where are outside the numpy model): all rows kept and returned as they are, '
    'or fewer rows returned and two distinct rows closer than the tolerance exist; the kernel of the current tree never calls it, so the assumption is unused there',
    'RBFKernel contract: with normalisation the training inputs spread in every dimension (column range > 0; the code divides by it); 2 feature columns, N training points symbolic',
]
REG.undecided += ['a trained surrogate reproduces its training data AT the training points: the kernel side is proved (RBFKernel hands the interpolator every training '
                  'point and queries it through the same affine map), the interpolation property of scipy RBFInterpolator is assumed, and the feature-vector construction '
                  'of the surrogate classes for arbitrary grids (meshgrid on symbolic sizes) is decided only for the first feature column']
PP = 'kawin.precipitation.PrecipitationParameters'
KB = 'kawin.precipitation.KWNBase'
KE = 'kawin.precipitation.KWNEuler'
GM = 'kawin.GenericModel'
DIFF = 'kawin.diffusion.Diffusion'
SUR = 'kawin.thermo.Surrogate'
# the sixteen recorded histories named by the property (NOT read from the code's ATTRIBUTES list)
HISTORIES = ['time', 'temperature', 'composition', 'xEqAlpha', 'xEqBeta', 'drivingForce', 'impingement', 'Gcrit', 'Rcrit', 'nucRate',
             'precipitateDensity', 'Rnuc', 'Ravg', 'ARavg', 'volFrac', 'fconc']


def same_array(ctx, name, a, b):
    ok = isinstance(a, ArrBase) and isinstance(b, ArrBase) and a.ndim == b.ndim
    ctx.prove(name + '/is-array-of-same-rank', ok)
    if not ok:
        return
    if a is b or a.snap() is b.snap():
        ctx.prove(name + '/same-shape-and-values', and_(*[eq(d, e) for d, e in zip(a.shape, b.shape)]) if a.shape else True)
        return
    if getattr(ctx, 'replay', False):
        import itertools
        okk = tuple(a.shape) == tuple(b.shape)
        r = okk
        if okk:
            for ix in itertools.product(*[range(int(d)) for d in a.shape]):
                r = and_(r, eq(a.get(*ix), b.get(*ix)))
        ctx.prove(name + '/same-shape-and-values', r)
        return
    idx = [ctx.fresh('ri', 'int') for _ in a.shape]
    inb = and_(*[and_(i >= 0, lt(i, d)) for i, d in zip(idx, a.shape)]) if a.shape else True
    ctx.prove(name + '/same-shape-and-values', and_(and_(*[eq(d, e) for d, e in zip(a.shape, b.shape)]) if a.shape else True,
                                                    implies(inb, eq(a.get(*idx), b.get(*idx)))), inst=idx)


def mk_precip_model(ctx, it, P, E, tag):
    pd, n = mk_pdata(ctx, it, P, E, tag=tag)
    pbms, ars = [], []
    for p in range(P):
        o, w = pbm_obj(ctx, it, tag='%sp%d_' % (tag, p))
        ctx.assume(ge(o.max, 10 * o.min))
        pbms.append(o)
        ars.append(array(ctx, '%seqAR%d' % (tag, p), (o.bins + 1,)))
    m = new_obj(it, KE, 'PrecipitateModel', phases=to_arr(PHASES[:P]), elements=ELEMS[:E], pData=pd, PBM=pbms, eqAspectRatio=ars,
                numberOfElements=E, couplingModels=[])
    return m, pd, n


def fresh_precip_model(ctx, it, P, E):
    """a freshly constructed model of the same configuration (its own arrays, default grids)"""
    PD = it.get(PP, 'PrecipitationData')
    PBM = it.get(PBM_MOD, 'PopulationBalanceModel')
    m = new_obj(it, KE, 'PrecipitateModel', phases=to_arr(PHASES[:P]), elements=ELEMS[:E], pData=PD(PHASES[:P], ELEMS[:E]),
                PBM=[PBM() for _ in range(P)], eqAspectRatio=[None for _ in range(P)], numberOfElements=E, couplingModels=[])
    return m


@REG.contract('PrecipitateModel/save-load-round-trip', [KE + ':PrecipitateModel.toDict', KE + ':PrecipitateModel.fromDict', KB + ':PrecipitateBase.toDict',
              KB + ':PrecipitateBase.fromDict', PP + ':PrecipitationData.toDict', PP + ':PrecipitationData.fromDict', GM + ':GenericModel.save', GM + ':GenericModel.load'],
              configs=[dict(name='P=%d,E=%d,%s' % (P, E, via), P=P, E=E, via=via) for P, E in ((1, 1), (2, 2)) for via in ('dict', 'file')])
def c_precip(ctx, it, cfg):
    P, E = cfg['P'], cfg['E']
    m1, pd1, n = mk_precip_model(ctx, it, P, E, 'saved_')
    m2 = fresh_precip_model(ctx, it, P, E)
    pre = snapshot(m1)
    pre_pd = snapshot(pd1)
    if cfg['via'] == 'dict':
        data = m1.toDict()
        # every value must be storable without pickling
        bad = [k for k, v in data.items() if not (isinstance(v, ArrBase) or isinstance(sym._generic(v), (SV, int, Fraction))
                                                  or (isinstance(v, list) and all(isinstance(sym._generic(e), (SV, int, Fraction)) for e in v)))]
        ctx.prove('dictionary-holds-only-arrays-and-numbers', bad == [])
        m2.fromDict(data)
    else:
        m1.save('run')
        m2.load('run')
    frame(ctx, 'saving-only-reads/model', m1, pre, modifies=[])
    frame(ctx, 'saving-only-reads/pData', pd1, pre_pd, modifies=[])
    pd2 = m2.fields['pData']
    for h in HISTORIES:
        if h not in pd2.fields:
            ctx.prove('history/%s' % h, False)
            continue
        same_array(ctx, 'history/%s' % h, pd1.fields[h], pd2.fields[h])
    ctx.prove('step-counter', eq(pd2.fields['n'], n))
    ctx.prove('canary/loaded-history-one-step-short', eq(pd2.fields['time'].shape[0], n), expect='refuted')
    for p in range(P):
        a, b = m1.fields['PBM'][p], m2.fields['PBM'][p]
        ctx.prove('phase%d/grid-scalars' % p, and_(eq(a.bins, b.bins), eq(a.min, b.min), eq(a.max, b.max)))
        for f in ('PSD', 'PSDbounds', 'PSDsize'):
            same_array(ctx, 'phase%d/%s' % (p, f), a.fields[f], b.fields[f])
        same_array(ctx, 'phase%d/eqAspectRatio' % p, m1.fields['eqAspectRatio'][p], m2.fields['eqAspectRatio'][p])
        ctx.prove('phase%d/loaded-PBM-is-a-population-balance-model' % p, isinstance(b, Obj) and b.cls.name == 'PopulationBalanceModel')


def mk_diff(ctx, it, E, record, tag):
    from . import c04
    m, N, dz, bc, els, x, minC = c04.mk_model(ctx, it, E, (0, 0) * E, record=record, tag=tag)
    if record:
        L = integer(ctx, tag + 'L', lambda v: v >= 1)
        m.fields['_recordedX'] = array(ctx, tag + 'recX', (L, E, N))
        m.fields['_recordedTime'] = array(ctx, tag + 'recT', (L,))
    return m, N


@REG.contract('DiffusionModel/save-load-round-trip', [DIFF + ':DiffusionModel.toDict', DIFF + ':DiffusionModel.fromDict', GM + ':GenericModel.save', GM + ':GenericModel.load'],
              configs=[dict(name='E=%d,%s' % (E, 'recording' if r else 'not-recording'), E=E, rec=r) for E in (1, 2) for r in (True, False)])
def c_diff(ctx, it, cfg):
    E = cfg['E']
    m1, N = mk_diff(ctx, it, E, cfg['rec'], 'saved_')
    m2, N2 = mk_diff(ctx, it, E, cfg['rec'], 'fresh_')
    pre = snapshot(m1)
    m1.save('diffusion_run')
    m2.load('diffusion_run')
    frame(ctx, 'saving-only-reads/model', m1, pre, modifies=[])
    t2 = m2.fields['t']
    ctx.prove('current-time', eq(t2.get() if isinstance(t2, ArrBase) and t2.ndim == 0 else t2, m1.fields['t']))
    same_array(ctx, 'current-profile', m1.fields['x'], m2.fields['x'])
    ctx.prove('canary/profile-zeroed', eq(m2.fields['x'].get(0, 0), 0), expect='refuted')
    if cfg['rec']:
        same_array(ctx, 'recorded-profiles', m1.fields['_recordedX'], m2.fields['_recordedX'])
        same_array(ctx, 'recorded-times', m1.fields['_recordedTime'], m2.fields['_recordedTime'])
    else:
        ctx.prove('nothing-recorded-stays-nothing', m2.fields['_recordedX'] is None and m2.fields['_recordedTime'] is None)


# ---------------------------------------------------------------------------------------------------
class ThermStub(object):
    """arbitrary thermodynamics: every query returns a fresh token and is logged with its arguments"""
    numElements = 2
    elements = ['AL', 'ZR']
    phases = ['FCC_A1', 'AL3ZR']

    def __init__(self, log, nel=2):
        self.log = log
        self.numElements = nel
        self.elements = ['NI', 'AL', 'CR'][:nel]

    def __getattr__(self, name):
        if name.startswith('_'):
            raise AttributeError(name)

        def call(*a, **k):
            tok = ('result', name, len(self.log))
            self.log.append((name, a, k, tok))
            return tok
        return call


_PASS = [('GeneralSurrogate', 'getDrivingForce', ('x', 'T'), dict(precPhase='AL3ZR')),
         ('GeneralSurrogate', 'getInterdiffusivity', ('x', 'T'), dict(phase='FCC_A1')),
         ('GeneralSurrogate', 'getTracerDiffusivity', ('x', 'T'), dict(phase='FCC_A1')),
         ('BinarySurrogate', 'getInterfacialComposition', ('T', 'g'), dict(precPhase='AL3ZR')),
         ('MulticomponentSurrogate', 'curvatureFactor', ('x', 'T'), dict(precPhase='AL3ZR')),
         ('MulticomponentSurrogate', 'getGrowthAndInterfacialComposition', ('x', 'T', 'dG', 'R', 'g'), dict(precPhase='AL3ZR')),
         ('MulticomponentSurrogate', 'impingementFactor', ('x', 'T'), dict(precPhase='AL3ZR'))]


@REG.contract('surrogate/untrained-pass-through', [SUR + ':%s.%s' % (c, f) for c, f, _, _ in _PASS],
              configs=[dict(name='%s.%s%s' % (c, f, ',default-phase' if d else ''), k=k, default=d) for k, (c, f, _, _) in enumerate(_PASS) for d in (False, True)])
def c_pass(ctx, it, cfg):
    cname, fname, argnames, kw = _PASS[cfg['k']]
    log = []
    therm = ThermStub(log, 2 if cname != 'MulticomponentSurrogate' else 3)
    S = it.get(SUR, cname)
    s = S(therm)
    args = [object() for _ in argnames]
    kwargs = {} if cfg['default'] else dict(kw)
    r = getattr(s, fname)(*args, **kwargs)
    calls = [e for e in log]
    ctx.prove('exactly-one-backend-query', len(calls) == 1)
    if len(calls) != 1:
        return
    name, a, k, tok = calls[0]
    ctx.prove('same-quantity-is-asked-of-the-backend', name == fname)
    ctx.prove('returns-exactly-what-the-backend-returned', r is tok)
    ctx.prove('same-arguments', len(a) >= len(args) and all(x is y for x, y in zip(a, args)))
    phase_key = list(kw)[0]
    want_phase = kw[phase_key]
    got = k.get(phase_key, a[len(args)] if len(a) > len(args) else None)
    ctx.prove('phase-resolved-and-forwarded', got == want_phase)


class KernelStub(object):
    built = []

    def __init__(self, x, y, *args, **kwargs):
        self.x, self.y, self.args, self.kwargs = x, y, args, dict(kwargs)
        KernelStub.built.append(self)


_FITS = [('GeneralSurrogate', '_fitDrivingForce', 'drivingForceData', 'drivingForceModels'),
         ('GeneralSurrogate', '_fitDiffusivity', 'diffusivityData', 'diffusivityModels'),
         ('BinarySurrogate', '_fitInterfacialComposition', 'interfacialCompositionData', 'interfacialCompositionModels')]


def _train_data(ctx, which, n):
    col = lambda nm: array(ctx, nm, (n, 1), fact=lambda v, i, j: v > 0)
    vec = lambda nm: array(ctx, nm, (n,), fact=lambda v, i: v > 0)
    if which == 'drivingForceData':
        return {'x': col('x'), 'T': vec('T'), 'dg': vec('dg'), 'xp': vec('xp'), 'logX': False, 'singleX': False, 'singleT': False}
    if which == 'diffusivityData':
        return {'x': col('x'), 'T': vec('T'), 'dnkj': vec('dnkj'), 'dtracer': array(ctx, 'dtracer', (n, 2)), 'logX': False, 'singleX': False, 'singleT': False}
    return {'T': vec('T'), 'gExtra': vec('gExtra'), 'xpalpha': vec('xpalpha'), 'xpbeta': vec('xpbeta'), 'logY': False, 'singleT': False, 'singleG': False}


@REG.contract('surrogate/fit-always-refits-from-current-data', [SUR + ':%s.%s' % (c, f) for c, f, _, _ in _FITS] + [SUR + ':GeneralSurrogate._createInput'],
              configs=[dict(name=f, k=k) for k, (c, f, _, _) in enumerate(_FITS)])
def c_fit(ctx, it, cfg):
    cname, fname, dname, mname = _FITS[cfg['k']]
    KernelStub.built = []
    s = it.get(SUR, cname)(ThermStub([]), KernelStub, {'kernel': 'cubic', 'normalize': True})
    n = integer(ctx, 'n', lambda v: v >= 2)
    stale = object()
    s.fields[mname]['AL3ZR'] = stale                   # a model fitted to EARLIER training data
    data = _train_data(ctx, dname, n)
    s.fields[dname]['AL3ZR'] = data
    getattr(s, fname)('AL3ZR')
    mdl = s.fields[mname]['AL3ZR']
    ctx.prove('model-replaced-by-a-new-fit', mdl is not stale and isinstance(mdl, KernelStub) and len(KernelStub.built) == 1)
    if not isinstance(mdl, KernelStub):
        return
    ctx.prove('fitted-with-the-configured-kernel-arguments', mdl.kwargs == {'kernel': 'cubic', 'normalize': True} and mdl.args == ())
    ctx.prove('one-training-row-per-data-point', and_(isinstance(mdl.x, ArrBase) and mdl.x.ndim == 2, eq(mdl.x.shape[0], n), isinstance(mdl.y, ArrBase), eq(mdl.y.shape[0], n)))
    # the training inputs are the CURRENT data (first feature column is x / T of the stored data)
    first = data['x'] if 'x' in data else data['T']
    forall(ctx, 'training-inputs-come-from-the-current-data', 0, n, lambda i: eq(mdl.x.get(i, 0), first.get(i, 0) if first.ndim == 2 else first.get(i)))
    # fitting when no data are stored does nothing
    s2 = it.get(SUR, cname)(ThermStub([]), KernelStub, {})
    getattr(s2, fname)('AL3ZR')
    ctx.prove('no-data-no-model', 'AL3ZR' not in s2.fields[mname])


@REG.contract('RBFKernel/fitted-on-every-training-point-and-queried-through-the-same-map', [SUR + ':RBFKernel.__init__', SUR + ':RBFKernel.predict'],
              configs=[dict(name='normalize=%s' % nz, nz=nz) for nz in (True, False)])
def c_rbf(ctx, it, cfg):
    """the kernel hands the interpolator EVERY training point (row i = the affinely rescaled training input i, with its own output i) and queries it through the
    same affine map; with the interpolation property of scipy's RBFInterpolator (assumed, see assumptions) the surrogate therefore reproduces its training
    data at the training points"""
    built = []

    class Interp(object):
        def __init__(self, x, y, *args, **kwargs):
            self.x, self.y, self.args, self.kwargs, self.asked = x, y, args, dict(kwargs), []
            built.append(self)

        def __call__(self, q):
            self.asked.append(q)
            return ('answer', len(self.asked))
    it.load(SUR).env['RBFInterpolator'] = Interp
    filt = []

    def filter_points(inputs, outputs, tol=1e-3):
        # ASSUMED contract on the module's helper _filter_points (scipy pdist/squareform, index-form np.where: outside the numpy model); the kernel
        # of the current tree does not call it.  Contract: either every row is kept (inputs and outputs returned as they are), or at least one row is
        # dropped and then two rows p < q at a distance in (0, tol] exist; which rows survive is left arbitrary.
        filt.append(1)
        k = len(filt)
        inputs = to_arr(inputs)
        n0, dd = inputs.shape
        n1 = integer(ctx, 'kept%d' % k, lambda v: and_(v >= 1, v <= n0))
        p_ = integer(ctx, 'closeP%d' % k)
        q_ = integer(ctx, 'closeQ%d' % k)
        d2 = 0
        for j in range(dd):
            d2 = d2 + (inputs.get(p_, j) - inputs.get(q_, j)) * (inputs.get(p_, j) - inputs.get(q_, j))
        ctx.assume(or_(eq(n1, n0), and_(lt(n1, n0), p_ >= 0, lt(p_, q_), lt(q_, n0), gt(d2, 0), le(d2, tol * tol))))
        fin, keep = array(ctx, 'filteredIn%d' % k, (n1, dd)), eq(n1, n0)
        src = inputs.snap()
        new_in = Arr((n1, dd), lambda i, j: ite(keep, src(i, j), fin.get(i, j)), 'real')
        new_out = []
        for m_, o in enumerate(outputs):
            o = to_arr(o)
            fo, so = array(ctx, 'filteredOut%d_%d' % (k, m_), (n1,) + tuple(o.shape[1:])), o.snap()
            new_out.append(Arr((n1,) + tuple(o.shape[1:]), (lambda fo, so: lambda *ix: ite(keep, so(*ix), fo.get(*ix)))(fo, so), 'real'))
        return new_in, new_out
    it.load(SUR).env['_filter_points'] = filter_points
    N = integer(ctx, 'N', lambda v: v >= 2)
    d = 2
    x = array(ctx, 'xtrain', (N, d))
    y = array(ctx, 'ytrain', (N,))
    xs, ys = snapshot(x), snapshot(y)
    kw = {'kernel': 'cubic', 'normalize': True} if cfg['nz'] else {'kernel': 'cubic'}
    kw0 = dict(kw)
    K = it.get(SUR, 'RBFKernel')
    k = K(x, y, **kw)
    ctx.prove('one-interpolator-built', len(built) == 1 and k.fields['rbfModel'] is built[0])
    if len(built) != 1:
        return
    m = built[0]
    off, sc = k.fields['xoffset'], k.fields['scale']
    if cfg['nz']:
        # training inputs spread in every dimension (largest > smallest value of each column; otherwise the code's rescaling divides by zero)
        ctx.prove('scale-is-the-column-range-over-N', and_(*[eq(sc.get(j) * N, NP.amax(x, axis=0).get(j) - NP.amin(x, axis=0).get(j)) for j in range(d)]))
        ctx.assume(and_(*[gt(sc.get(j), 0) for j in range(d)]))
    ctx.prove('all-N-training-points-handed-over', and_(isinstance(m.x, ArrBase) and m.x.ndim == 2 and m.x.shape[1] == d, eq(m.x.shape[0], N), m.y is y or (isinstance(m.y, ArrBase) and m.y.ndim == 1), eq(m.y.shape[0], N)))
    i = integer(ctx, 'i', lambda v: and_(v >= 0, v < N))
    for j in range(d):
        ctx.prove('row-i-is-training-input-i-rescaled[col%d]' % j, eq(m.x.get(i, j) * sc.get(j), x.get(i, j) - off.get(j)), inst=[i])
    ctx.prove('output-i-stays-with-input-i', eq(m.y.get(i), y.get(i)), inst=[i])
    ctx.prove('hyperparameters-forwarded-without-the-normalize-switch', m.kwargs == {'kernel': 'cubic'} and m.args == ())
    if not cfg['nz']:
        ctx.prove('identity-map-without-normalisation', and_(*[and_(eq(off.get(j), 0), eq(sc.get(j), 1)) for j in range(d)]))
    unchanged(ctx, 'training-inputs', xs, x)
    unchanged(ctx, 'training-outputs', ys, y)
    M = integer(ctx, 'M', lambda v: v >= 1)
    q = array(ctx, 'query', (M, d))
    r = k.predict(q)
    ctx.prove('answer-is-the-interpolators', r == ('answer', 1) and len(m.asked) == 1)
    qq = m.asked[0]
    t = integer(ctx, 't', lambda v: and_(v >= 0, v < M))
    for j in range(d):
        ctx.prove('query-goes-through-the-same-map[col%d]' % j, eq(qq.get(t, j) * sc.get(j), q.get(t, j) - off.get(j)), inst=[t])
    # hence a query AT training input i reaches the interpolator AT the point it was fitted on
    ctx.assume(and_(*[eq(q.get(t, j), x.get(i, j)) for j in range(d)]))
    ctx.prove('training-point-queried-where-it-was-fitted', and_(*[eq(qq.get(t, j), m.x.get(i, j)) for j in range(d)]), inst=[t, i])
    ctx.prove('canary/fitted-on-the-raw-inputs', eq(m.x.get(i, 0), x.get(i, 0)), expect='refuted' if cfg['nz'] else None) if cfg['nz'] else None


@REG.contract('surrogate/rebuild-from-saved-data', [SUR + ':GeneralSurrogate._collectSurrogateData', SUR + ':GeneralSurrogate._processSurrogateData',
              SUR + ':BinarySurrogate._collectSurrogateData', SUR + ':BinarySurrogate._processSurrogateData',
              SUR + ':MulticomponentSurrogate._collectSurrogateData', SUR + ':MulticomponentSurrogate._processSurrogateData'],
              configs=[dict(name=c, cls=c) for c in ('GeneralSurrogate', 'BinarySurrogate', 'MulticomponentSurrogate')])
def c_json(ctx, it, cfg):
    S = it.get(SUR, cfg['cls'])
    a = S(ThermStub([], 3 if cfg['cls'].startswith('Multi') else 2), KernelStub, {'k': 1})
    groups = {'drivingForce': ('drivingForceData', '_fitDrivingForce'), 'diffusivity': ('diffusivityData', '_fitDiffusivity')}
    if cfg['cls'] == 'BinarySurrogate':
        groups['interfacialComposition'] = ('interfacialCompositionData', '_fitInterfacialComposition')
    if cfg['cls'] == 'MulticomponentSurrogate':
        groups['curvature'] = ('curvatureData', '_fitCurvature')
    tokens = {}
    for g, (field, fit) in groups.items():
        tokens[g] = {'PH1': object(), 'PH2': object()}
        a.fields[field] = dict(tokens[g])
    saved = a._collectSurrogateData()
    ctx.prove('saved-data-has-every-quantity', set(saved) == set(groups) and all(saved[g] == tokens[g] for g in groups))
    b = S(ThermStub([], 3 if cfg['cls'].startswith('Multi') else 2), KernelStub, {'k': 1})
    fits = []
    for g, (field, fit) in groups.items():
        b.fields[fit] = (lambda ph, fit=fit: fits.append((fit, ph)))
    b._processSurrogateData(saved)
    for g, (field, fit) in groups.items():
        ctx.prove('%s/training-data-restored-entry-by-entry' % g, b.fields[field] == tokens[g])
        ctx.prove('%s/refitted-once-per-phase' % g, sorted(ph for f, ph in fits if f == fit) == ['PH1', 'PH2'])
    ctx.prove('no-other-fit', len(fits) == 2 * len(groups))


@REG.contract('StrengthModel/save-load-round-trip', ['kawin.precipitation.coupling.Strength:StrengthModel.save', 'kawin.precipitation.coupling.Strength:StrengthModel.load'],
              configs=[dict(name='compressed', comp=True), dict(name='uncompressed', comp=False)])
def c_strength_io(ctx, it, cfg):
    """the three histories the strength model saves come back unchanged, each under its own name, with either file format"""
    SM = 'kawin.precipitation.coupling.Strength'
    n = integer(ctx, 'n', lambda v: v >= 1)
    P = 2
    ss = array(ctx, 'ssStrength', (n,))
    rss = array(ctx, 'rss', (n, P))
    ls = array(ctx, 'ls', (n, P))
    a = new_obj(it, SM, 'StrengthModel', solidStrength=ss, rss=rss, ls=ls)
    pre = snapshot(a)
    a.save('strength.npz', cfg['comp'])
    frame(ctx, 'save/model-unchanged', a, pre, modifies=[])
    b = new_obj(it, SM, 'StrengthModel', solidStrength=None, rss=None, ls=None)
    b.load('strength.npz')
    for k, src in (('solidStrength', ss), ('rss', rss), ('ls', ls)):
        got = b.fields[k]
        ok = isinstance(got, ArrBase) and got.ndim == src.ndim
        ctx.prove('%s/same-shape' % k, and_(*[eq(got.shape[d], src.shape[d]) for d in range(src.ndim)]) if ok else False)
        if ok and src.ndim == 1:
            forall(ctx, '%s/same-values' % k, 0, n, lambda i: eq(got.get(i), src.get(i)))
        elif ok:
            forall(ctx, '%s/same-values' % k, 0, n, lambda i: and_(*[eq(got.get(i, p), src.get(i, p)) for p in range(P)]))
    ctx.prove('canary/ls-is-rss', eq(b.fields['ls'].get(0, 0), rss.get(0, 0)), expect='refuted')


@REG.contract('PopulationBalanceModel/recorded-history-round-trip', ['kawin.precipitation.PopulationBalance:PopulationBalanceModel.saveRecordedPSD',
              'kawin.precipitation.PopulationBalance:PopulationBalanceModel.loadRecordedPSD'], configs=[dict(name='compressed', comp=True), dict(name='uncompressed', comp=False)])
def c_pbm_io(ctx, it, cfg):
    """the recorded times, class boundaries and distributions come back unchanged, each under its own name"""
    from .common import PBM_MOD
    k = integer(ctx, 'records', lambda v: v >= 1)
    mb = integer(ctx, 'maxBins', lambda v: v >= 1)
    rt = array(ctx, 'rec_time', (k,))
    rb = array(ctx, 'rec_bins', (k, mb + 1))
    rp = array(ctx, 'rec_PSD', (k, mb))
    a = new_obj(it, PBM_MOD, 'PopulationBalanceModel', _record=True, _recordedTime=rt, _recordedBins=rb, _recordedPSD=rp)
    pre = snapshot(a)
    a.saveRecordedPSD('psd.npz', cfg['comp'])
    frame(ctx, 'save/model-unchanged', a, pre, modifies=[])
    b = new_obj(it, PBM_MOD, 'PopulationBalanceModel', _record=False, _recordedTime=None, _recordedBins=None, _recordedPSD=None)
    b.loadRecordedPSD('psd.npz')
    ctx.prove('recording-switched-on-by-load', b.fields['_record'] is True)
    i, j = integer(ctx, 'i', lambda v: v >= 0), integer(ctx, 'j', lambda v: v >= 0)
    ctx.assume(i < k)
    for name, src, cols in (('_recordedTime', rt, None), ('_recordedBins', rb, mb + 1), ('_recordedPSD', rp, mb)):
        got = b.fields[name]
        ok = isinstance(got, ArrBase) and got.ndim == src.ndim
        ctx.prove('%s/same-shape' % name, and_(*[eq(got.shape[d], src.shape[d]) for d in range(src.ndim)]) if ok else False)
        if ok and cols is None:
            ctx.prove('%s/same-values' % name, eq(got.get(i), src.get(i)), inst=[i])
        elif ok:
            ctx.prove('%s/same-values' % name, implies(j < cols, eq(got.get(i, j), src.get(i, j))), inst=[i, j])
    ctx.prove('canary/boundaries-hold-the-distribution', eq(b.fields['_recordedBins'].get(0, 0), rp.get(0, 0)), expect='refuted')


@REG.contract('GenericModel.save-load/file-names', ['kawin.GenericModel:GenericModel.save', 'kawin.GenericModel:GenericModel.load'],
              configs=[dict(name=a + '|' + b, names=(a, b)) for a, b in (('run_t0.25h', 'run_t0.50h'), ('run', 'run.v2'), ('a.npz', 'b.npz'), ('run_t0.25h.npz', 'run_t0.25h'))])
def c_file_names(ctx, it, cfg):
    """two snapshots saved under two different names are two files: loading a name gives back what was saved under THAT name ('.npz' appended when missing,
    nothing else done to the name -- a dot inside the name is part of the name)"""
    GMm = 'kawin.GenericModel'
    a, b = cfg['names']
    full = lambda nm: nm if nm.endswith('.npz') else nm + '.npz'
    m1 = new_obj(it, GMm, 'GenericModel', couplingModels=[])
    m2 = new_obj(it, GMm, 'GenericModel', couplingModels=[])
    n1, n2 = integer(ctx, 'n1', lambda v: v >= 1), integer(ctx, 'n2', lambda v: v >= 1)
    d1 = {'time': array(ctx, 'time_first', (n1,))}
    d2 = {'time': array(ctx, 'time_second', (n2,))}
    m1.fields['toDict'] = lambda: d1
    m2.fields['toDict'] = lambda: d2
    got = {}
    r1 = new_obj(it, GMm, 'GenericModel', couplingModels=[])
    r1.fields['fromDict'] = lambda data: got.update(first=data)
    r2 = new_obj(it, GMm, 'GenericModel', couplingModels=[])
    r2.fields['fromDict'] = lambda data: got.update(second=data)
    m1.save(a)
    m2.save(b)
    r1.load(a)
    r2.load(b)
    same_file = full(a) == full(b)
    for key, src, n_ in (('second', d2, n2),) + ((('first', d1, n1),) if not same_file else (('first', d2, n2),)):
        t = got[key]['time']
        ctx.prove('%s-snapshot-comes-back-under-its-own-name/length' % key, eq(t.shape[0], n_))
        forall(ctx, '%s-snapshot-comes-back-under-its-own-name/values' % key, 0, n_, lambda i: eq(t.get(i), src['time'].get(i)))
