"""C09 -- thermodynamic queries are pure: history, caching, batching change nothing (DESIGN 6, C09; partial)."""
from kvc.dsl import *
from kvc import sym
from .thermo_stubs import *

REG = Registry('C09')
REG.assumptions += [
    'python\'s builtin hash is injective on the tuples of truncated integers used as cache keys (false in principle, e.g. hash(-1) == hash(-2); admissible keys are non-negative)',
    'temperatures below 1e5 K, mole fractions in [0, 1]; cache precision 10^s with s <= 8',
    'the equilibrium / sampling routines of pycalphad are functions of their conditions (and of the starting composition sets only up to the convergence tolerance): '
    'this is the part of "history independence" that no contract here can decide -- it is assumed',
]
REG.undecided += [
    'value equality of two pycalphad computations started from different cached composition sets / evaluated alone or in a batch (numerical property of an external solver); '
    'what is proved is that kawin hands the backend the same arguments, refreshes the state variables of every re-used composition set, keys its own caches by the '
    'queried phase / temperature, and never modifies caller arrays',
]
DP = 'kawin.diffusion.DiffusionParameters'
UT = 'kawin.thermo.utils'
TH = 'kawin.thermo.Thermodynamics'
BT = 'kawin.thermo.BinTherm'
LE = 'kawin.thermo.LocalEquilibrium'


def mk_point(ctx, tag, E=2):
    x = NP.array([real(ctx, '%sx%d' % (tag, e), lambda v: v >= 0, lambda v: v <= 1) for e in range(E)])
    T = real(ctx, tag + 'T', lambda v: v > 0, lambda v: v < 100000)
    return x, T


@REG.contract('HashTable/cache-discipline', [DP + ':HashTable.%s' % f for f in ('__init__', 'enableCaching', 'clearCache', 'setHashSensitivity', '_hashingFunction',
              'retrieveFromHashTable', 'addToHashTable')], configs=[dict(name='sensitivity=%d' % s, s=s) for s in (4, 8)])
def c_hash(ctx, it, cfg):
    H = it.get(DP, 'HashTable')
    h = H()
    h.setHashSensitivity(cfg['s'])
    S = 10 ** cfg['s']
    x1, T1 = mk_point(ctx, 'a_')
    x2, T2 = mk_point(ctx, 'b_')
    v1 = object()
    ctx.prove('empty-cache-has-nothing', h.retrieveFromHashTable(x2, T2) is None)
    s1 = snapshot(x1)
    h.addToHashTable(x1, T1, v1)
    unchanged(ctx, 'arg:x-not-modified-by-add', s1, x1)
    same_key = and_(*[eq(sym.trunc_int(x1.get(e) * S), sym.trunc_int(x2.get(e) * S)) for e in range(2)], eq(sym.trunc_int(T1 * S), sym.trunc_int(T2 * S)))
    ctx.prove('canary/two-points-need-not-share-a-key', same_key, expect='refuted')
    ctx.prove('canary/two-points-may-share-a-key', not_(same_key), expect='refuted')
    r = h.retrieveFromHashTable(x2, T2)
    if r is v1:
        ctx.prove('cached-value-reused-only-for-a-point-that-rounds-to-the-same-key', same_key)
    else:
        ctx.prove('miss-returns-None', r is None)
        ctx.prove('a-point-that-rounds-to-the-same-key-hits', not_(same_key))
    # the same point always hits while caching is on
    ctx.prove('same-point-hits', h.retrieveFromHashTable(x1, T1) is v1)
    h.clearCache()
    ctx.prove('clearCache-forgets-everything', h.retrieveFromHashTable(x1, T1) is None)
    # switching the cache off: nothing is returned and nothing is stored
    h.addToHashTable(x1, T1, v1)
    h.enableCaching(False)
    ctx.prove('disabled-cache-returns-nothing', h.retrieveFromHashTable(x1, T1) is None)
    h.clearCache()
    h.addToHashTable(x1, T1, v1)
    h.enableCaching(True)
    ctx.prove('disabled-cache-stores-nothing', h.retrieveFromHashTable(x1, T1) is None)


@REG.contract('broadcast-helpers', [UT + ':_process_xT_arrays', UT + ':_process_TG_arrays', UT + ':_process_x'],
              configs=[dict(name=n, case=n) for n in ('x-single,T-many', 'x-many,T-single', 'equal-lengths', 'TG-T-single', 'TG-G-single')])
def c_broadcast(ctx, it, cfg):
    """evaluating a point alone or inside an array hands the single-point routines the same numbers; inputs are not modified"""
    m = it.load(UT).env
    n = integer(ctx, 'n', lambda v: v >= 2)
    E = 2
    if cfg['case'].startswith('TG'):
        if cfg['case'] == 'TG-T-single':
            T, G = real(ctx, 'T'), array(ctx, 'g', (n,))
        else:
            T, G = array(ctx, 'T', (n,)), real(ctx, 'g')
        sT, sG = snapshot(T), snapshot(G)
        T2, G2 = m['_process_TG_arrays'](T, G)
        ctx.prove('same-length', and_(eq(T2.shape[0], n), eq(G2.shape[0], n)))
        forall(ctx, 'point-i-is-the-i-th-input-point', 0, n, lambda i: and_(eq(T2.get(i), T.get(i) if isinstance(T, ArrBase) else T), eq(G2.get(i), G.get(i) if isinstance(G, ArrBase) else G)))
        ctx.prove('canary/outputs-are-not-constant', eq(G2.get(0), 0), expect='refuted')
        unchanged(ctx, 'arg:T', sT, T)
        unchanged(ctx, 'arg:gExtra', sG, G)
        return
    if cfg['case'] == 'x-single,T-many':
        x, T = NP.array([real(ctx, 'x%d' % e) for e in range(E)]), array(ctx, 'T', (n,))
    elif cfg['case'] == 'x-many,T-single':
        x, T = array(ctx, 'x', (n, E)), real(ctx, 'T')
    else:
        x, T = array(ctx, 'x', (n, E)), array(ctx, 'T', (n,))
    sx, sT = snapshot(x), snapshot(T)
    x2, T2 = m['_process_xT_arrays'](x, T, False)
    ctx.prove('shapes', and_(x2.ndim == 2 and T2.ndim == 1, eq(x2.shape[0], n), eq(x2.shape[1], E), eq(T2.shape[0], n)))
    forall(ctx, 'point-i-is-the-i-th-input-point', 0, n, lambda i: and_(eq(T2.get(i), T.get(i) if isinstance(T, ArrBase) else T),
           *[eq(x2.get(i, e), x.get(i, e) if x.ndim == 2 else x.get(e)) for e in range(E)]))
    ctx.prove('canary/outputs-are-not-constant', eq(x2.get(1, 0), 0), expect='refuted')
    unchanged(ctx, 'arg:x', sx, x)
    unchanged(ctx, 'arg:T', sT, T)


@REG.contract('BinaryThermodynamics._interfacialCompositionFromEq/does-not-modify-its-argument', [BT + ':BinaryThermodynamics._interfacialCompositionFromEq',
              BT + ':BinaryThermodynamics.getInterfacialComposition'])
def c_bin_frame(ctx, it, cfg):
    v = install(it)

    class Coords(object):
        def keys(self):
            return ['GE', 'N', 'P', 'T', 'X_ZR']

    class Eq(object):
        coords = Coords()

    class Wks(object):
        eq = Eq()

        def __init__(self, *a, **k):
            Wks.cond = a[3] if len(a) > 3 else None

        def enumerate_composition_sets(self):
            return []
    FakePycalphad.Workspace = Wks
    try:
        b = new_obj(it, BT, 'BinaryThermodynamics', elements=['AL', 'ZR', 'VA'], phases=['FCC_A1', 'AL3ZR'], db=None, phase_records=None, pDens=500, reverse=False,
                    _guessComposition={'AL3ZR': (0, 1, 0.1)})
        b.fields['_setupSubModels'] = lambda p: (['FCC_A1', 'AL3ZR'], {})
        b.fields['_interfacialComposition'] = b._interfacialCompositionFromEq
        n = integer(ctx, 'n', lambda v_: v_ >= 2)
        g = array(ctx, 'gExtra', (n,))
        s = snapshot(g)
        T = real(ctx, 'T')
        xa, xb = b._interfacialCompositionFromEq(T, g, 'AL3ZR')
        unchanged(ctx, 'arg:gExtra (single-temperature path)', s, g)
        cond_g = Wks.cond[v.GE]
        off = it.get(TH, 'GeneralThermodynamics').attrs['gOffset']
        forall(ctx, 'backend-receives-gExtra-plus-the-documented-offset', 0, n, lambda i: eq(cond_g.get(i), g.get(i) + off))
        ctx.prove('canary/offset-is-not-zero', eq(cond_g.get(0), g.get(0)), expect='refuted')
        ctx.prove('backend-receives-the-temperature', eq(Wks.cond[v.T], T))
    finally:
        FakePycalphad.Workspace = Opaque('pycalphad.Workspace')


@REG.contract('diffusivity-cache/keyed-by-the-queried-phase', [TH + ':GeneralThermodynamics._interdiffusivitySingle', TH + ':GeneralThermodynamics._tracerDiffusivitySingle',
              TH + ':GeneralThermodynamics.clearCache', TH + ':GeneralThermodynamics._resetDrivingForceCache'],
              configs=[dict(name='%s,removeCache=%s' % (ph, rc), phase=ph, rc=rc) for ph in ('FCC_A1', 'BCC_A2') for rc in (True, False)])
def c_diff_cache(ctx, it, cfg):
    from .c11 import mk_therm
    els = ['FE', 'CR', 'NI', 'VA']
    th, v = mk_therm(ctx, it, els)
    th.fields['phases'] = ['FCC_A1', 'BCC_A2']
    th.fields['mobCallables'] = {'FCC_A1': 'CALL_FCC', 'BCC_A2': 'CALL_BCC'}
    th.fields['diffCallables'] = {'FCC_A1': None, 'BCC_A2': None}
    mod = it.load(TH)
    log = []
    prior = {'FCC_A1': ['CS_FCC_OLD'], 'BCC_A2': ['CS_BCC_OLD']}
    th.fields['_diffusivity_cache'] = dict(prior)
    cs_new = [CompSet(ctx, 'new', cfg['phase'], els[:-1], v)]

    class Res(object):
        chemical_potentials = 'MU'

    def getLocalEq(x, T, g, phases, composition_sets=None):
        log.append(('eq', phases, composition_sets))
        return Res(), cs_new
    th.fields['getLocalEq'] = getLocalEq
    mod.env['inverseMobility'] = lambda mu, cs, ref, call, **k: (log.append(('inv', cs, call)), (NP.array([[real(ctx, 'D%d%d' % (i, j)) for j in range(2)] for i in range(2)]), None, None))[1]
    mod.env['tracer_diffusivity'] = lambda cs, call, **k: (log.append(('tr', cs, call)), NP.array([real(ctx, 'Dt%d' % i) for i in range(3)]))[1]
    x = NP.array([real(ctx, 'x0'), real(ctx, 'x1')])
    T = real(ctx, 'T')
    other = 'BCC_A2' if cfg['phase'] == 'FCC_A1' else 'FCC_A1'
    for fname in ('_interdiffusivitySingle', '_tracerDiffusivitySingle'):
        del log[:]
        th.fields['_diffusivity_cache'] = dict(prior)
        getattr(th, fname)(x, T, cfg['rc'], cfg['phase'])
        eqs = [e for e in log if e[0] == 'eq']
        ctx.prove('%s/equilibrium-for-the-queried-phase-only-starting-from-ITS-cached-sets' % fname, len(eqs) == 1 and eqs[0][1] == [cfg['phase']] and eqs[0][2] is prior[cfg['phase']])
        call = [e for e in log if e[0] in ('inv', 'tr')]
        ctx.prove('%s/mobility-functions-of-the-queried-phase' % fname, len(call) == 1 and call[0][2] == th.fields['mobCallables'][cfg['phase']] and call[0][1] is cs_new[0])
        cache = th.fields['_diffusivity_cache']
        ctx.prove('%s/cache-entry-of-the-queried-phase-%s' % (fname, 'dropped' if cfg['rc'] else 'updated'), cache.get(cfg['phase']) is (None if cfg['rc'] else cs_new))
        ctx.prove('%s/cache-entry-of-the-other-phase-untouched' % fname, cache.get(other) is prior[other])
    th.clearCache()
    ctx.prove('clearCache-empties-every-kawin-side-cache', len(th.fields['_diffusivity_cache']) == 0 and th.fields['_matrix_cs'] is None and len(th.fields['_compset_cache_df']) == 0 and len(th.fields['_points_cache']) == 0)
    th.fields['_compset_cache_df'] = {'BCC_A2': 'X'}
    th.fields['_matrix_cs'] = 'Y'
    th._resetDrivingForceCache('BCC_A2', True)
    ctx.prove('removeCache-drops-the-driving-force-caches', th.fields['_compset_cache_df']['BCC_A2'] is None and th.fields['_matrix_cs'] is None)


@REG.contract('local_equilibrium/re-used-composition-sets-get-the-current-state-variables', [LE + ':local_equilibrium'], configs=[dict(name='k=%d' % k, k=k) for k in (1, 2)])
def c_local_eq(ctx, it, cfg):
    v = install(it)
    solved = []

    class Solver(object):
        def solve(self, css, conds):
            solved.append((css, conds))
            return 'RESULT'

    class SolverMod(object):
        pass
    SolverMod.Solver = Solver
    it.host_modules['pycalphad.core.solver'] = SolverMod
    le = it.load(LE).env['local_equilibrium']
    css = [CompSet(ctx, 'cs%d' % i, 'FCC_A1', ['NI', 'AL', 'CR'], v, nsf=3) for i in range(cfg['k'])]
    old = [c.dof.snap() for c in css]
    GE, T = real(ctx, 'GE_now'), real(ctx, 'T_now')
    conds = {v.GE: GE, v.N: 1, v.P: 101325, v.T: T, v.X('AL'): real(ctx, 'xAL')}
    res, out = le(None, ['NI', 'AL', 'CR', 'VA'], ['FCC_A1'], conds, {}, {}, composition_sets=css)
    ctx.prove('same-composition-sets-returned', out is css and res == 'RESULT')
    for i, c in enumerate(css):
        ctx.prove('set%d/state-variables-overwritten-with-the-current-conditions' % i, and_(eq(c.dof.get(0), GE), eq(c.dof.get(1), 1), eq(c.dof.get(2), 101325), eq(c.dof.get(3), T)))
        ctx.prove('set%d/site-fractions-kept-as-starting-point' % i, and_(*[eq(c.dof.get(4 + j), old[i](4 + j)) for j in range(3)]))
    ctx.prove('canary/state-variables-were-stale', eq(css[0].dof.get(3), old[0](3)), expect='refuted')
    ctx.prove('solver-called-once-with-these-sets', len(solved) == 1 and solved[0][0] is css and set(solved[0][1].keys()) == set(conds.keys()))
    if len(solved) == 1 and set(solved[0][1].keys()) == set(conds.keys()):
        ctx.prove('solver-gets-the-conditions-unchanged', and_(*[eq(solved[0][1][k], conds[k]) for k in conds]))


@REG.contract('BinaryThermodynamics.getInterfacialComposition/batch-equals-point-by-point', [BT + ':BinaryThermodynamics.getInterfacialComposition', UT + ':_process_TG_arrays'],
              configs=[dict(name='n=3'), dict(name='T-scalar,g-array', Tscalar=True)])
def c_bin_batch(ctx, it, cfg):
    """condition i of a batch is evaluated at ITS temperature and Gibbs-Thomson energy: result[i] = f(T[i], g[i]) for the single-point routine f"""
    import z3
    v = install(it)
    n = 3
    b = new_obj(it, BT, 'BinaryThermodynamics', elements=['AL', 'ZR', 'VA'], phases=['FCC_A1', 'AL3ZR'])
    XA = sym.uf('xa_single', sym.R, sym.R, sym.R)
    XB = sym.uf('xb_single', sym.R, sym.R, sym.R)
    calls = []

    def single(T, g, phase):
        calls.append((T, g, phase))
        if isinstance(g, ArrBase) and g.ndim:
            gf = g.snap()
            return (Arr(g.shape, lambda i: SV(XA(sym.zterm(T, True), sym.zterm(gf(i), True))), 'real'), Arr(g.shape, lambda i: SV(XB(sym.zterm(T, True), sym.zterm(gf(i), True))), 'real'))
        return SV(XA(sym.zterm(T, True), sym.zterm(g, True))), SV(XB(sym.zterm(T, True), sym.zterm(g, True)))
    b.fields['_interfacialComposition'] = single
    Ts = [real(ctx, 'T%d' % i, lambda x: x > 0) for i in range(n)]
    gs = [real(ctx, 'g%d' % i) for i in range(n)]
    T = Ts[0] if cfg.get('Tscalar') else NP.array(Ts)
    g = NP.array(gs)
    sT, sg = snapshot(T), snapshot(g)
    xa, xb = b.getInterfacialComposition(T, g, 'AL3ZR')
    for i in range(n):
        Ti = Ts[0] if cfg.get('Tscalar') else Ts[i]
        ctx.prove('condition%d-evaluated-at-its-own-temperature-and-energy' % i,
                  and_(eq(xa.get(i), SV(XA(sym.zterm(Ti, True), sym.zterm(gs[i], True)))), eq(xb.get(i), SV(XB(sym.zterm(Ti, True), sym.zterm(gs[i], True))))))
    ctx.prove('precipitate-phase-forwarded', all(c[2] == 'AL3ZR' for c in calls) and len(calls) >= 1)
    if not cfg.get('Tscalar'):
        unchanged(ctx, 'arg:T', sT, T)
    unchanged(ctx, 'arg:gExtra', sg, g)
    ctx.prove('canary/all-at-the-first-temperature', eq(xa.get(1), SV(XA(sym.zterm(Ts[0], True), sym.zterm(gs[1], True)))), expect='refuted') if not cfg.get('Tscalar') else None


@REG.contract('SinglePhaseModel._getFluxes/cache-call-site', ['kawin.diffusion.SinglePhase:SinglePhaseModel._getFluxes'], configs=[dict(name='E=1', E=1), dict(name='E=2', E=2)])
def c_flux_cache(ctx, it, cfg):
    """the diffusivity of node i is looked up, computed and STORED under the key of node i: (its composition column, its temperature)"""
    from . import c04
    E = cfg['E']
    SP = 'kawin.diffusion.SinglePhase'
    m, N, dz, bc, els, x, minC = c04.mk_model(ctx, it, E, (0, 0) * E, cls=(SP, 'SinglePhaseModel'))
    Tz = array(ctx, 'T', (N,), fact=lambda v, i: v > 0)
    m.fields['temperatureParameters'] = lambda z, t: Tz
    log = []

    class Hash(object):
        def retrieveFromHashTable(self, xx, TT):
            hit = boolean(ctx, 'hit%d' % len(log))
            log.append(('get', xx, TT, hit))
            if hit:
                return real(ctx, 'Dcached%d' % len(log)) if E == 1 else array(ctx, 'Dcached%d' % len(log), (E, E))
            return None

        def addToHashTable(self, xx, TT, v):
            log.append(('add', xx, TT, v))
    m.fields['hashTable'] = Hash()

    class Therm(object):
        def getInterdiffusivity(self, xx, TT, phase=None):
            v = real(ctx, 'Dnode%d' % len(log)) if E == 1 else array(ctx, 'Dnode%d' % len(log), (E, E))
            log.append(('calc', xx, TT, v))
            return v
    m.fields['therm'] = Therm()
    key = it.get(SP, 'SinglePhaseModel._getFluxes').key
    D = array(ctx, 'D', (N,) if E == 1 else (N, E, E))

    def havoc(env, c):
        env['d'] = D
        env['inter_diff'] = None
        del log[:]

    def same_key(c, i, xx, TT):
        col = and_(*[eq(xx.get(e), x.get(e, i)) for e in range(E)])
        return and_(col, eq(TT, Tz.get(i)))

    def body_post(env, c, g):
        i = env['i']
        gets = [e for e in log if e[0] == 'get']
        c.prove('node-loop/looked-up-under-the-key-of-this-node', len(gets) == 1 and same_key(c, i, gets[0][1], gets[0][2]))
        adds = [e for e in log if e[0] == 'add']
        calcs = [e for e in log if e[0] == 'calc']
        if calcs:
            c.prove('node-loop/computed-for-this-node', len(calcs) == 1 and same_key(c, i, calcs[0][1], calcs[0][2]))
            c.prove('node-loop/stored-under-the-key-of-this-node-with-the-computed-value', len(adds) == 1 and adds[0][3] is calcs[0][3] and same_key(c, i, adds[0][1], adds[0][2]))
        else:
            c.prove('node-loop/a-hit-stores-nothing', len(adds) == 0)
    it.loop_specs[(key, 0)] = LoopSpec(lambda env, c: [], havoc, name='node-loop', body_post=body_post)
    m._getFluxes(real(ctx, 't'), [x])


@REG.contract('sampling-cache/samples-are-those-of-the-queried-temperature', [TH + ':GeneralThermodynamics._getPrecCompositionSetSamplingDF'],
              configs=[dict(name='cache-filled', filled=True), dict(name='cache-empty', filled=False)])
def c_sampling_cache(ctx, it, cfg):
    """the sampled free energies of the precipitate phase are re-used only for the temperature they were computed at; otherwise they are recomputed at the
    queried temperature and the cache entry is replaced"""
    from .c11 import mk_therm
    els = ['NI', 'AL', 'CR', 'VA']
    th, v = mk_therm(ctx, it, els)
    mod = it.load(TH)
    ns = 3
    made = []

    class Points(object):
        def __init__(self, tag, T):
            self.tag, self.T = tag, T
            self.used = False
            self._X = NP.array([[real(ctx, '%s_X%d%d' % (tag, i, e), lambda q: q >= 0) for e in range(3)] for i in range(ns)])
            self._Y = NP.array([[real(ctx, '%s_Y%d%d' % (tag, i, e)) for e in range(4)] for i in range(ns)])
            self._GM = NP.array([real(ctx, '%s_GM%d' % (tag, i)) for i in range(ns)])

        @property
        def X(self):
            self.used = True
            return self._X

        @property
        def Y(self):
            return self._Y

        @property
        def GM(self):
            return self._GM

    def calculate(db, elements, phase, **kw):
        p = Points('new%d' % len(made), kw.get('T'))
        made.append((p, kw))
        return p
    mod.env['calculate'] = calculate

    class CS(object):
        def __init__(self, rec):
            self.phase_record = rec
            self.updated = None

        def update(self, y, n, sv):
            self.updated = (y, n, sv)
    mod.env['CompositionSet'] = CS
    rec = type('Rec', (), {'phase_dof': 4})()
    SPC = mod.env['SampledPointsCache']
    T = real(ctx, 'T', lambda q: q > 0)
    Tprev = real(ctx, 'T_of_cached_samples', lambda q: q > 0)
    old = Points('old', Tprev)
    th.fields.update(phase_records={'GAMMA_PRIME': rec}, orderedPhase={'GAMMA_PRIME': False}, sampling_pDens=100, db=None, gOffset=1,
                     _points_cache={'GAMMA_PRIME': SPC(temperature=Tprev, samples=old, ordered_samples=None)} if cfg['filled'] else {})
    th.fields['_setupSubModels'] = lambda ph: (list(ph), {})
    mu = NP.array([real(ctx, 'mu%d' % e) for e in range(3)])
    dg, cs = th._getPrecCompositionSetSamplingDF(NP.array([real(ctx, 'x0'), real(ctx, 'x1')]), T, mu, 'GAMMA_PRIME')
    entry = th.fields['_points_cache'].get('GAMMA_PRIME')
    if made:
        p, kw = made[0]
        ctx.prove('recomputed-once-at-the-queried-temperature', len(made) == 1 and eq(kw.get('T'), T) and p.used and not old.used)
        ctx.prove('cache-entry-replaced-by-the-new-samples-and-their-temperature', entry is not None and entry.samples is p and eq(entry.temperature, T))
        if cfg['filled']:
            ctx.prove('recomputed-only-when-the-cached-temperature-differs', not_(eq(Tprev, T)))
    else:
        ctx.prove('cached-samples-re-used-only-for-their-own-temperature', cfg['filled'] and eq(Tprev, T) and old.used)
    used = made[0][0] if made else old
    ctx.prove('driving-force-is-the-largest-distance-below-the-tangent-plane-over-the-samples-of-THIS-temperature',
              and_(*[dg >= sum((used._X.get(i, e) * mu.get(e) for e in range(3)), 0) - used._GM.get(i) for i in range(ns)]))
    ctx.prove('state-variables-of-the-returned-set-carry-the-queried-temperature', cs.updated is not None and eq(cs.updated[2].get(3), T))
    if cfg['filled']:
        ctx.prove('canary/always-recomputed', len(made) == 1, expect='refuted')


# evaluating a size alone or inside an array gives the same interfacial compositions (growth law contract shared with C12)
MTH = 'kawin.thermo.MultiTherm'


@REG.contract('MulticomponentThermodynamics/callers-options-reach-the-equilibrium-query', [MTH + ':MulticomponentThermodynamics.getGrowthAndInterfacialComposition',
              MTH + ':MulticomponentThermodynamics.impingementFactor'], configs=[dict(name=p, phase=p) for p in ('default-phase', 'named-phase')])
def c_mt_options(ctx, it, cfg):
    """growth and impingement queries hand the curvature (equilibrium) query the caller's composition, temperature, precipitate phase, cache option and search
    direction -- whether cached equilibria are kept or discarded is the CALLER's choice -- and a failed equilibrium is reported as None, never answered from an earlier point"""
    seen = []
    answers = []
    mod = it.load(MTH)

    def curvatureFactor(x, T, precPhase=None, removeCache=False, searchDir=None):
        seen.append((x, T, precPhase, removeCache, searchDir))
        return answers[len(seen) - 1]
    th = new_obj(it, MTH, 'MulticomponentThermodynamics', phases=['FCC_A1', 'GAMMA_PRIME', 'DELTA'], elements=['NI', 'AL', 'CR', 'VA'], numElements=3,
                 curvatureFactor=curvatureFactor, _curvature_outputs={})
    x = NP.array([real(ctx, 'x0'), real(ctx, 'x1')])
    T = real(ctx, 'T', lambda v: v > 0)
    rc = boolean(ctx, 'removeCache')
    sd = object()
    named = 'DELTA' if cfg['phase'] == 'named-phase' else None
    want_phase = 'DELTA' if named else 'GAMMA_PRIME'
    kw = dict(precPhase=named) if named else {}
    answers.append(None)
    r = th.getGrowthAndInterfacialComposition(x, T, real(ctx, 'dG'), NP.array([real(ctx, 'R', lambda v: v > 0)]), NP.array([real(ctx, 'gE')]), removeCache=rc, searchDir=sd, **kw)
    ctx.prove('growth/failed-equilibrium-is-reported-as-None', r is None)
    ctx.prove('growth/query-made-once-with-the-callers-point-phase-and-options', len(seen) == 1 and seen[0][0] is x and seen[0][1] is T and seen[0][2] == want_phase and seen[0][3] is rc and seen[0][4] is sd)
    beta = real(ctx, 'beta_answer')
    answers.append(mod.env['CurvatureOutput'](dc=None, mc=None, gba=None, beta=beta, c_eq_alpha=None, c_eq_beta=None))
    b = th.impingementFactor(x, T, removeCache=rc, searchDir=sd, **kw)
    ctx.prove('impingement/answer-is-that-of-the-query', eq(b, beta))
    # a failed equilibrium during an impingement query is answered with the last valid value of THAT phase (the run survives the fault) -- whatever the cache option
    last = real(ctx, 'last_valid_beta')
    th.fields['_curvature_outputs'] = {want_phase: mod.env['CurvatureOutput'](dc=None, mc=None, gba=None, beta=last, c_eq_alpha=None, c_eq_beta=None),
                                       'OTHER': mod.env['CurvatureOutput'](dc=None, mc=None, gba=None, beta=real(ctx, 'beta_of_another_phase'), c_eq_alpha=None, c_eq_beta=None)}
    answers.append(None)
    b2 = th.impingementFactor(x, T, removeCache=rc, searchDir=sd, **kw)
    ctx.prove('impingement/failed-equilibrium-is-not-reported-as-None', b2 is not None)
    if b2 is not None:
        ctx.prove('impingement/failed-equilibrium-answered-with-the-last-valid-value-of-this-phase', eq(b2, last))
    del seen[2:]
    ctx.prove('impingement/query-made-once-with-the-callers-point-phase-and-options', len(seen) == 2 and seen[1][0] is x and seen[1][1] is T and seen[1][2] == want_phase and seen[1][3] is rc and seen[1][4] is sd)


@REG.contract('MulticomponentThermodynamics.getInterfacialComposition/batch-equals-point-by-point', [MTH + ':MulticomponentThermodynamics.getInterfacialComposition'],
              configs=[dict(name='n=%d,T=%s' % (n, tf), n=n, tf=tf) for n in (1, 2, 3) for tf in ('scalar', 'array')],
              bounded='batches of at most 3 conditions (the code iterates over the batch in a Python comprehension); temperatures, energies and answers symbolic')
def c_mt_batch(ctx, it, cfg):
    """entry i of a batched query is the single-point query at (x, T_i, gExtra_i, resolved phase): evaluating a condition alone or inside an array changes nothing"""
    n = cfg['n']
    seen = []

    def single(x, T, g, precPhase):
        seen.append((x, T, g, precPhase))
        k = len(seen)
        return NP.array([real(ctx, 'ca%d_%d' % (k, e)) for e in range(2)]), NP.array([real(ctx, 'cb%d_%d' % (k, e)) for e in range(2)])
    th = new_obj(it, MTH, 'MulticomponentThermodynamics', phases=['FCC_A1', 'GAMMA_PRIME'], elements=['NI', 'AL', 'CR', 'VA'], numElements=3, _interfacialComposition=single)
    x = NP.array([real(ctx, 'x0'), real(ctx, 'x1')])
    Ts = [real(ctx, 'T%d' % i, lambda v: v > 0) for i in range(n)]
    gs = [real(ctx, 'g%d' % i) for i in range(n)]
    T = Ts[0] if cfg['tf'] == 'scalar' else NP.array(Ts)
    ca, cb = th.getInterfacialComposition(x, T, NP.array(gs))
    ctx.prove('one-single-point-query-per-condition', len(seen) == n)
    for i in range(min(n, len(seen))):
        Ti = Ts[0] if cfg['tf'] == 'scalar' else Ts[i]
        ctx.prove('condition-%d-queried-at-its-own-temperature-and-energy' % i, and_(seen[i][0] is x, eq(seen[i][1], Ti), eq(seen[i][2], gs[i]), seen[i][3] == 'GAMMA_PRIME'))
        for e in range(2):
            got_a = ca.get(i, e) if n > 1 else ca.get(e)
            got_b = cb.get(i, e) if n > 1 else cb.get(e)
            ctx.prove('entry-%d-is-the-answer-of-query-%d[el%d]' % (i, i, e), and_(eq(got_a, real(ctx, 'ca%d_%d' % (i + 1, e))), eq(got_b, real(ctx, 'cb%d_%d' % (i + 1, e)))))
    if n >= 2 and cfg['tf'] == 'array':
        ctx.prove('canary/every-condition-at-the-first-temperature', eq(seen[1][1], Ts[0]), expect='refuted')


from . import c12 as _c12
REG.contracts.append(_c12.c_curv_growth.contract)
# the impingement-rate functions on arrays: entry i is computed from point i only, with the caller's cache option, and leave the cached geometric factors alone (C14 contract)
from . import c14 as _c14
REG.contracts.append(_c14.c_beta.contract)


@REG.contract('computeMobility/no-hidden-cache', ['kawin.diffusion.DiffusionParameters:computeMobility'])
def c_no_hidden_cache(ctx, it, cfg):
    """a mobility query made WITHOUT a cache object evaluates the point itself -- every time; one made with the caller's table uses that table and no other"""
    DPm = it.load('kawin.diffusion.DiffusionParameters')
    MD = DPm.env['MobilityData']
    seen = []
    key = DPm.env['_computeSingleMobility'].key

    def single(interp, fn, args, kwargs):
        seen.append(args[4] if len(args) > 4 else kwargs.get('hashTable'))
        return MD(mobility=NP.array([[real(ctx, 'm%d' % len(seen))]]), phases=NP.array(['FCC_A1']), phase_fractions=NP.array([1]), chemical_potentials=NP.array([real(ctx, 'mu%d' % len(seen))]))
    it.summaries[key] = single
    th = type('Therm', (), {'numElements': 3, 'elements': ['NI', 'AL', 'CR', 'VA']})()
    x = NP.array([[real(ctx, 'x0'), real(ctx, 'x1')]])
    T = NP.array([real(ctx, 'T')])
    cm = DPm.env['computeMobility']
    cm(th, x, T)
    cm(th, x, T)
    ctx.prove('queries-without-a-table-are-evaluated-without-any-table', len(seen) == 2 and seen[0] is None and seen[1] is None)
    mine = DPm.env['HashTable']()
    cm(th, x, T, mine)
    ctx.prove('query-with-the-callers-table-uses-that-table', len(seen) == 3 and seen[2] is mine)
