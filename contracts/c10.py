"""C10 -- diffusivities: kawin's own algebra on top of the database values (DESIGN 6, C10; partial)."""
from fractions import Fraction
from kvc.dsl import *
from kvc import sym
from functools import reduce
from .thermo_stubs import *

REG = Registry('C10')
REG.assumptions += [
    'mobility callables return positive numbers (the database expression is exp(.)/(R T); its value is an input here)',
    'the partial chemical-potential derivatives returned by the bordered-Hessian solve satisfy the Gibbs-Duhem relation sum_k x_k dmu_k/dx_j = const_j (used only in the Darken clause; property of an exact Hessian solve, assumed)',
    'np.linalg.inv returns the inverse (entries opaque)',
    'hessian contract: the free-energy Hessian filled in by the phase record is symmetric (second derivatives of a smooth function); mole amounts per formula unit > 0',
]
REG.undecided += [
    'chemical-potential derivative matrix equals the finite-difference derivative of EQUILIBRIUM chemical potentials (statement about pycalphad\'s equilibrium solver and database values)',
    'symmetry / positive definiteness of dmu/dx and real positive eigenvalues of the interdiffusivity in the stable region (database numerics; no contract in reach): '
    'what is proved is that the bordered Lagrangian Hessian kawin builds and inverts is symmetric with the documented blocks whenever the free-energy Hessian of the phase record is',
]
MOB = 'kawin.thermo.Mobility'
FEH = 'kawin.thermo.FreeEnergyHessian'
TH = 'kawin.thermo.Thermodynamics'
R = Fraction(8314, 1000)

SYSTEMS = [dict(name='AL-NI', els=['AL', 'NI']), dict(name='AL-CR-NI', els=['AL', 'CR', 'NI']), dict(name='C-FE', els=['C', 'FE']), dict(name='C-CR-FE', els=['C', 'CR', 'FE'])]
INTER = ['C', 'N', 'O', 'H', 'B']


class SiteVar(object):
    class Sp(object):
        pass

    def __init__(self, name, sub):
        self.species = SiteVar.Sp()
        self.species.name = name
        self.sublattice_index = sub


def mk_cs(ctx, it, els, va_interstitial=True):
    """composition set with symbolic positive mole fractions; sublattice 0 = substitutionals, sublattice 1 = interstitial + VA"""
    v = install(it)
    sub = [e for e in els if e not in INTER]
    ins = [e for e in els if e in INTER]
    variables = [SiteVar(e, 0) for e in sub] + [SiteVar(e, 1) for e in ins] + ([SiteVar('VA', 1)] if ins and va_interstitial else [])
    cs = CompSet(ctx, 'cs', 'FCC_A1', els, v, nsf=len(variables))
    cs.phase_record.variables = variables
    mods = it.load(MOB)
    M = {e: real(ctx, 'M_' + e, lambda x: x > 0) for e in els}
    seen = []
    calls = {e: (lambda e_: lambda inp: (seen.append(inp), M[e_])[1])(e) for e in els}
    return v, cs, mods, M, calls, seen, sub, ins


@REG.contract('tracer_diffusivity/R-T-times-mobility', [MOB + ':tracer_diffusivity', MOB + ':mobility_from_composition_set', MOB + ':_get_mobility_arguments'],
              configs=[dict(s, name=s['name'] + ',' + c, corr=c) for s in SYSTEMS for c in ('none', 'partial')])
def c_tracer(ctx, it, cfg):
    els = cfg['els']
    v, cs, mods, M, calls, seen, sub, ins = mk_cs(ctx, it, els)
    k = real(ctx, 'corr', lambda x: x > 0)
    corr = None if cfg['corr'] == 'none' else {els[0]: k}
    T = cs.dof.get(3)
    Dt = mods.env['tracer_diffusivity'](cs, calls, corr)
    ctx.prove('one-value-per-element', Dt.ndim == 1 and Dt.shape[0] == len(els))
    for i, e in enumerate(els):
        c = k if (corr is not None and e == els[0]) else 1
        ctx.prove('D*[%s] = R*T*correction*M[%s] with the gas constant 8.31..8.32 J/mol/K' % (e, e), and_(Dt.get(i) >= Fraction(831, 100) * T * c * M[e], Dt.get(i) <= Fraction(832, 100) * T * c * M[e]))
        if i > 0:
            c0 = k if corr is not None else 1
            ctx.prove('D*[%s]: same R*T factor as for %s' % (e, els[0]), eq(Dt.get(i) * c0 * M[els[0]], Dt.get(0) * c * M[e]))
        ctx.prove('D*[%s] positive' % e, Dt.get(i) > 0)
    ctx.prove('callables-evaluated-at-the-composition-set-dof', len(seen) == len(els) and all(s is cs.dof for s in seen))
    ctx.prove('canary/D*-not-zero', eq(Dt.get(0), 0), expect='refuted')
    raised, et, _ = expect_raise(lambda: mods.env['tracer_diffusivity'](cs, None), ['ValueError'])
    ctx.prove('missing-callables-rejected', raised)


@REG.contract('x_to_u_frac/substitutional-u-fractions-sum-to-one', [MOB + ':x_to_u_frac'], configs=SYSTEMS)
def c_ufrac(ctx, it, cfg):
    els = cfg['els']
    v, cs, mods, M, calls, seen, sub, ins = mk_cs(ctx, it, els)
    s = snapshot(NP.array(cs.X))
    X = NP.array(cs.X)
    U, Usum = mods.env['x_to_u_frac'](X, els, INTER, return_usum=True)
    xs = reduce(sym.add, [cs.X[els.index(e)] for e in sub]) if len(sub) > 1 else cs.X[els.index(sub[0])]
    ctx.prove('Usum-is-the-substitutional-sum', eq(Usum.get(0), xs))
    for i, e in enumerate(els):
        ctx.prove('U[%s] = X/Usum' % e, eq(U.get(i) * xs, cs.X[i]))
    tot = U.get(els.index(sub[0]))
    for e in sub[1:]:
        tot = tot + U.get(els.index(e))
    ctx.prove('substitutional-u-fractions-sum-to-one', eq(tot, 1))
    unchanged(ctx, 'arg:x', s, X)


@REG.contract('mobility_matrix/volume-fixed-frame', [MOB + ':mobility_matrix', MOB + ':x_to_u_frac', MOB + ':mobility_from_composition_set'],
              configs=[dict(s, name=s['name'] + (',vacancy-poor' if vp else '') + (',corrected' if cr else ''), vp=vp, cr=cr) for s in SYSTEMS for vp in (False, True) for cr in (False, True)
                       if (vp is False or 'C' in s['els']) and not (vp and cr)])
def c_mobmat(ctx, it, cfg):
    els = cfg['els']
    v, cs, mods, M, calls, seen, sub, ins = mk_cs(ctx, it, els)
    corr = None
    if cfg['cr']:
        # user-supplied mobility correction factors: the matrix is built from correction x mobility, exactly like the tracer diffusivity
        corr = {e: real(ctx, 'corr_' + e, lambda x: x > 0) for e in els}
        M = {e: corr[e] * M[e] for e in els}
    Mm = mods.env['mobility_matrix'](cs, calls, corr, cfg['vp'])
    n = len(els)
    xs = cs.X[els.index(sub[0])]
    for e in sub[1:]:
        xs = xs + cs.X[els.index(e)]
    U = [cs.X[i] / xs for i in range(n)]
    ctx.prove('square', Mm.ndim == 2 and Mm.shape[0] == n and Mm.shape[1] == n)
    for b, eb in enumerate(els):
        if eb in INTER:
            continue
        col = Mm.get(els.index(sub[0]), b)
        for e in sub[1:]:
            col = col + Mm.get(els.index(e), b)
        ctx.prove('substitutional-fluxes-driven-by-mu[%s]-sum-to-zero' % eb, eq(col, 0))
    for a, ea in enumerate(els):
        for b, eb in enumerate(els):
            if ea in INTER or eb in INTER:
                if a != b:
                    ctx.prove('no-coupling[%s,%s]-between-interstitial-and-other-elements' % (ea, eb), eq(Mm.get(a, b), 0))
                else:
                    yva = 1 if cfg['vp'] else cs.dof.get(4 + len(els))
                    ctx.prove('interstitial[%s]-diagonal = y_VA*U*M*Usum' % ea, eq(Mm.get(a, a), yva * U[a] * M[ea] * xs))
            else:
                want = ((1 if a == b else 0) - U[a]) * U[b] * M[eb] * xs
                ctx.prove('entry[%s,%s] = (delta - U_a) U_b M_b Usum' % (ea, eb), eq(Mm.get(a, b), want))
    for a, ea in enumerate(els):
        ctx.prove('diagonal[%s]-non-negative' % ea, Mm.get(a, a) >= 0) if not (ea in INTER and not cfg['vp']) else None
    ctx.prove('canary/matrix-not-zero', eq(Mm.get(0, 0), 0), expect='refuted')


def phi_matrix(ctx, n):
    return [[real(ctx, 'phi_%d_%d' % (i, j)) for j in range(n)] for i in range(n)]


@REG.contract('interdiffusivity/reference-elimination', [MOB + ':interdiffusivity', MOB + ':chemical_diffusivity'],
              configs=[dict(s, name='%s,ref=%s' % (s['name'], r), ref=r) for s in SYSTEMS for r in s['els'] if r not in INTER])
def c_interdiff(ctx, it, cfg):
    els, ref = cfg['els'], cfg['ref']
    n = len(els)
    v, cs, mods, M, calls, seen, sub, ins = mk_cs(ctx, it, els)
    phi = phi_matrix(ctx, n)
    Mm = [[real(ctx, 'Mm_%d_%d' % (i, j)) for j in range(n)] for i in range(n)]
    got = []
    mods.env['partialdMudX'] = lambda mu, c: (got.append(('phi', mu, c)), NP.array(phi))[1]
    mods.env['mobility_matrix'] = lambda **k: (got.append(('mob', k)), NP.array(Mm))[1]
    Dn, H = mods.env['interdiffusivity']('MU', cs, ref, calls, None, True)
    ctx.prove('curvature-and-mobility-for-the-same-composition-set', len(got) == 2 and got[0][2] is cs and got[0][1] == 'MU' and got[1][1]['composition_set'] is cs and got[1][1]['mobility_callables'] is calls)
    D = [[reduce(sym.add, [Mm[a][k] * phi[k][b] for k in range(n)]) for b in range(n)] for a in range(n)]
    rest = [i for i in range(n) if els[i] != ref]
    r = els.index(ref)
    ctx.prove('shape', Dn.shape[0] == n - 1 and Dn.shape[1] == n - 1)
    for c, a in enumerate(rest):
        for d, b in enumerate(rest):
            want = D[a][b] if els[b] in INTER else D[a][b] - D[a][r]
            ctx.prove('Dn[%s,%s] = D - D_ref' % (els[a], els[b]) if els[b] not in INTER else 'Dn[%s,%s] = D (interstitial column)' % (els[a], els[b]), eq(Dn.get(c, d), want))
    ctx.prove('canary/Dn-not-zero', eq(Dn.get(0, 0), 0), expect='refuted')


@REG.contract('binary/Darken', [MOB + ':interdiffusivity', MOB + ':chemical_diffusivity', MOB + ':mobility_matrix', MOB + ':tracer_diffusivity'],
              configs=[dict(name='AL-NI,ref=NI', els=['AL', 'NI'], ref='NI'), dict(name='AL-NI,ref=AL', els=['AL', 'NI'], ref='AL')])
def c_darken(ctx, it, cfg):
    """D~ = (x_B D*_A + x_A D*_B) * x_A (dmu_A/dx_A - dmu_A/dx_B) / (R T), given Gibbs-Duhem for the partial derivatives"""
    els, ref = cfg['els'], cfg['ref']
    v, cs, mods, M, calls, seen, sub, ins = mk_cs(ctx, it, els)
    ctx.assume(eq(cs.X[0] + cs.X[1], 1))
    xA, xB = cs.X
    # Gibbs-Duhem built in: x_A (phi_AA - phi_AB) + x_B (phi_BA - phi_BB) = 0
    pAA, pAB, pBB = real(ctx, 'phi_AA'), real(ctx, 'phi_AB'), real(ctx, 'phi_BB')
    g = pAA - pAB
    pBA = pBB - xA * g / xB
    mods.env['partialdMudX'] = lambda mu, c: NP.array([[pAA, pAB], [pBA, pBB]])
    Dn, _ = mods.env['interdiffusivity']('MU', cs, ref, calls)
    Dt = mods.env['tracer_diffusivity'](cs, calls)
    T = cs.dof.get(3)
    therm = xA * g * M[els[0]] / Dt.get(0)          # x_A (dmu_A/dx_A) / (R T), with R T the factor tracer_diffusivity itself uses
    ctx.prove('interdiffusivity = Darken combination of tracer diffusivities x thermodynamic factor', eq(Dn.get(0, 0), (xB * Dt.get(0) + xA * Dt.get(1)) * therm))
    ctx.prove('positive-when-the-thermodynamic-factor-is', or_(not_(g > 0), Dn.get(0, 0) > 0))
    ctx.prove('canary/not-trivially-zero', eq(Dn.get(0, 0), 0), expect='refuted')


@REG.contract('dMudX/total-derivative-from-partials', [FEH + ':dMudX', FEH + ':totalddx', FEH + ':partialdMudX', FEH + ':partialddx'],
              configs=[dict(name='%s,ref=%s' % ('-'.join(e), r), els=e, ref=r) for e in (['AL', 'NI'], ['AL', 'CR', 'NI']) for r in e])
def c_dmudx(ctx, it, cfg):
    """documented relation dmuA/dxB = (p[A,B] - p[A,R]) - (p[R,B] - p[R,R]) between the two routines that share one Hessian"""
    els, ref = cfg['els'], cfg['ref']
    n = len(els)
    v = install(it)
    cs = CompSet(ctx, 'cs', 'FCC_A1', els, v, nsf=n)
    cs.phase_record.phase_dof = n
    cs.phase_record.num_internal_cons = 1
    mod = it.load(FEH)
    size = n + 1 + n + 1
    Hs = [[real(ctx, 'H_%d_%d' % (i, j)) for j in range(size)] for i in range(size)]
    H = NP.array(Hs)
    mod.env['hessian'] = lambda mu, c: H
    tot = mod.env['dMudX']('MU', cs, ref)
    par = mod.env['partialdMudX']('MU', cs)
    ctx.prove('shapes', tot.shape[0] == n - 1 and tot.shape[1] == n - 1 and par.shape[0] == n and par.shape[1] == n)
    rest = [i for i in range(n) if els[i] != ref]
    r = els.index(ref)
    for c, a in enumerate(rest):
        for d, b in enumerate(rest):
            ctx.prove('dmu[%s]/dx[%s] total = partial differences' % (els[a], els[b]), eq(tot.get(c, d), (par.get(a, b) - par.get(a, r)) - (par.get(r, b) - par.get(r, r))))
    ctx.prove('canary/not-zero', eq(tot.get(0, 0), 0), expect='refuted')
    # the SAME composition-set object re-solved in place (what kawin does when it re-uses cached composition sets): the derivative follows the current Hessian
    Hs2 = [[real(ctx, 'H2_%d_%d' % (i, j)) for j in range(size)] for i in range(size)]
    H2 = NP.array(Hs2)
    mod.env['hessian'] = lambda mu, c: H2
    tot2 = mod.env['dMudX']('MU2', cs, ref)
    i0 = n + 1 + 1
    inv2 = NP.linalg.inv(H2)
    for c, a in enumerate(rest):
        for d, b in enumerate(rest):
            want = (-inv2.get(i0 + a, i0 + b) + inv2.get(i0 + a, i0 + r)) - (-inv2.get(i0 + r, i0 + b) + inv2.get(i0 + r, i0 + r))
            ctx.prove('re-solved-set: dmu[%s]/dx[%s] from the CURRENT Hessian' % (els[a], els[b]), eq(tot2.get(c, d), want))


@REG.contract('hessian/bordered-matrix-is-symmetric-with-the-stated-blocks', [FEH + ':hessian'],
              configs=[dict(name='dof=%d,elements=%d,statevars=%d' % (D, E, S), D=D, E=E, S=S) for D, E, S in ((2, 2, 2), (3, 2, 2), (3, 3, 1))])
def c_hessian(ctx, it, cfg):
    """the bordered Hessian of the single-phase Lagrangian that dMudX inverts: for ANY phase record (symmetric free-energy Hessian: second derivatives of a
    smooth function, assumed) the matrix is symmetric, its blocks are the five documented derivatives and every other block is zero"""
    D, E, S = cfg['D'], cfg['E'], cfg['S']
    C = 1
    els = ['A', 'B', 'C'][:E]
    dM = [[real(ctx, 'dM%d_%d' % (a, k)) for k in range(S + D)] for a in range(E)]
    M = [real(ctx, 'M%d' % a, lambda v: v > 0) for a in range(E)]
    g = [real(ctx, 'dG%d' % k) for k in range(S + D)]
    h = [[real(ctx, 'd2G_%d_%d' % (min(i, j), max(i, j))) for j in range(S + D)] for i in range(S + D)]      # symmetric by construction
    cj = [[real(ctx, 'cj%d_%d' % (c, k)) for k in range(S + D)] for c in range(C)]
    dof = NP.array([real(ctx, 'dof%d' % k) for k in range(S + D)])
    seen = []

    def fill(out, vals):
        for k, v in enumerate(vals):
            out[k] = v

    class PR(object):
        nonvacant_elements = els
        phase_dof, num_internal_cons, num_statevars = D, C, S

        def formulamole_grad(self, out, d, a):
            seen.append(d)
            fill(out, dM[a])

        def formulamole_obj(self, out, d, a):
            seen.append(d)
            out[0] = M[a]

        def formulagrad(self, out, d):
            seen.append(d)
            fill(out, g)

        def formulahess(self, out, d):
            seen.append(d)
            for i in range(S + D):
                for j in range(S + D):
                    out[i, j] = h[i][j]

        def internal_cons_jac(self, out, d):
            seen.append(d)
            for c in range(C):
                for k in range(S + D):
                    out[c, k] = cj[c][k]

    class CS(object):
        phase_record = PR()
    cs = CS()
    cs.dof = dof
    mu = [real(ctx, 'mu%d' % a) for a in range(E)]
    d0 = snapshot(dof)
    H = it.get(FEH, 'hessian')(NP.array(mu), cs)
    n = D + C + E + 1
    ctx.prove('shape', H.ndim == 2 and H.shape[0] == n and H.shape[1] == n)
    ctx.prove('symmetric', and_(*[eq(H.get(i, j), H.get(j, i)) for i in range(n) for j in range(i + 1, n)]))
    N = 1 / sum(M)
    iN, iL, iMu = D, D + 1, D + 1 + C
    ctx.prove('block d2L/dyi dyj = N * d2G/dyi dyj (site fractions only, state variables skipped)', and_(*[eq(H.get(i, j), N * h[S + i][S + j]) for i in range(D) for j in range(D)]))
    ctx.prove('block d2L/dyi dN = dG/dyi - sum_A mu_A dM_A/dyi', and_(*[eq(H.get(i, iN), g[S + i] - sum(mu[a] * dM[a][S + i] for a in range(E))) for i in range(D)]))
    ctx.prove('block d2L/dyi dlambda = -constraint Jacobian', and_(*[eq(H.get(i, iL + c), -cj[c][S + i]) for i in range(D) for c in range(C)]))
    ctx.prove('block d2L/dyi dmu_A = -N dM_A/dyi', and_(*[eq(H.get(i, iMu + a), -N * dM[a][S + i]) for i in range(D) for a in range(E)]))
    ctx.prove('block d2L/dmu_A dN = -M_A', and_(*[eq(H.get(iN, iMu + a), -M[a]) for a in range(E)]))
    zero = [(iN, iN)] + [(iN, iL + c) for c in range(C)] + [(iL + c, iL + e) for c in range(C) for e in range(C)] + [(iL + c, iMu + a) for c in range(C) for a in range(E)] \
        + [(iMu + a, iMu + b) for a in range(E) for b in range(E)]
    ctx.prove('every-other-block-is-zero', and_(*[eq(H.get(i, j), 0) for i, j in zero]))
    ctx.prove('every-record-function-asked-at-the-sets-own-degrees-of-freedom', all(d is dof for d in seen) and len(seen) == 2 * E + 3)
    unchanged(ctx, 'degrees-of-freedom', d0, dof)
    ctx.prove('canary/amount-column-is-the-plain-gradient', eq(H.get(0, iN), g[S]), expect='refuted')


@REG.contract('chemical_diffusivity/mobility-matrix-times-thermodynamic-factor-with-the-callers-correction', [MOB + ':chemical_diffusivity'],
              configs=[dict(name=c, corr=c) for c in ('none', 'one-element', 'every-element')])
def c_chemdiff(ctx, it, cfg):
    """D_kj = (mobility matrix) x (dmu/dx), where the mobility matrix is built with EXACTLY the correction factors the caller gave (elements not listed: 1) --
    the same factors tracer_diffusivity applies, which is what keeps the Darken relation"""
    els = ['AL', 'CR', 'NI']
    v = install(it)
    cs = CompSet(ctx, 'cs', 'FCC_A1', els, v, nsf=3)
    mod = it.load(MOB)
    n = len(els)
    M = NP.array([[real(ctx, 'M_%d_%d' % (i, j)) for j in range(n)] for i in range(n)])
    H = NP.array([[real(ctx, 'H_%d_%d' % (i, j)) for j in range(n)] for i in range(n)])
    calls = []

    def mobility_matrix(**kw):
        calls.append(kw)
        return M
    mod.env['mobility_matrix'] = mobility_matrix
    mod.env['partialdMudX'] = lambda mu, c: (calls.append(('dmudx', mu, c)), H)[1]
    fac = {'CR': real(ctx, 'corr_CR', lambda q: q > 0), 'AL': real(ctx, 'corr_AL', lambda q: q > 0), 'NI': real(ctx, 'corr_NI', lambda q: q > 0)}
    given = None if cfg['corr'] == 'none' else ({'CR': fac['CR']} if cfg['corr'] == 'one-element' else dict(fac))
    before = None if given is None else dict(given)
    cb = object()
    D, hess = mod.env['chemical_diffusivity']('MU', cs, cb, mobility_correction=given, returnHessian=True)
    mm = [c for c in calls if isinstance(c, dict)]
    ctx.prove('one-mobility-matrix-for-this-composition-set-and-these-callables', len(mm) == 1 and mm[0].get('composition_set') is cs and mm[0].get('mobility_callables') is cb)
    if len(mm) == 1:
        got = mm[0].get('mobility_correction')
        eff = lambda d, A: 1 if d is None else d.get(A, 1)
        ctx.prove('correction-factors-reaching-the-mobility-matrix-are-the-callers', and_(*[eq(eff(got, A), eff(given, A)) for A in els]))
    for i in range(n):
        for j in range(n):
            ctx.prove('D[%d,%d] = sum_k M[%d,k] dmu_k/dx_%d' % (i, j, i, j), eq(D.get(i, j), sum(M.get(i, k) * H.get(k, j) for k in range(n))))
    ctx.prove('thermodynamic-factor-returned-is-the-one-used', hess is H)
    ctx.prove('callers-correction-table-not-modified', given == before)
    ctx.prove('canary/diffusivity-is-the-mobility-matrix', eq(D.get(0, 0), M.get(0, 0)), expect='refuted')


@REG.contract('inverseMobility/consistent-pieces', [MOB + ':inverseMobility'], configs=[dict(name='AL-CR-NI', els=['AL', 'CR', 'NI'])])
def c_invmob(ctx, it, cfg):
    els = cfg['els']
    v, cs, mods, M, calls, seen, sub, ins = mk_cs(ctx, it, els)
    Dn = NP.array([[real(ctx, 'Dn%d%d' % (i, j)) for j in range(2)] for i in range(2)])
    Ht = NP.array([[real(ctx, 'Ht%d%d' % (i, j)) for j in range(2)] for i in range(2)])
    ctx.assume(not_(eq(Dn.get(0, 0) * Dn.get(1, 1) - Dn.get(0, 1) * Dn.get(1, 0), 0)))
    log = []
    mods.env['interdiffusivity'] = lambda **k: (log.append(k), (Dn, None))[1]
    mods.env['dMudX'] = lambda mu, c, ref: (log.append((mu, c, ref)), Ht)[1]
    D, Hh, inv = mods.env['inverseMobility']('MU', cs, 'NI', calls)
    ctx.prove('returns-the-interdiffusivity-and-total-curvature-of-the-same-set-and-reference', D is Dn and Hh is Ht and log[0]['composition_set'] is cs and log[0]['refElement'] == 'NI' and log[1] == ('MU', cs, 'NI') and log[0]['mobility_callables'] is calls)
    prod = NP.matmul(inv, Dn)
    for i in range(2):
        for j in range(2):
            ctx.prove('inverse-mobility x Dn = curvature [%d,%d]' % (i, j), eq(prod.get(i, j), Ht.get(i, j)))


@REG.contract('Thermodynamics/mobility-of-the-queried-phase', [TH + ':GeneralThermodynamics._interdiffusivitySingle', TH + ':GeneralThermodynamics._tracerDiffusivitySingle'],
              configs=[dict(name=ph or 'default-phase', phase=ph) for ph in ('FCC_A1', 'BCC_A2', None)])
def c_wiring(ctx, it, cfg):
    """interdiffusivity and tracer diffusivity of a phase are built from the same composition set, the chemical potentials of that equilibrium and the mobility functions OF THAT PHASE
    (=> the Darken relation proved above for Mobility.interdiffusivity / tracer_diffusivity carries over to the public getters)"""
    from .c11 import mk_therm
    els = ['NI', 'CR', 'FE', 'VA']           # not alphabetical, and the sorting permutation is not its own inverse
    th, v = mk_therm(ctx, it, els)
    th.fields['phases'] = ['FCC_A1', 'BCC_A2']
    th.fields['mobCallables'] = {'FCC_A1': 'CALL_FCC', 'BCC_A2': 'CALL_BCC'}
    th.fields['diffCallables'] = {'FCC_A1': None, 'BCC_A2': None}
    th.fields['vacancyPoorInterstitialSublattice'] = {'BCC_A2': True}
    mod = it.load(TH)
    want = cfg['phase'] or 'FCC_A1'
    log = []
    cs = CompSet(ctx, 'cs', want, els[:-1], v)

    class Res(object):
        chemical_potentials = 'MU_OF_THIS_EQ'

    def getLocalEq(x, T, g, phases, composition_sets=None):
        log.append(('eq', x, T, g, phases))
        return Res(), [cs]
    th.fields['getLocalEq'] = getLocalEq
    mod.env['inverseMobility'] = lambda *a, **k: (log.append(('inv', a, k)), (NP.array([[real(ctx, 'D%d%d' % (i, j)) for j in range(2)] for i in range(2)]), None, None))[1]
    alpha = sorted(els[:-1])
    Dtv = {e: real(ctx, 'Dt_' + e) for e in alpha}
    Dv = {(a, b): real(ctx, 'D_%s_%s' % (a, b)) for a in alpha if a != 'NI' for b in alpha if b != 'NI'}
    sol = [e for e in alpha if e != 'NI']
    mod.env['inverseMobility'] = lambda *a, **k: (log.append(('inv', a, k)), (NP.array([[Dv[(p, q)] for q in sol] for p in sol]), None, None))[1]
    mod.env['tracer_diffusivity'] = lambda *a, **k: (log.append(('tr', a, k)), NP.array([Dtv[e] for e in alpha]))[1]
    x = NP.array([real(ctx, 'x0'), real(ctx, 'x1')])
    T = real(ctx, 'T')
    Dn = th._interdiffusivitySingle(x, T, True, cfg['phase'])
    Dtr = th._tracerDiffusivitySingle(x, T, True, cfg['phase'])
    for i, e in enumerate(els[:-1]):
        ctx.prove('tracer-diffusivity-at-position-of-%s-is-the-value-for-%s' % (e, e), eq(Dtr.get(i), Dtv[e]))
    for i, a in enumerate(els[1:-1]):
        for j, b in enumerate(els[1:-1]):
            ctx.prove('interdiffusivity[%s,%s]-is-the-value-for-these-elements' % (a, b), eq(Dn.get(i, j), Dv[(a, b)]))
    eqs = [e for e in log if e[0] == 'eq']
    ctx.prove('equilibrium-of-the-queried-phase-at-the-queried-point', len(eqs) == 2 and all(e[4] == [want] and e[1] is x and e[2] is T and e[3] == 0 for e in eqs))
    inv = [e for e in log if e[0] == 'inv'][0]
    tr = [e for e in log if e[0] == 'tr'][0]
    ctx.prove('interdiffusivity-from-this-equilibrium', inv[1][0] == 'MU_OF_THIS_EQ' and inv[1][1] is cs and inv[1][2] == 'NI')
    ctx.prove('interdiffusivity-uses-the-mobility-functions-of-the-queried-phase', inv[1][3] == 'CALL_' + want[:3])
    ctx.prove('vacancy-poor-flag-of-the-queried-phase', inv[2]['vacancy_poor_interstitial_sublattice'] is (want == 'BCC_A2'))
    ctx.prove('tracer-diffusivity-uses-the-same-set-and-mobility-functions', tr[1][0] is cs and tr[1][1] == 'CALL_' + want[:3])
