"""C14 -- nucleation quantities obey classical nucleation theory for every site type (DESIGN 6, C14)."""
import itertools
from kvc.dsl import *
from kvc import sym
from .kwn import *

REG = Registry('C14')
REG.assumptions += [
    'transcendental functions are uninterpreted with sound axioms (sqrt: s>=0, s^2=x; arcsin/arccos: complement, ranges, the exact values at 0, 1/2, sqrt(2)/2, sqrt(3)/2, 1; exp: positive, monotone)',
    'driving force, interfacial energy, molar volume, temperature: arbitrary positive reals; site-type ratio 0 <= k < k_max',
    'impingement-rate contract: the thermodynamics object returns positive tracer diffusivities / a positive impingement factor (uninterpreted functions of the queried point) and interfacial compositions strictly inside (0,1) that differ between the phases; area factor of the site > 0',
]
REG.undecided += [
    'sign of the edge / corner geometric factors and monotone decrease of the volume factor over the whole admissible k range: transcendental inequalities outside NRA '
    '(grain-boundary site: polynomial, proved); left to an interval argument not built here',
    'positivity of the tracer diffusivities / impingement factor returned by the thermodynamics backend (assumed positive in the impingement-rate contract; C10 proves tracer diffusivity = R*T*M)',
]
NUC = 'kawin.precipitation.parameters.Nucleation'
NR = 'kawin.precipitation.NucleationRate'
SITES = [('GrainBoundaryDescription', 1), ('GrainEdgeDescription', 'sqrt(3)/2'), ('GrainCornerDescription', 'sqrt(2/3)')]


def _factors(d, k):
    return (d.areaFactor(k, setInvalidToNan=False), d.gbRemoval(k, setInvalidToNan=False), d.volumeFactor(k, setInvalidToNan=False))


@REG.contract('geometric-factors', [NUC + ':%s.%s' % (c, f) for c, _ in SITES for f in ('_areaFactor', '_gbRemoval', '_volumeFactor')]
              + [NUC + ':NucleationDescriptionBase.%s' % f for f in ('areaFactor', 'gbRemoval', 'volumeFactor', '_createArrays', '_formatArray')],
              configs=[dict(name=c, cls=c) for c, _ in SITES] + [dict(name='BulkDescription', cls='BulkDescription'), dict(name='DislocationDescription', cls='DislocationDescription')])
def c_geom(ctx, it, cfg):
    D = it.get(NUC, cfg['cls'])
    d = D()
    pi = NP.pi
    if cfg['cls'] in ('BulkDescription', 'DislocationDescription'):
        k = real(ctx, 'k', lambda v: v >= 0)
        b, a, c = _factors(d, k)
        ctx.prove('sphere-values', and_(eq(b, 4 * pi), eq(c, 4 * pi / 3), eq(a, 0)))
        ctx.prove('not-a-grain-boundary-site', d.isGrainBoundaryNucleation is False)
        return
    kmax = D.attrs['maxRatio']
    k = real(ctx, 'k', lambda v: v >= 0)
    ctx.assume(lt(k, kmax))
    b, a, c = _factors(d, k)
    ctx.prove('sphere-equivalence: area - 2k*removed-boundary = 3*volume', eq(b - 2 * k * a, 3 * c))
    b0, a0, c0 = _factors(d, 0)
    ctx.prove('k=0/area-factor-is-4pi', eq(b0, 4 * pi))
    ctx.prove('k=0/volume-factor-is-4pi/3', eq(c0, 4 * pi / 3))
    ctx.prove('is-a-grain-boundary-site', d.isGrainBoundaryNucleation is True)
    # outside the admissible range the marker -1 is returned (not a factor)
    kbad = real(ctx, 'k_bad')
    ctx.assume(ge(kbad, kmax))
    ctx.prove('inadmissible-ratio-returns-the-invalid-marker', eq(d.areaFactor(kbad, setInvalidToNan=False), -1))
    if cfg['cls'] == 'GrainBoundaryDescription':
        ctx.prove('factors-non-negative', and_(ge(b, 0), ge(a, 0), ge(c, 0)))
        k2 = real(ctx, 'k2')
        ctx.assume(and_(gt(k2, k), lt(k2, kmax)))
        ctx.prove('volume-factor-decreases-with-k', lt(d.volumeFactor(k2, setInvalidToNan=False), c))
    if cfg['cls'] == 'GrainBoundaryDescription':
        ctx.prove('canary/area-equals-3-volume', eq(b, 3 * c), expect='refuted')


class PrecStub(object):
    """precipitate parameters; for grain-boundary-like sites the geometric factors are ARBITRARY numbers satisfying the
    proved contract of the descriptions (geometric-factors: b - 2k*a = 3c) and c > 0 -- callers see contracts, not bodies"""
    def __init__(self, ctx, it, site):
        self.gamma = real(ctx, 'gamma', lambda v: v > 0)
        self.Rmin = real(ctx, 'Rmin', lambda v: v > 0)
        self.volume = Volume(real(ctx, 'VmBeta', lambda v: v > 0))
        NB = it.get(NUC, 'NucleationBarrierParameters')
        gbE = real(ctx, 'gbEnergy', lambda v: v >= 0)
        self.nucleation = NB(site, self.gamma, gbE)
        if self.nucleation.description.isGrainBoundaryNucleation:
            b = real(ctx, 'areaFactor', lambda v: v >= 0)
            a = real(ctx, 'gbRemoval', lambda v: v >= 0)
            c = real(ctx, 'volumeFactor', lambda v: v > 0)
            k = gbE / (2 * self.gamma)
            ctx.assume(eq(b - 2 * k * a, 3 * c))
            self.nucleation.fields.update(_GBk=k, _areaFactor=b, _gbRemoval=a, _volumeFactor=c)
        f = real(ctx, 'thermoFactor', lambda v: v >= 1)

        class Desc(object):
            def thermoFactor(self, ar):
                return f
        class SF(object):
            description = Desc()
        self.shapeFactor = SF()
        self.f = f


SITE_NAMES = ['bulk', 'dislocations', 'grain boundaries', 'grain edges', 'grain corners']


@REG.contract('nucleationBarrier', [NR + ':nucleationBarrier', NUC + ':NucleationBarrierParameters.Rcrit', NUC + ':NucleationBarrierParameters.Gcrit'],
              configs=[dict(name=s, site=s) for s in SITE_NAMES])
def c_barrier(ctx, it, cfg):
    prm = PrecStub(ctx, it, cfg['site'])
    nb = it.get(NR, 'nucleationBarrier')
    dG = real(ctx, 'dG')
    gb = prm.nucleation.description.isGrainBoundaryNucleation
    R, G = nb(dG, prm, 1)
    ctx.prove('no-driving-force-no-nucleus', implies(le(dG, 0), and_(eq(R, 0), eq(G, 0))))
    ctx.prove('critical-radius-at-least-the-minimum-radius', implies(gt(dG, 0), ge(R, prm.Rmin)))
    if not gb:
        Rs = 2 * prm.f * prm.gamma / dG
        ctx.prove('critical-radius-is-2*f*gamma/dG-or-the-minimum', implies(gt(dG, 0), eq(R, vmax(Rs, prm.Rmin))))
        ctx.prove('barrier-is-(4pi/3)*gamma*R^2', implies(gt(dG, 0), eq(G, (4 * NP.pi / 3) * prm.gamma * R * R)))
        ctx.prove('barrier-non-negative', ge(G, 0))
    else:
        n = prm.nucleation
        b, a, c = n.areaFactor, n.gbRemoval, n.volumeFactor
        Rs = 2 * prm.gamma / dG
        unclamped = and_(gt(dG, 0), ge(Rs, prm.Rmin))
        ctx.prove('critical-radius-equals-that-of-a-sphere-when-not-clamped', implies(unclamped, eq(R, Rs)))
        sphere = (4 * NP.pi / 3) * prm.gamma * Rs * Rs
        ctx.prove('barrier-is-spherical-barrier-times-volume-factor/(4pi/3)-when-not-clamped', implies(unclamped, eq(G * (4 * NP.pi / 3), sphere * c)))
        ctx.prove('barrier-non-negative-when-not-clamped', implies(unclamped, ge(G, 0)))
        ctx.prove('barrier-non-negative', ge(G, 0))
    ctx.prove('canary/radius-independent-of-driving-force', eq(R, prm.Rmin), expect='refuted')


@REG.contract('rate-factors', [NR + ':zeldovich', NR + ':incubationTime', NR + ':nucleationRate', NR + ':nucleationRadius'],
              configs=[dict(name=s, site=s) for s in ('bulk', 'grain boundaries')])
def c_rate(ctx, it, cfg):
    prm = PrecStub(ctx, it, cfg['site'])
    T = real(ctx, 'T', lambda v: v > 0)
    R = real(ctx, 'Rcrit', lambda v: v >= 0)
    Z = it.get(NR, 'zeldovich')(T, R, prm)
    ctx.prove('zeldovich-non-negative', ge(Z, 0))
    ctx.prove('zeldovich-zero-without-nucleus', implies(eq(R, 0), eq(Z, 0)))
    beta = real(ctx, 'beta', lambda v: v > 0)

    class Mat(object):
        theta = real(ctx, 'theta', lambda v: v > 0)
    tau = it.get(NR, 'incubationTime')(beta, Z, Mat())
    ctx.prove('incubation-time-non-negative', ge(tau, 0))
    G = real(ctx, 'Gcrit', lambda v: v >= 0)
    t = real(ctx, 't', lambda v: v > 0)
    rate = it.get(NR, 'nucleationRate')(Z, beta, G, T, tau, time=t)
    ctx.prove('rate-non-negative', ge(rate, 0))
    ctx.prove('rate-zero-without-barrier', implies(eq(G, 0), eq(rate, 0)))
    # incubation factor in (0,1] and rising with time
    t2 = real(ctx, 't2')
    ctx.assume(gt(t2, t))
    r2 = it.get(NR, 'nucleationRate')(Z, beta, G, T, tau, time=t2)
    ctx.prove('rate-rises-with-time-through-the-incubation-factor', ge(r2, rate))
    steady = Z * beta * exp(-G / (it.load('kawin.Constants').env['BOLTZMANN_CONSTANT'] * T))
    ctx.prove('incubation-factor-at-most-one', implies(gt(G, 0), le(rate, steady)))
    Rn = it.get(NR, 'nucleationRadius')(T, R, prm)
    ctx.prove('nucleation-radius-not-below-critical-radius', ge(Rn, R))


@REG.contract('impingement-rate', [NR + ':betaBinary1', NR + ':betaBinary2', NR + ':betaMulti'],
              configs=[dict(name='%s,%s' % (s, f), site=s, form=f) for s in ('bulk', 'grain boundaries') for f in ('scalar', 'array')])
def c_beta(ctx, it, cfg):
    """the three impingement-rate functions, for ANY thermodynamics object that returns positive tracer diffusivities / a positive impingement factor and
    interfacial compositions strictly inside (0,1): the rate is finite, non-negative, zero exactly for a vanishing critical radius, equals the stated
    formula and -- for arrays -- entry i is computed from composition, temperature and radius i only"""
    prm = PrecStub(ctx, it, cfg['site'])
    prm.phase = 'BETA'
    fa = prm.nucleation.areaFactor + 0          # its VALUE before any rate is evaluated (the cached factor is a 0-d array object)
    ctx.assume(gt(fa, 0))     # area factor of an admissible site (bulk 4 pi; boundary sites: positive inside the admissible range)

    class Vol(object):
        a = real(ctx, 'a', lambda v: v > 0)

    class Mat(object):
        volume = Vol()
    mat = Mat()
    ufun = lambda name, nargs, positive=False: ufunc(ctx, name, nargs, (lambda v, *a: v > 0) if positive else None)
    Dfun = [ufun('D%d' % j, 2, positive=True) for j in range(2)]
    Ifun = ufun('impFactor', 2, positive=True)
    xAf = ufun('xEqAlpha', 1)
    xBf = ufun('xEqBeta', 1)
    seen = {'D': [], 'I': [], 'IC': []}

    class Therm(object):
        def getTracerDiffusivity(self, x, T, removeCache=False):
            seen['D'].append((x, T, removeCache))
            if isinstance(x, Masked):
                xs_, Ts_ = x.src, T.src
                return MaskedRows(x.n, 2, lambda i, j: ite(eq(j, 0), Dfun[0](xs_(i), Ts_(i)), Dfun[1](xs_(i), Ts_(i))), x.mask, x.maskobj)
            if len(x.shape) == 1:
                n = x.shape[0]
                return Arr((n, 2), lambda i, j: ite(eq(j, 0), Dfun[0](x.get(i), T.get(i)), Dfun[1](x.get(i), T.get(i))), 'real')
            return Arr((2,), lambda j: ite(eq(j, 0), Dfun[0](x, T), Dfun[1](x, T)), 'real')

        def getInterfacialComposition(self, T, gExtra, precPhase=None):
            seen['IC'].append((T, gExtra, precPhase))
            if isinstance(T, Masked):
                return (T.map(xAf), T.map(xBf))
            n = T.shape[0]
            return (Arr((n,), lambda i: xAf(T.get(i)), 'real'), Arr((n,), lambda i: xBf(T.get(i)), 'real'))

        def impingementFactor(self, x, T, precPhase=None, removeCache=False, searchDir=None):
            seen['I'].append((x, T, precPhase, removeCache, searchDir))
            return Ifun(x.get(0), T)
    th = Therm()
    rc = boolean(ctx, 'removeCache')
    cached = snapshot(prm.nucleation)
    if cfg['form'] == 'scalar':
        x = real(ctx, 'x', lambda v: and_(v > 0, v < 1))
        T = real(ctx, 'T', lambda v: v > 0)
        R = real(ctx, 'Rcrit', lambda v: v >= 0)
        b1 = it.get(NR, 'betaBinary1')(th, x, T, R, mat, prm, rc)
        ctx.prove('binary-1/non-negative-and-zero-exactly-without-a-nucleus', and_(ge(b1, 0), eq(b1, 0) == eq(R, 0)))
        ctx.prove('binary-1/formula', eq(b1, fa * R * R * x * Dfun[1](x, T) / (mat.volume.a ** 4)))
        xA = real(ctx, 'xA', lambda v: and_(v > 0, v < 1))
        xB = real(ctx, 'xB', lambda v: and_(v > 0, v <= 1))
        ctx.assume(xA != xB)
        b2 = it.get(NR, 'betaBinary2')(th, x, T, R, mat, prm, xA, xB, rc)
        ctx.prove('binary-2/non-negative-and-zero-exactly-without-a-nucleus', and_(ge(b2, 0), eq(b2, 0) == eq(R, 0)))
        Df = (xB - xA) ** 2 / (xA * Dfun[1](x, T)) + (xB - xA) ** 2 / ((1 - xA) * Dfun[0](x, T))
        ctx.prove('binary-2/formula', implies(gt(R, 0), eq(b2 * Df * mat.volume.a ** 4, fa * R * R)))
        x2 = Arr((2,), lambda j: ite(eq(j, 0), x, 1 - x), 'real')
        sd = object()
        bm = it.get(NR, 'betaMulti')(th, x2, T, R, mat, prm, rc, searchDir=sd)
        ctx.prove('multi/non-negative-and-zero-exactly-without-a-nucleus', and_(ge(bm, 0), eq(bm, 0) == eq(R, 0)))
        ctx.prove('multi/formula', implies(gt(R, 0), eq(bm, Ifun(x, T) * fa * R * R / mat.volume.a ** 4)))
        ctx.prove('multi/backend-asked-for-the-precipitate-phase-with-the-callers-options',
                  all(c[2] == 'BETA' and c[3] is rc and c[4] is sd for c in seen['I']))
        ctx.prove('binary/backend-asked-with-the-callers-cache-option', all(c[2] is rc for c in seen['D']) and len(seen['D']) >= 2)
        frame(ctx, 'nucleation-parameters', prm.nucleation, cached)       # evaluating a rate leaves the cached geometric factors alone
        ctx.prove('area-factor-unchanged-by-the-evaluations', eq(prm.nucleation.areaFactor, fa))
        ctx.prove('canary/rate-independent-of-radius', eq(b1, fa * x * Dfun[1](x, T) / (mat.volume.a ** 4)), expect='refuted')
        return
    N = integer(ctx, 'N', lambda v: v >= 1)
    xs = array(ctx, 'x', (N,), fact=lambda v, i: and_(v > 0, v < 1))
    Ts = array(ctx, 'T', (N,), fact=lambda v, i: v > 0)
    Rs = array(ctx, 'Rcrit', (N,), fact=lambda v, i: v >= 0)
    ctx.assume(N >= 2)
    i = integer(ctx, 'i', lambda v: and_(v >= 0, v < N))
    b1 = it.get(NR, 'betaBinary1')(th, xs, Ts, Rs, mat, prm, rc)
    ctx.prove('binary-1/entry-i-from-point-i', eq(b1.get(i), ite(eq(Rs.get(i), 0), 0, fa * Rs.get(i) ** 2 * xs.get(i) * Dfun[1](xs.get(i), Ts.get(i)) / mat.volume.a ** 4)), inst=[i])
    ctx.prove('binary-1/non-negative', ge(b1.get(i), 0), inst=[i])
    b2 = it.get(NR, 'betaBinary2')(th, xs, Ts, Rs, mat, prm, removeCache=rc)
    ctx.assume(and_(gt(xAf(Ts.get(i)), 0), lt(xAf(Ts.get(i)), 1), gt(xBf(Ts.get(i)), 0), xAf(Ts.get(i)) != xBf(Ts.get(i))))
    xA, xB = xAf(Ts.get(i)), xBf(Ts.get(i))
    Df = (xB - xA) ** 2 / (xA * Dfun[1](xs.get(i), Ts.get(i))) + (xB - xA) ** 2 / ((1 - xA) * Dfun[0](xs.get(i), Ts.get(i)))
    ctx.prove('binary-2/entry-i-from-point-i-with-the-planar-phase-boundary', and_(implies(eq(Rs.get(i), 0), eq(b2.get(i), 0)),
              implies(gt(Rs.get(i), 0), eq(b2.get(i) * Df * mat.volume.a ** 4, fa * Rs.get(i) ** 2))), inst=[i])
    ctx.prove('binary-2/non-negative', ge(b2.get(i), 0), inst=[i])
    ctx.prove('binary-2/phase-boundary-asked-for-the-precipitate-phase', len(seen['IC']) == 1 and seen['IC'][0][2] == 'BETA')
    frame(ctx, 'nucleation-parameters', prm.nucleation, cached)
    ctx.prove('area-factor-unchanged-by-the-evaluations', eq(prm.nucleation.areaFactor, fa))


@REG.contract('bounded-history/incubationTimeNonIsothermal', [NR + ':incubationTimeNonIsothermal'], configs=[dict(name='L=%d' % L, L=L) for L in (1, 2, 3, 4)],
              bounded='recorded history of at most 4 steps (values symbolic); the unbounded statement needs an induction along the history (constant sign of accumulated impingement minus threshold), not built')
def c_incub_noniso(ctx, it, cfg):
    """for a recorded history with non-decreasing times, non-negative impingement rates and positive temperatures the incubation time is non-negative
    and the history arrays are left alone"""
    class Mat(object):
        theta = real(ctx, 'theta', lambda v: v > 0)
    Z = real(ctx, 'Z', lambda v: v > 0)
    cb = real(ctx, 'currBeta', lambda v: v > 0)
    cT = real(ctx, 'currTemp', lambda v: v > 0)
    L = cfg['L']
    bl = [real(ctx, 'beta%d' % i, lambda v: v >= 0) for i in range(L)]
    tl = [real(ctx, 'time%d' % i) for i in range(L)]
    Tl = [real(ctx, 'temp%d' % i, lambda v: v > 0) for i in range(L)]
    for i in range(L - 1):
        ctx.assume(le(tl[i], tl[i + 1]))
    ct = real(ctx, 'currTime')
    ctx.assume(ge(ct, tl[-1]))
    betas, times, temps = NP.array(bl), NP.array(tl), NP.array(Tl)
    snaps = [snapshot(a) for a in (betas, times, temps)]
    tau = it.get(NR, 'incubationTimeNonIsothermal')(Z, cb, ct, cT, betas, times, temps, Mat())
    ctx.prove('incubation-time-non-negative', ge(tau, 0))
    for nm, s0, a in zip(('betas', 'times', 'temperatures'), snaps, (betas, times, temps)):
        unchanged(ctx, 'history-' + nm, s0, a)
    ctx.prove('canary/always-zero', eq(tau, 0), expect='refuted')


_SETTERS = [('gamma', lambda ctx, n, k: setattr(n, 'gamma', real(ctx, 'gamma%d' % k, lambda v: v > 0))),
            ('gbEnergy', lambda ctx, n, k: setattr(n, 'gbEnergy', real(ctx, 'gbE%d' % k, lambda v: v >= 0))),
            ('site', lambda ctx, n, k: n.setNucleationType('grain boundaries')),
            ('site-object', lambda ctx, n, k: setattr(n, 'description', n.cls.interp.get(NUC, 'GrainBoundaryDescription')()))]


@REG.contract('NucleationBarrierParameters/cached-factors-follow-every-change', [NUC + ':NucleationBarrierParameters.' + f for f in
              ('__init__', '_resetFactors', 'setNucleationType', '_validateGBk', '_validateInputs')],
              configs=[dict(name='+'.join(_SETTERS[i][0] for i in seq), seq=seq) for n in (1, 2) for seq in itertools.product(range(len(_SETTERS)), repeat=n)])
def c_cache(ctx, it, cfg):
    NB = it.get(NUC, 'NucleationBarrierParameters')
    n = NB('grain boundaries', real(ctx, 'gamma', lambda v: v > 0), real(ctx, 'gbE', lambda v: v >= 0))
    ctx.assume(lt(n.fields['_gbEnergy'], 2 * n.fields['_gamma']))
    calls = []
    n.fields['_updateCallbacks'] = [lambda: calls.append(1)]
    # populate the caches, then change something, then read again
    _ = (n.areaFactor, n.volumeFactor, n.gbRemoval, n.areaRemoval, n.GBk)
    for k, i in enumerate(cfg['seq']):
        _SETTERS[i][1](ctx, n, k)
        ctx.assume(lt(n.gbEnergy, 2 * n.gamma))
        if k < len(cfg['seq']) - 1:
            _ = (n.areaFactor, n.volumeFactor, n.gbRemoval, n.areaRemoval, n.GBk)
    d = n.description
    kk = n.gbEnergy / (2 * n.gamma)
    ctx.prove('ratio-is-current-gbEnergy/(2*gamma)', eq(n.GBk, kk))
    ctx.prove('area-factor-is-current', eq(n.areaFactor, d.areaFactor(kk, setInvalidToNan=False)))
    ctx.prove('volume-factor-is-current', eq(n.volumeFactor, d.volumeFactor(kk, setInvalidToNan=False)))
    ctx.prove('removed-boundary-factor-is-current', eq(n.gbRemoval, d.gbRemoval(kk, setInvalidToNan=False)))
    ctx.prove('second-read-uses-the-cache-consistently', eq(n.areaFactor, n.areaFactor))


@REG.contract('NucleationBarrierParameters/admissibility', [NUC + ':NucleationBarrierParameters._validateGBk', NUC + ':NucleationBarrierParameters.areaFactor'],
              configs=[dict(name=s, site=s) for s in SITE_NAMES[2:]])
def c_admissible(ctx, it, cfg):
    """a ratio is accepted exactly when the description has factors for it (never the invalid marker -1)"""
    NB = it.get(NUC, 'NucleationBarrierParameters')
    n = NB(cfg['site'], real(ctx, 'gamma', lambda v: v > 0), real(ctx, 'gbE', lambda v: v >= 0))
    kmax = n.description.maxRatio
    k = n.fields['_gbEnergy'] / (2 * n.fields['_gamma'])
    raised, et, val = expect_raise(lambda: n.areaFactor, ['ValueError'])
    if raised:
        ctx.prove('rejected-only-when-inadmissible', ge(k, kmax))
    else:
        ctx.prove('accepted-only-when-admissible', lt(k, kmax))
        if cfg['site'] == 'grain boundaries':        # polynomial factor; for edges / corners the sign of the transcendental factor is an undecided conjunct
            ctx.prove('accepted-ratio-never-yields-the-invalid-marker', not_(eq(val, -1)))


class PBMM(object):
    """moments of a distribution as arbitrary non-negative numbers (the moment functions are contracted in C08)"""
    def __init__(self, ctx, p):
        self.p = p
        self.m = [real(ctx, 'M%d_%d' % (k, p), lambda v: v >= 0) for k in range(3)]

    def ZeroMomentFromN(self, x): return self.m[0] if x == ('x', self.p) else 'WRONG-DISTRIBUTION'
    def FirstMomentFromN(self, x): return self.m[1] if x == ('x', self.p) else 'WRONG-DISTRIBUTION'
    def SecondMomentFromN(self, x): return self.m[2] if x == ('x', self.p) else 'WRONG-DISTRIBUTION'


@REG.contract('_calcNucleationSites', [KE + ':PrecipitateModel._calcNucleationSites'],
              configs=[dict(name='%s,%s' % (a, b), sites=(a, b)) for a in SITE_NAMES for b in SITE_NAMES if SITE_NAMES.index(b) >= SITE_NAMES.index(a)])
def c_sites(ctx, it, cfg):
    P = 2
    m, pd, n = mk_kwn(ctx, it, P, 1)
    NB = it.get(NUC, 'NucleationBarrierParameters')
    for p in range(P):
        prm = m.fields['precipitateParameters'][p]
        prm.nucleation = NB(cfg['sites'][p], real(ctx, 'gamma%d' % p, lambda v: v > 0), real(ctx, 'gbE%d' % p, lambda v: v >= 0))
        ctx.assume(lt(prm.nucleation.fields['_gbEnergy'], prm.nucleation.fields['_gamma']))
    pb = [PBMM(ctx, p) for p in range(P)]
    m.fields['PBM'] = pb

    class N0(object):
        bulkN0 = real(ctx, 'bulkN0', lambda v: v >= 0)
        dislocationN0 = real(ctx, 'dislocationN0', lambda v: v >= 0)
        GBareaN0 = real(ctx, 'GBareaN0', lambda v: v >= 0)
        GBedgeN0 = real(ctx, 'GBedgeN0', lambda v: v >= 0)
        GBcornerN0 = real(ctx, 'GBcornerN0', lambda v: v >= 0)
    m.fields['matrixParameters'].nucleationSites = N0()
    x = [('x', 0), ('x', 1)]
    VmA = m.fields['matrixParameters'].volume.Vm
    NA = it.load('kawin.Constants').env['AVOGADROS_NUMBER']
    for p in range(P):
        r = m._calcNucleationSites(real(ctx, 't'), x, p)
        ctx.prove('phase%d/never-negative' % p, ge(r, 0))
        # NOTE (observation, not part of C14): DislocationDescription subclasses BulkDescription, so the code's isinstance tests
        # count dislocation-site phases with the bulk formula; the contract follows the code's own site classes here
        canon = lambda s: 'bulk' if s == 'dislocations' else s
        site = canon(cfg['sites'][p])
        same = [q for q in range(P) if canon(cfg['sites'][q]) == site]
        nuc = [m.fields['precipitateParameters'][q].nucleation for q in range(P)]
        if site == 'bulk':
            total, occ = N0.bulkN0, sum((pb[q].m[0] for q in same), 0)
        elif site == 'dislocations':
            total, occ = N0.dislocationN0, sum((pb[q].m[1] for q in same), 0) * power(NA / VmA, Fraction(1, 3))
        elif site == 'grain boundaries':
            total, occ = N0.GBareaN0, sum((nuc[q].gbRemoval * pb[q].m[2] for q in same), 0) * power(NA / VmA, Fraction(2, 3))
        elif site == 'grain edges':
            total, occ = N0.GBedgeN0, sum((sqrt(1 - nuc[q].GBk * nuc[q].GBk) * pb[q].m[1] for q in same), 0) * power(NA / VmA, Fraction(1, 3))
        else:
            total, occ = N0.GBcornerN0, sum((pb[q].m[0] for q in same), 0)
        ctx.prove('phase%d/available = initial sites - sites occupied by every phase of the same site type, floored at 0' % p, eq(r, vmax(total - occ, 0)))
        ctx.prove('phase%d/at-most-the-initial-density' % p, le(r, total))
