"""C05 -- the solver honours its time and state contract for any model (DESIGN 6, C05)."""
from kvc.dsl import *
from kvc import sym
import z3

REG = Registry('C05')
REG.assumptions += [
    'solve: tf > t0, minDtFrac > 0, maxDtFrac > 0 (with minDtFrac = 0 and a zero proposal the loop does not terminate)',
    'model callbacks (getdXdt, getDt, correctdXdt, flatten/unflatten, pre/postProcess) are arbitrary: modelled as '
    'uninterpreted host callables returning fresh values; the step proposal is ANY real (FP64 clause: any double incl. NaN, +-inf)',
    'termination: every non-final step advances time by at least m = min(minDtFrac, maxDtFrac)*(tf-t0) > 0 (proved); '
    'that a positive lower bound on progress over a bounded interval implies termination is the Archimedean property (trusted)',
    'state lists of k <= 3 items (scalars / 1-D arrays of symbolic length); couplings of m <= 2 models',
]
REG.undecided += ['FP64 end-time clause (currTime + (tf - currTime) <= tf under IEEE rounding) is checked in the thorough tier only (solve/end-time-FP64)']
SOLV = 'kawin.solver.Solver'
ITER = 'kawin.solver.Iterators'
GM = 'kawin.GenericModel'


class Tok(object):
    """an opaque state value (what the model's flatten/unflatten/postProcess hand around)"""
    def __init__(self, name):
        self.name = name

    def __repr__(self):
        return 'Tok(%s)' % self.name


def mk_solver(ctx, it, log, fp=False, proposals=None):
    """a DESolver whose model callbacks are arbitrary (uninterpreted)"""
    n = [0]

    def fresh_tok(base):
        n[0] += 1
        return Tok('%s%d' % (base, n[0]))

    def unflatten(x, ref):
        log.append(('unflatten', x, ref))
        return fresh_tok('unflat')

    def flatten(x):
        log.append(('flatten', x))
        return fresh_tok('flat')

    def f(t, x):
        log.append(('f', t, x))
        return fresh_tok('dxdt')

    def getDt(dxdt):
        log.append(('getDt', dxdt))
        n[0] += 1
        if fp:
            v = sym.FPV(z3.FP('proposal%d' % n[0], sym.FP64))
        else:
            v = real(ctx, 'proposal%d' % n[0])
        return v

    def correct(dt, x, dxdt):
        log.append(('correct', dt, x, dxdt))

    def pre():
        log.append(('pre',))

    def post(t, x):
        n[0] += 1
        stop = boolean(ctx, 'stop%d' % n[0])
        log.append(('post', t, x, stop))
        return fresh_tok('Xpost'), stop
    o = new_obj(it, SOLV, 'DESolver', dt=real(ctx, 'defaultDT'), preProcess=pre, postProcess=post,
                printHeader=lambda: None, printStatus=lambda *a: None, iterator=None,
                _f=f, _correctdXdt=correct, _getDt=getDt, _flattenX=flatten, _unflattenX=unflatten)
    return o


# ---------------------------------------------------------------------------------------------------
@REG.contract('_getdXdt/clamp', [SOLV + ':DESolver._getdXdt'])
def c_clamp(ctx, it, cfg):
    log = []
    o = mk_solver(ctx, it, log)
    o.fields['_dtmin'] = dmin = real(ctx, '_dtmin')
    o.fields['_dtmax'] = dmax = real(ctx, '_dtmax')
    o.fields['_X0'] = Tok('X0')
    t = real(ctx, 't')
    x = Tok('x')
    flat, dt = o._getdXdt(t, x, True)
    ctx.prove('within-limits', implies(le(dmin, dmax), between(dmin, dt, dmax)))
    ctx.prove('max-wins-over-min', implies(lt(dmax, dmin), eq(dt, dmax)))
    ctx.prove('never-above-max', le(dt, dmax))
    calls = [e for e in log if e[0] == 'f']
    ctx.prove('model-called-once-with-the-given-time', len(calls) == 1 and eq(calls[0][1], t))
    un = [e for e in log if e[0] == 'unflatten']
    ctx.prove('state-unflattened-against-the-reference', len(un) == 1 and un[0][1] is x and un[0][2] is o.fields['_X0'] and calls[0][2].name == 'unflat1')
    fl = [e for e in log if e[0] == 'flatten']
    ctx.prove('derivative-flattened', len(fl) == 1 and flat.name.startswith('flat'))
    ctx.prove('canary/min-wins', implies(lt(dmax, dmin), eq(dt, dmin)), expect='refuted')
    # without getDt: only the derivative is returned and no step is computed
    log2 = []
    o2 = mk_solver(ctx, it, log2)
    o2.fields['_X0'] = Tok('X0')
    r = o2._getdXdt(t, x)
    ctx.prove('no-dt-requested', isinstance(r, Tok) and not any(e[0] == 'getDt' for e in log2) and eq([e for e in log2 if e[0] == 'f'][0][1], t))


@REG.contract('_getdXdt/clamp-FP64', [SOLV + ':DESolver._getdXdt'])
def c_clamp_fp(ctx, it, cfg):
    """IEEE-754 doubles, proposal = any double including NaN and +-inf (loop free => complete)"""
    log = []
    o = mk_solver(ctx, it, log, fp=True)
    dmin = sym.FPV(z3.FP('_dtmin', sym.FP64))
    dmax = sym.FPV(z3.FP('_dtmax', sym.FP64))
    o.fields['_dtmin'], o.fields['_dtmax'] = dmin, dmax
    o.fields['_X0'] = Tok('X0')
    ctx.assume(dmin.is_finite(), dmax.is_finite())
    flat, dt = o._getdXdt(sym.FPV(z3.FP('t', sym.FP64)), Tok('x'), True)
    ctx.prove('never-nan-or-inf', dt.is_finite())
    ctx.prove('within-limits', implies(dmin <= dmax, and_(dmin <= dt, dt <= dmax)))
    ctx.prove('max-wins-over-min', implies(dmax < dmin, dt == dmax))
    ctx.prove('canary/nan-propagates', dt == dmin, expect='refuted')


@REG.contract('solve/end-time-FP64', [SOLV + ':DESolver.solve'], configs=[dict(name='last-step', tier='thorough', weight=200)])
def c_endtime_fp(ctx, it, cfg):
    """IEEE-754 doubles: the real solve loop executed for its LAST step (the iterator returns the step the solver allowed, which was
    limited to the remaining time): the recorded time must not exceed tf.  One subtraction and one addition in round-to-nearest."""
    log = []
    o = mk_solver(ctx, it, log, fp=True)
    import math
    rp = getattr(ctx, 'replay', False)
    t0, tf = fp64(ctx, 't0'), fp64(ctx, 'tf')
    fin = (lambda v: math.isfinite(v)) if rp else (lambda v: v.is_finite())
    ctx.assume(fin(t0), fin(tf), t0 >= 0, t0 < tf)
    o.fields['dtmin'] = 1e-6 if rp else sym.FPV(z3.FPVal(1e-6, sym.FP64))
    o.fields['dtmax'] = 1.0 if rp else sym.FPV(z3.FPVal(1.0, sym.FP64))
    seen = []

    def iterator(f, t, x, upd):
        seen.append(t)
        flat, dt = f(t, x, True)                # the real _getdXdt clamps the model's proposal (+inf here) to the remaining time
        return Tok('xnew'), dt
    o.fields['iterator'] = iterator
    o.fields['_getDt'] = lambda dxdt: (float('inf') if rp else sym.FPV(z3.fpPlusInfinity(sym.FP64)))

    def post(t, x):
        log.append(('post', t, x))
        return Tok('Xpost'), True                           # stop after this step: only the last step is examined
    o.fields['postProcess'] = post
    o.solve(t0, Tok('X0'), tf, False, 10)
    posts = [e for e in log if e[0] == 'post']
    ctx.prove('one-step-taken', len(posts) == 1)
    if len(posts) == 1:
        ctx.prove('recorded-time-does-not-exceed-the-end-time', posts[0][1] <= tf)


# ---------------------------------------------------------------------------------------------------
class LinTok(Tok):
    """derivative value with +, * by scalars (so RK4 can combine stages); records in-place mutation"""
    def __init__(self, name, terms=None):
        Tok.__init__(self, name)
        self.terms = terms if terms is not None else {name: 1}
        self.mutated = False

    def _comb(self, o, sa, sb):
        t = {}
        for k, v in self.terms.items():
            t[k] = t.get(k, 0) + sa * v
        if isinstance(o, LinTok):
            for k, v in o.terms.items():
                t[k] = t.get(k, 0) + sb * v
        else:
            raise Unsupported('LinTok + %r' % (o,))
        return t

    def __add__(self, o): return LinTok('lin', self._comb(o, 1, 1))
    def __radd__(self, o): return LinTok('lin', self._comb(o, 1, 1))
    def __mul__(self, s): return LinTok('lin', {k: v * s for k, v in self.terms.items()})
    __rmul__ = __mul__
    def __truediv__(self, s): return LinTok('lin', {k: v / s for k, v in self.terms.items()})

    def __iadd__(self, o):
        self.terms = self._comb(o, 1, 1)
        self.mutated = True
        return self


def opaque_f(ctx, log, tag='f'):
    """f(t, X[, getDt]) of an iterator: uninterpreted"""
    n = [0]

    def f(t, X, getDt=False):
        n[0] += 1
        k = LinTok('%s_k%d' % (tag, n[0]))
        log.append(('f', t, X, getDt, k))
        if truth_(getDt):
            dt = real(ctx, '%s_dt%d' % (tag, n[0]))
            return k, dt
        return k
    return f


def truth_(x):
    return bool(x)


@REG.contract('iterators/dt-and-call-structure', [ITER + ':ExplicitEulerIterator', ITER + ':RK4Iterator'],
              configs=[dict(name='euler', fn='ExplicitEulerIterator'), dict(name='rk4', fn='RK4Iterator')])
def c_iter(ctx, it, cfg):
    log = []
    f = opaque_f(ctx, log)
    ulog = []

    def updateX(x, k, dt):
        ulog.append((x, k, dt))
        return Tok('X%d' % len(ulog))
    X_old = Tok('X_old')
    t = real(ctx, 't')
    fn = it.get(ITER, cfg['fn'])
    # arithmetic on opaque derivative tokens (RK4 sums them): give tokens a linear-combination algebra
    res, dt = fn(f, t, X_old, updateX)
    first = log[0]
    ctx.prove('first-call-requests-dt', first[3] is True and first[2] is X_old and eq(first[1], t))
    dt0 = [e for e in ctx.inputs if e.name == 'f_dt1'][0].sv if not getattr(ctx, 'replay', False) else dt
    ctx.prove('returned-dt-is-the-models-dt', eq(dt, dt0))
    ctx.prove('dt-requested-exactly-once', sum(1 for e in log if e[3] is True) == 1)
    ctx.prove('result-comes-from-updateX-on-X_old', isinstance(res, Tok) and ulog[-1][0] is X_old and eq(ulog[-1][2], dt0))
    ctx.prove('every-update-starts-from-X_old', all(u[0] is X_old for u in ulog))


@REG.contract('Coupler/postProcess-getDt', [GM + ':Coupler.postProcess', GM + ':Coupler.getDt', GM + ':Coupler.getdXdt',
                                            GM + ':Coupler.correctdXdt', GM + ':Coupler.preProcess', GM + ':Coupler.getCurrentX'],
              configs=[dict(name='m=%d' % m, m=m) for m in (1, 2, 3)])
def c_coupler(ctx, it, cfg):
    m = cfg['m']
    log = []

    class Sub(object):
        def __init__(self, k):
            self.k = k
            self.stop = boolean(ctx, 'stop%d' % k)
            self.dt = real(ctx, 'dt%d' % k)

        def postProcess(self, t, x):
            log.append(('post', self.k, t, x))
            return Tok('xnew%d' % self.k), self.stop

        def getDt(self, dxdt):
            log.append(('getDt', self.k, dxdt))
            return self.dt

        def getdXdt(self, t, x):
            log.append(('getdXdt', self.k, t, x))
            return Tok('d%d' % self.k)

        def correctdXdt(self, dt, x, dxdt):
            log.append(('correct', self.k, dt, x, dxdt))

        def preProcess(self):
            log.append(('pre', self.k))

        def getCurrentX(self):
            return real(ctx, 'tsub%d' % self.k), Tok('xcur%d' % self.k)
    subs = [Sub(k) for k in range(m)]
    n = integer(ctx, 'n', lambda v: v >= 1)
    time = array(ctx, 'time', (n,))
    cp = new_obj(it, GM, 'Coupler', models=subs, time=time, couplingModels=[])
    t = real(ctx, 't')
    xs = [Tok('x%d' % k) for k in range(m)]
    tf0 = time.snap()
    xnew, stop = cp.postProcess(t, xs)
    ctx.prove('stop-is-or-of-all-models', eq(stop, or_(*[s.stop for s in subs])))
    posts = [e for e in log if e[0] == 'post']
    ctx.prove('each-model-gets-its-own-state-and-the-time', len(posts) == m and all(p[1] == k and p[3] is xs[k] and eq(p[2], t) is not False for k, p in enumerate(posts))
              and and_(*[eq(p[2], t) for p in posts]))
    ctx.prove('new-states-in-model-order', isinstance(xnew, list) and len(xnew) == m and all(x.name == 'xnew%d' % k for k, x in enumerate(xnew)))
    tnew = cp.fields['time']
    ctx.prove('time-appended', and_(eq(tnew.shape[0], n + 1), eq(tnew.get(n), t)))
    forall(ctx, 'time-history-kept', 0, n, lambda i: eq(tnew.get(i), tf0(i)))
    ctx.prove('canary/last-model-decides', eq(stop, subs[-1].stop), expect='refuted' if m > 1 else None)
    # getDt = smallest proposal
    dts = [Tok('dx%d' % k) for k in range(m)]
    dt = cp.getDt(dts)
    ctx.prove('dt-is-the-smallest-proposal', and_(*[le(dt, s.dt) for s in subs]) if m else True)
    ctx.prove('dt-is-one-of-the-proposals', or_(*[eq(dt, s.dt) for s in subs]))
    gd = [e for e in log if e[0] == 'getDt']
    ctx.prove('getDt-routes-substates', len(gd) == m and all(e[1] == k and e[2] is dts[k] for k, e in enumerate(gd)))
    del log[:]
    d = cp.getdXdt(t, xs)
    g = [e for e in log if e[0] == 'getdXdt']
    ctx.prove('getdXdt-routes-substates', len(g) == m and all(e[1] == k and e[3] is xs[k] for k, e in enumerate(g)) and and_(*[eq(e[2], t) for e in g])
              and [x.name for x in d] == ['d%d' % k for k in range(m)])
    del log[:]
    cp.correctdXdt(real(ctx, 'dtc'), xs, dts)
    g = [e for e in log if e[0] == 'correct']
    ctx.prove('correctdXdt-routes-substates', len(g) == m and all(e[1] == k and e[3] is xs[k] and e[4] is dts[k] for k, e in enumerate(g)))
    tc, xc = cp.getCurrentX()
    ctx.prove('current-time-is-last-recorded', eq(tc, tnew.get(n)))


# ---------------------------------------------------------------------------------------------------
def _solve_spec(ctx, o, log, st):
    def inv(env, c):
        s = env['self']
        t0, tf, cur = env['t0'], env['tf'], env['currTime']
        return [('t0<=currTime<=tf', and_(le(t0, cur), le(cur, tf))),
                ('_dtmin-fixed', eq(s.fields['_dtmin'], s.fields['dtmin'] * (tf - t0))),
                ('0<_dtmax<=maxfrac', and_(gt(s.fields['_dtmax'], 0), le(s.fields['_dtmax'], s.fields['dtmax'] * (tf - t0)))),
                ('progress-floor', or_(ge(s.fields['_dtmax'], vmin(s.fields['_dtmin'], s.fields['dtmax'] * (tf - t0))),
                                       ge(s.fields['_dtmax'], tf - cur))),
                ]

    def havoc(env, c):
        s = env['self']
        env['currTime'] = real(c, 'currTime')
        env['i'] = integer(c, 'i')
        env['stop'] = boolean(c, 'stop')
        env['X0'] = Tok('X0loop')
        s.fields['_dtmax'] = real(c, '_dtmax')
        s.fields['_X0'] = Tok('X0ref')

    def ghost(env, c):
        return dict(cur=env['currTime'], nlog=len(log), X0=env['X0'])

    def body_post(env, c, g):
        s = env['self']
        t0, tf = env['t0'], env['tf']
        cur0, cur1 = g['cur'], env['currTime']
        dt = cur1 - cur0
        dmin, dmaxf = s.fields['_dtmin'], s.fields['dtmax'] * (tf - t0)
        c.prove('solve/step/time-strictly-increases', gt(cur1, cur0), where='DESolver.solve loop body')
        c.prove('solve/step/never-exceeds-end-time', le(cur1, tf))
        c.prove('solve/step/at-most-max-fraction', le(dt, dmaxf))
        c.prove('solve/step/only-the-last-step-may-be-shorter-than-min', implies(and_(le(dmin, dmaxf), lt(dt, dmin)), eq(cur1, tf)))
        c.prove('solve/step/progress-at-least-m-unless-final', or_(eq(cur1, tf), ge(dt, vmin(dmin, dmaxf))))
        ev = log[g['nlog']:]
        kinds = [e[0] for e in ev]
        posts = [e for e in ev if e[0] == 'post']
        c.prove('solve/step/postProcess-exactly-once-with-the-new-time', len(posts) == 1 and kinds[-1] == 'post' and eq(posts[0][1], cur1))
        c.prove('solve/step/preProcess-once-before-the-step', kinds.count('pre') == 1 and kinds[0] == 'pre')
        c.prove('solve/step/stop-flag-comes-from-the-model', env['stop'] is posts[0][3] if posts else False)
        c.prove('solve/step/state-for-next-step-comes-from-postProcess', isinstance(env['X0'], Tok) and env['X0'].name.startswith('Xpost'))
        itc = [e for e in ev if e[0] == 'iter']
        c.prove('solve/step/iterator-once-at-current-time-with-flattened-state',
                len(itc) == 1 and eq(itc[0][1], cur0) and isinstance(itc[0][2], Tok) and itc[0][2].name.startswith('flat') and s.fields['_X0'] is g['X0'])
        c.prove('solve/step/time-advances-by-exactly-the-step-the-state-was-advanced', len(itc) == 1 and eq(cur1, cur0 + itc[0][3]))
        c.prove('solve/step/postProcess-gets-the-unflattened-iterator-result', isinstance(posts[0][2], Tok) and posts[0][2].name.startswith('unflat') if posts else False)

    def exit_post(env, c):
        c.prove('solve/exit/ends-exactly-at-tf-unless-stopped', or_(eq(env['currTime'], env['tf']), env['stop']))
        st['exit'] = (env['currTime'], env['stop'], len(log))
    return LoopSpec(inv, havoc, name='solve/loop', ghost=ghost, body_post=body_post, exit_post=exit_post)


@REG.contract('solve/time-contract', [SOLV + ':DESolver.solve', SOLV + ':DESolver._getdXdt'])
def c_solve(ctx, it, cfg):
    log = []
    o = mk_solver(ctx, it, log)
    o.fields['dtmin'] = real(ctx, 'minDtFrac', lambda v: v > 0)
    o.fields['dtmax'] = real(ctx, 'maxDtFrac', lambda v: v > 0)

    def iterator(f, t, X, updateX):
        # the built-in iterators' proved contract (iterators/*): dt is what f(t, X, True) returned
        flat, dt = f(t, X, True)
        log.append(('iter', t, X, dt))
        return Tok('flatnew'), dt
    o.fields['iterator'] = iterator
    t0 = real(ctx, 't0')
    tf = real(ctx, 'tf')
    ctx.assume(tf > t0)
    st = {}
    key = it.get(SOLV, 'DESolver.solve').key
    it.loop_specs[(key, 0)] = _solve_spec(ctx, o, log, st)
    o.solve(t0, Tok('Xinit'), tf)
    if 'exit' in st:
        cur, stop, nlog = st['exit']
        ctx.prove('solve/exit/no-callback-after-the-loop', len(log) == nlog)


@REG.contract('GenericModel.solve/wiring', [GM + ':GenericModel.solve', GM + ':GenericModel.setTimeInfo', SOLV + ':DESolver.__init__',
                                            SOLV + ':DESolver.setIterator', SOLV + ':DESolver.setFunctions', SOLV + ':DESolver.setdXdtFunctions'],
              configs=[dict(name='rk4', st='RK4'), dict(name='euler', st='EXPLICITEULER')])
def c_gm_solve(ctx, it, cfg):
    """the solver is started at the model's own current time and runs for exactly simTime, with the model's callbacks"""
    calls = []
    key = it.get(SOLV, 'DESolver.solve').key

    def solve_summary(interp, f, args, kwargs):
        calls.append((args, kwargs))
        return None
    it.summaries[key] = solve_summary
    m = it.get(GM, 'GenericModel')()             # the real constructor: every field, also one added later, has the value the real code gives it
    ST = it.get(SOLV, 'SolverType')
    cur = {}
    m.fields['getCurrentX'] = lambda: (cur['t'], cur['X'])
    other = 'EXPLICITEULER' if cfg['st'] == 'RK4' else 'RK4'
    # two consecutive calls on the same model with different durations, fractions and (second call) the other iterator:
    # every call must use exactly what IT was given
    for k, st in enumerate((cfg['st'], other)):
        cur['t'], cur['X'] = real(ctx, 'tcur%d' % k), Tok('Xcur%d' % k)
        sim = real(ctx, 'simTime%d' % k)
        mn, mxf = real(ctx, 'minDtFrac%d' % k), real(ctx, 'maxDtFrac%d' % k)
        del calls[:]
        m.solve(sim, ST.attrs[st], False, 10, mn, mxf)
        pre = 'call%d/' % (k + 1)
        ctx.prove(pre + 'solver-started-once', len(calls) == 1)
        (slv, t0, X0, tf, verbose, vIt), _ = calls[0]
        ctx.prove(pre + 'starts-at-model-time', eq(t0, cur['t']))
        ctx.prove(pre + 'ends-at-model-time-plus-duration', eq(tf, cur['t'] + sim))
        ctx.prove(pre + 'state-is-the-models-state', X0 is cur['X'])
        ctx.prove(pre + 'step-fractions-forwarded', and_(eq(slv.fields['dtmin'], mn), eq(slv.fields['dtmax'], mxf)))
        want = it.get(ITER, 'RK4Iterator' if st == 'RK4' else 'ExplicitEulerIterator')
        ctx.prove(pre + 'iterator-selected', slv.fields['iterator'] is want)
        f = slv.fields
        ok = all(isinstance(f[kk], BoundMethod) and f[kk].obj is m for kk in ('preProcess', 'postProcess', '_f', '_correctdXdt', '_getDt', '_flattenX', '_unflattenX'))
        names = dict(preProcess='preProcess', postProcess='postProcess', _f='getdXdt', _correctdXdt='correctdXdt', _getDt='getDt', _flattenX='flattenX', _unflattenX='unflattenX')
        ok = ok and all(f[kk].func.name == v for kk, v in names.items())
        ctx.prove(pre + 'model-callbacks-wired', ok)
        ctx.prove(pre + 'time-info', and_(eq(m.fields['initialTime'], cur['t']), eq(m.fields['finalTime'], cur['t'] + sim), eq(m.fields['deltaTime'], sim)))


# ---------------------------------------------------------------------------------------------------
def _mk_state(ctx, kinds, tag):
    """list state: 's' scalar, 'a' 1-D array of symbolic length"""
    X = []
    for k, kd in enumerate(kinds):
        if kd == 's':
            X.append(real(ctx, '%ss%d' % (tag, k)))
        else:
            n = integer(ctx, '%sn%d' % (tag, k), lambda v: v >= 0)
            X.append(array(ctx, '%sa%d' % (tag, k), (n,)))
    return X


def _same_state(ctx, name, A, B):
    ok = isinstance(B, list) and len(A) == len(B)
    ctx.prove(name + '/same-structure', ok)
    if not ok:
        return
    for k, (a, b) in enumerate(zip(A, B)):
        if isinstance(a, ArrBase):
            good = isinstance(b, ArrBase) and b.ndim == a.ndim
            ctx.prove('%s/item%d-shape' % (name, k), and_(good, *[eq(x, y) for x, y in zip(a.shape, b.shape)]) if good else False)
            if good:
                forall(ctx, '%s/item%d-values' % (name, k), 0, a.shape[0], lambda i: eq(a.get(i), b.get(i)))
        else:
            ctx.prove('%s/item%d-value' % (name, k), (not isinstance(b, (ArrBase, list))) and eq(a, b))


import itertools as _it
_KINDS = [''.join(p) for k in (1, 2, 3) for p in _it.product('sa', repeat=k)]


@REG.contract('GenericModel/flatten-unflatten', [GM + ':GenericModel.flattenX', GM + ':GenericModel.unflattenX'],
              configs=[dict(name=k, kinds=k) for k in _KINDS])
def c_flat(ctx, it, cfg):
    m = new_obj(it, GM, 'GenericModel', couplingModels=[])
    X = _mk_state(ctx, cfg['kinds'], 'x')
    snaps = [snapshot(x) if isinstance(x, ArrBase) else None for x in X]
    flat = m.flattenX(X)
    tot = 0
    for x in X:
        tot = tot + (x.shape[0] if isinstance(x, ArrBase) else 1)
    ctx.prove('flat-is-1d-of-total-length', and_(isinstance(flat, ArrBase) and flat.ndim == 1, eq(flat.shape[0], tot)))
    # the flat vector is a NEW array: the iterators accumulate stages in place on what they are handed (dxdtsum = k1; dxdtsum += ...), so a flat vector
    # that aliased an entry of the model's own state or derivative would be overwritten by the integrator
    ctx.prove('flat-vector-does-not-alias-the-state', all(flat is not x and getattr(flat, 'base', None) is not x for x in X))
    # the reference may hold different values (the solver unflattens derivative / new-state vectors)
    ref = [x if not isinstance(x, ArrBase) else array(ctx, 'ref%d' % k, x.shape) for k, x in enumerate(X)]
    ref = [r if isinstance(r, ArrBase) else real(ctx, 'refs%d' % k) for k, r in enumerate(ref)]
    ref_copy = list(ref)
    back = m.unflattenX(flat, ref)
    _same_state(ctx, 'round-trip', X, back)
    ctx.prove('reference-list-not-modified', len(ref) == len(ref_copy) and all(a is b for a, b in zip(ref, ref_copy)))
    for k, (x, s) in enumerate(zip(X, snaps)):
        if s is not None:
            unchanged(ctx, 'arg:X[%d]' % k, s, x)


@REG.contract('Coupler/flatten-unflatten', [GM + ':Coupler.flattenX', GM + ':Coupler.unflattenX'],
              configs=[dict(name='+'.join(ks), kinds=ks) for ks in (('a',), ('sa', 'a'), ('a', 'as'), ('aa', 's'), ('s', 'a', 'sa'))])
def c_cflat(ctx, it, cfg):
    models = [new_obj(it, GM, 'GenericModel', couplingModels=[]) for _ in cfg['kinds']]
    cp = new_obj(it, GM, 'Coupler', models=models, time=NP.zeros(1), couplingModels=[])
    X = [_mk_state(ctx, ks, 'm%d' % j) for j, ks in enumerate(cfg['kinds'])]
    flat = cp.flattenX(X)
    sizes = cp.fields['_sizeRef']
    tot = 0
    for j, xs in enumerate(X):
        sz = 0
        for x in xs:
            sz = sz + (x.shape[0] if isinstance(x, ArrBase) else 1)
        ctx.prove('sizeRef[%d]-is-flat-length-of-model-%d' % (j, j), eq(sizes[j], sz))
        tot = tot + sz
    ctx.prove('flat-length-is-sum', eq(flat.shape[0], tot))
    back = cp.unflattenX(flat, X)
    ctx.prove('one-substate-per-model', isinstance(back, list) and len(back) == len(X))
    for j, (xs, bs) in enumerate(zip(X, back)):
        _same_state(ctx, 'model%d' % j, xs, bs)
