"""C02 -- reported precipitate statistics are moments of the size distribution (DESIGN 6, C02)."""
from kvc.dsl import *
from kvc import sym
from .kwn import *
from . import c01 as _c01, c08 as _c08, c07 as _c07

REG = Registry('C02')
REG.assumptions += list(_c01.REG.assumptions[:4]) + [
    'the statistics are those of the distribution handed to the mass balance for the step (proved: _calcMassBalance contract, shared with C01); that this is the NEW '
    'distribution of the step and that exactly this row is recorded is the step-ordering contract (shared with C01)',
    'on steps with a re-mesh / extension the volume fraction agrees with the post-re-mesh distribution (third moment preserved, C08 contracts) while N and mean radius '
    'refer to the recorded (pre-re-mesh) distribution',
    'number balance is proved for one explicit-Euler update x + dt*dXdt with the corrected rate; for RK4 the corrected rate is rebuilt from the last stage (observation)',
]
# clause 1: statistics = moments (contract on _calcMassBalance) and the ordering of a step
REG.contracts.append(_c01.c_mass.contract)
REG.contracts.append(_c01.c_order.contract)
# clause 3: grid operations after the step
REG.contracts.append(_c08.c_update.contract)
REG.contracts.append(_c08.c_change.contract)
REG.contracts.append(_c08.c_add.contract)
REG.contracts.append(_c08.c_adjust.contract)      # a populated last class always gets room above it: no particle leaves through the upper end of the grid


@REG.contract('_processX', [KE + ':PrecipitateModel._processX'], configs=[dict(name='P=%d' % P, P=P) for P in (1, 2)])
def c_processx(ctx, it, cfg):
    """classes at or below the driving-force limit and classes smaller than the minimum radius are emptied; nothing else changes"""
    P = cfg['P']
    m, pd, n = mk_kwn(ctx, it, P, 1)
    x = [array(ctx, 'x%d' % p, (m.fields['PBM'][p].bins,), fact=lambda v, i: v >= 0) for p in range(P)]
    old = [a.snap() for a in x]
    minR = m.fields['constraints'].fields['minRadius']
    for p in range(P):
        ctx.assume(lt(m.fields['RdrivingForceIndex'].get(p), m.fields['PBM'][p].bins))
    m._processX(x)
    for p in range(P):
        pbm = m.fields['PBM'][p]
        rdf = m.fields['RdrivingForceIndex'].get(p)
        forall(ctx, 'phase%d/emptied-or-kept' % p, 0, pbm.bins,
               lambda i, p=p, pbm=pbm, rdf=rdf: eq(x[p].get(i), ite(or_(le(i, rdf), lt(pbm.PSDsize.get(i), minR)), 0, old[p](i))))
        forall(ctx, 'phase%d/stays-non-negative' % p, 0, pbm.bins, lambda i, p=p: ge(x[p].get(i), 0))


@REG.contract('number-balance/one-euler-update', [PBM_MOD + ':PopulationBalanceModel.getdXdtEuler', PBM_MOD + ':PopulationBalanceModel.correctdXdtEuler'])
def c_number(ctx, it, cfg):
    """N(new) - N(old) <= J*dt for x_new = x + dt * corrected rate: number changes only by nucleation and by loss through the ends of the grid"""
    o, w = pbm_obj(ctx, it)
    bins = o.bins
    flux = array(ctx, 'growth', (bins + 1,))
    psd = array(ctx, 'x', (bins,), fact=lambda v, i: v >= 0)
    J = real(ctx, 'nucRate', lambda v: v >= 0)
    Rn = real(ctx, 'Rnuc')
    dt = real(ctx, 'dt', lambda v: v > 0)
    d1 = o.getdXdtEuler(flux, J, Rn, psd)
    d2 = o.correctdXdtEuler(dt, flux, J, Rn, psd)
    nf = o.fields['_netFlux']
    xnew = psd + d2 * dt
    Sn, So = NP.sum(xnew), NP.sum(psd)
    k, am = _c07._nuc_class(o, Rn)
    ctx.prove('nothing-enters-through-the-smallest-face', le(nf.get(0), 0), inst=[0])
    ctx.prove('nothing-enters-through-the-largest-face', ge(nf.get(bins), 0), inst=[bins, bins - 1])
    ctx.sum_lemma('number-change', [(1, Sn), (-1, So)], lambda i: -dt * nf.get(i) + ite(i > k, dt * J, 0), inst=[k])
    ctx.prove('number-change-is-nucleation-minus-loss-through-the-grid-ends', eq(Sn - So, dt * J + dt * nf.get(0) - dt * nf.get(bins)))
    ctx.prove('number-increases-at-most-by-nucleation', le(Sn - So, J * dt))
    ctx.prove('no-nucleation-no-increase', implies(eq(J, 0), le(Sn, So)))
    ctx.prove('canary/number-never-decreases', ge(Sn, So), expect='refuted')


@REG.contract('_getdXdt-_correctdXdt/per-phase-wiring', [KE + ':PrecipitateModel._getdXdt', KE + ':PrecipitateModel._correctdXdt', KE + ':PrecipitateModel.getCurrentX'],
              configs=[dict(name='P=%d' % P, P=P) for P in (1, 2)])
def c_wiring(ctx, it, cfg):
    P = cfg['P']
    m, pd, n = mk_kwn(ctx, it, P, 1)
    log = []

    class PBMStub(object):
        def __init__(self, p):
            self.p = p
            self.PSD = object()

        def getdXdtEuler(self, flux, nucRate, nucRadius, psd):
            log.append(('get', self.p, flux, nucRate, nucRadius, psd))
            return ('rate', self.p)

        def correctdXdtEuler(self, dt, flux, nucRate, nucRadius, psd):
            log.append(('correct', self.p, dt, flux, nucRate, nucRadius, psd))
            return ('corrected', self.p)
    stubs = [PBMStub(p) for p in range(P)]
    m.fields['PBM'] = stubs
    Y = mk_slice(ctx, it, P, 1)
    growth = [object() for _ in range(P)]
    x = [object() for _ in range(P)]
    r = m._getdXdt(real(ctx, 't'), x, Y, growth)
    ctx.prove('one-rate-per-phase-in-phase-order', r == [('rate', p) for p in range(P)])
    g = [e for e in log if e[0] == 'get']
    ctx.prove('each-phase-gets-its-own-growth-nucleation-and-distribution', len(g) == P and all(
        e[1] == p and e[2] is growth[p] and e[5] is x[p] for p, e in enumerate(g)) and and_(*[and_(eq(e[3], Y.fields['nucRate'].get(0, p)), eq(e[4], Y.fields['Rnuc'].get(0, p))) for p, e in enumerate(g)]))
    dX = [None] * P
    dt = real(ctx, 'dt')
    m._correctdXdt(dt, x, dX, Y, growth)
    c = [e for e in log if e[0] == 'correct']
    ctx.prove('corrected-rate-stored-per-phase', dX == [('corrected', p) for p in range(P)] and len(c) == P and all(e[1] == p and e[3] is growth[p] and e[6] is x[p] for p, e in enumerate(c))
              and and_(*[eq(e[2], dt) for e in c]))
    tc, X = m.getCurrentX()
    ctx.prove('current-state-is-the-distributions-of-all-phases-and-the-last-time', X == [s.PSD for s in stubs] and eq(tc, pd.fields['time'].get(n)))


@REG.contract('_updateParticleSizeDistribution/recorded-distribution-is-truncated-state', [KE + ':PrecipitateModel._updateParticleSizeDistribution'],
              configs=[dict(name='P=%d' % P, P=P) for P in (1, 2)])
def c_update_psd(ctx, it, cfg):
    """path without re-mesh: after the step PBM.PSD is the new state with classes holding < 1 removed (and the two documented zeroings)"""
    P = cfg['P']
    m, pd, n = mk_kwn(ctx, it, P, 1)
    x = [array(ctx, 'x%d' % p, (m.fields['PBM'][p].bins,), fact=lambda v, i: v >= 0) for p in range(P)]
    old = [a.snap() for a in x]
    m.fields['growth'] = [array(ctx, 'growth%d' % p, (m.fields['PBM'][p].bins + 1,)) for p in range(P)]
    akey = it.get(PBM_MOD, 'PopulationBalanceModel.adjustSizeClassesEuler').key
    it.summaries[akey] = lambda interp, f, args, kwargs: (False, None)            # no grid change on this step (the other outcomes: C08)
    dkey = it.get(PBM_MOD, 'PopulationBalanceModel.getDissolutionIndex').key
    it.summaries[dkey] = lambda interp, f, args, kwargs: integer(ctx, 'newDiss%d' % len(ctx.inputs), lambda v: v >= 0)
    minR = m.fields['constraints'].fields['minRadius']
    for p in range(P):
        ctx.assume(lt(m.fields['RdrivingForceIndex'].get(p), m.fields['PBM'][p].bins))
        ctx.assume(ge(pd.fields['drivingForce'].get(n, p), 0))            # the phase is not being reset (negative driving force + no equilibrium)
    t = real(ctx, 't')
    m._updateParticleSizeDistribution(t, x)
    for p in range(P):
        pbm = m.fields['PBM'][p]
        rdf = m.fields['RdrivingForceIndex'].get(p)
        forall(ctx, 'phase%d/stored-distribution-is-the-state-with-classes-below-one-removed' % p, 0, pbm.bins,
               lambda i, p=p, pbm=pbm, rdf=rdf: eq(pbm.PSD.get(i), ite(or_(le(i, rdf), lt(pbm.PSDsize.get(i), minR), lt(old[p](i), 1)), 0, old[p](i))))
        forall(ctx, 'phase%d/population-is-zero-or-at-least-one' % p, 0, pbm.bins, lambda i, pbm=pbm: or_(eq(pbm.PSD.get(i), 0), ge(pbm.PSD.get(i), 1)))


# the stored distribution and the grid it refers to stay aligned when the grid is extended during a step (bounded stand-in shared with C08)
from . import c08 as _c08
REG.contracts.append(_c08.c_add_history.contract)

# the distribution advances with the rate AFTER the model's flux-limiting correction (solver side of the same step)
from . import c06 as _c06
REG.contracts.append(_c06.c_updatex.contract)


@REG.contract('setPBMParameters/one-distribution-per-phase', [KE + ':PrecipitateModel.setPBMParameters', KE + ':PrecipitateModel.setPSDrecording'],
              configs=[dict(name='all-phases', phase=None), dict(name="'all'", phase='all'), dict(name='one-phase', phase=1)])
def c_pbm_params(ctx, it, cfg):
    """every phase owns its size distribution: configuring the size classes of all phases at once must not make two phases share one object"""
    P = 3
    m, pd, n = mk_kwn(ctx, it, P, 1)
    old = list(m.fields['PBM'])
    cMin = real(ctx, 'cMin', lambda v: v > 0)
    cMax = real(ctx, 'cMax')
    ctx.assume(cMax > cMin)
    bins = integer(ctx, 'newbins', lambda v: v >= 1)
    ph = cfg['phase'] if not isinstance(cfg['phase'], int) else PHASES[cfg['phase']]
    m.setPBMParameters(cMin, cMax, bins, 1, 1000, True, ph)
    new = m.fields['PBM']
    touched = range(P) if cfg['phase'] in (None, 'all') else [cfg['phase']]
    ctx.prove('still-one-distribution-per-phase', len(new) == P and all(new[p] is not new[q] for p in range(P) for q in range(p)))
    for p in range(P):
        if p in touched:
            ctx.prove('phase%d/new-grid-as-requested' % p, and_(new[p] is not old[p], eq(new[p].min, cMin), eq(new[p].bins, bins)))
        else:
            ctx.prove('phase%d/left-alone' % p, new[p] is old[p])
