"""C12 -- driving force, phase boundary and critical radius agree (DESIGN 6, C12; partial)."""
from kvc.dsl import *
from kvc import sym
from kvc.sym import CTX
from .common import pbm_obj
from .kwn import mk_kwn, mk_slice, Volume, PP, KE, KB, PHASES
from .thermo_stubs import *

REG = Registry('C12')
REG.assumptions += [
    'interface contract I(T) on the binary back end (pycalphad common-tangent construction with shifted precipitate energy): the interfacial matrix composition x_a(g) is below the matrix composition x exactly when g is below the chemical driving force at x, '
    'the unstable set is upward closed in g, and Vm_a x_b / Vm_b > x_a on the stable branch -- ASSUMED, this is the undecidable core of the property',
    'constant aspect ratio over the size classes (thermodynamic factor f the same for all radii and for the nucleus); f >= 1, kinetic factor > 0 (C15)',
    'multicomponent curvature factor m_c > 0, interdiffusivity > 0, effective diffusion distance factor > 0',
]
REG.undecided += [
    'that pycalphad\'s two code paths (parallel tangent driving force / common tangent with a GE axis) satisfy I(T); sign change of the driving force at the planar solvus; monotonicity in supersaturation; '
    'agreement of the four driving-force methods: numerical properties of an external solver and of database values, no contract in reach',
]
NR = 'kawin.precipitation.NucleationRate'
MT = 'kawin.thermo.MultiTherm'
TH = 'kawin.thermo.Thermodynamics'
BT = 'kawin.thermo.BinTherm'


class ShapeStub(object):
    """ShapeFactor as its callers see it (contract proved in C15): thermoFactor(R) = description.thermoFactor(aspectRatio(R)), kineticFactor > 0.
    The aspect ratio is constant (= ar0), so both factors are constants f >= 1, k > 0; evaluated at anything but a radius or ar0 they are arbitrary."""
    def __init__(self, ctx):
        self.ctx = ctx
        self.f = real(ctx, 'thermoFactor', lambda v: v >= 1)
        self.ar0 = real(ctx, 'aspectRatio', lambda v: v >= 1)
        outer = self

        class Desc(object):
            def thermoFactor(self, ar):
                if ar is outer.ar0:
                    return outer.f
                return real(ctx, 'thermoFactor_of_something_that_is_not_the_aspect_ratio', lambda v: v >= 1)

            def normalRadii(self, ar):
                return ('semi-axes-for-aspect-ratio', ar)
        self.description = Desc()

    def aspectRatio(self, R):
        return self.ar0

    def thermoFactor(self, R):
        if R is self.ar0:
            return real(self.ctx, 'thermoFactor_of_a_radius_equal_to_the_aspect_ratio', lambda v: v >= 1)
        return self.f

    def kineticFactor(self, R):
        if isinstance(R, ArrBase):
            return array(self.ctx, 'kineticFactor', R.shape, fact=lambda v, *i: v > 0)
        return real(self.ctx, 'kineticFactor_s', lambda v: v > 0)

    def normalRadii(self, R):
        return ('semi-axes-of-particle-of-radius', R)


class StrainStub(object):
    """constant elastic energy density e_s (J/m3) -- the default ConstantEnergyDescription per unit volume"""
    def __init__(self, es):
        self.es = es
        self.expect = {}

    def compute(self, radii):
        # per-particle strain energy is asked for the semi-axes of a particle of that RADIUS (the aspect ratio belongs to the radius), the nucleus one
        # for the semi-axes of the nucleus' aspect ratio; anything else gets an unrelated value
        if isinstance(radii, tuple) and radii[0] in ('semi-axes-of-particle-of-radius', 'semi-axes-for-aspect-ratio') and self.expect.get(radii[0], lambda a: True)(radii[1]):
            return self.es
        return real(CTX(), 'strain_energy_of_wrong_semi_axes')


def mk_prec(ctx, it, es):
    nuc = type('Nuc', (), {})()
    nuc.description = type('D', (), {'isGrainBoundaryNucleation': False})()
    prm = new_obj(it, PP, 'PrecipitateParameters', name=PHASES[0], phase=PHASES[0], _gamma=real(ctx, 'gamma', lambda v: v > 0),
                  volume=Volume(real(ctx, 'VmBeta', lambda v: v > 0)), shapeFactor=ShapeStub(ctx), strainEnergy=StrainStub(es), nucleation=nuc,
                  Rmin=real(ctx, 'Rmin', lambda v: v > 0), RdrivingForceLimit=0, infinitePrecipitateDiffusion=True, calculateAspectRatio=False, parentPhases=[])
    shp = prm.fields['shapeFactor']
    prm.fields['strainEnergy'].expect = {'semi-axes-for-aspect-ratio': lambda a: a is shp.ar0, 'semi-axes-of-particle-of-radius': lambda a: a is not shp.ar0}
    return prm


@REG.contract('computeGibbsThomsonContribution', [PP + ':PrecipitateParameters.computeGibbsThomsonContribution', PP + ':PrecipitateParameters.computeStrainEnergyFromR'])
def c_gibbs(ctx, it, cfg):
    es = real(ctx, 'strain', lambda v: v >= 0)
    prm = mk_prec(ctx, it, es)
    n = integer(ctx, 'n', lambda v: v >= 2)
    R = array(ctx, 'R', (n,), fact=lambda v, i: v > 0)
    g = prm.computeGibbsThomsonContribution(R)
    Vm, gam, f = prm.volume.Vm, prm.fields['_gamma'], prm.shapeFactor.f
    forall(ctx, 'g(R) = Vm*(e_s + 2 f gamma / R)', 0, n, lambda i: eq(g.get(i) * R.get(i), Vm * (es * R.get(i) + 2 * f * gam)))
    i, j = integer(ctx, 'i', lambda v: v >= 0, lambda v: v < n), integer(ctx, 'j', lambda v: v >= 0, lambda v: v < n)
    ctx.prove('smaller-particle-larger-Gibbs-Thomson-energy', implies(R.get(i) < R.get(j), g.get(i) > g.get(j)))
    dG = real(ctx, 'dGv', lambda v: v > 0)
    ctx.prove('g(R*) = Vm*(dGv + e_s) at R* = 2 f gamma / dGv', implies(eq(R.get(i) * dG, 2 * f * gam), eq(g.get(i), Vm * (dG + es))))
    ctx.prove('canary/g-independent-of-R', eq(g.get(0), g.get(1)), expect='refuted')


@REG.contract('_growthRateOutputFromCurvature', [MT + ':_growthRateOutputFromCurvature'])
def c_curv_growth(ctx, it, cfg):
    install(it)
    mod = it.load(MT)
    n = integer(ctx, 'n', lambda v: v >= 2)
    R = array(ctx, 'R', (n,), fact=lambda v, i: v > 0)
    gE = array(ctx, 'gExtra', (n,))
    dG = real(ctx, 'dG')
    x = NP.array([real(ctx, 'x%d' % e, lambda v: v >= 0, lambda v: v <= 1) for e in range(2)])
    mc = real(ctx, 'mc', lambda v: v > 0)
    dc = NP.array([real(ctx, 'dc%d' % e) for e in range(2)])
    gba = NP.array([[real(ctx, 'gba%d%d' % (a, b)) for b in range(2)] for a in range(2)])
    cea = NP.array([real(ctx, 'cea%d' % e) for e in range(2)])
    ceb = NP.array([real(ctx, 'ceb%d' % e) for e in range(2)])
    curv = mod.env['CurvatureOutput'](dc=dc, mc=mc, gba=gba, beta=real(ctx, 'beta'), c_eq_alpha=cea, c_eq_beta=ceb)
    sR, sg = snapshot(R), snapshot(gE)
    out = mod.env['_growthRateOutputFromCurvature'](x, dG, R, gE, curv)
    gr, ca = out.growth_rate, out.c_alpha
    forall(ctx, 'growth = (m_c/R)*(dG - gExtra)', 0, n, lambda i: eq(gr.get(i) * R.get(i), mc * (dG - gE.get(i))))
    forall(ctx, 'growth-positive-iff-driving-force-exceeds-Gibbs-Thomson-energy', 0, n, lambda i: and_(eq(gr.get(i) > 0, dG > gE.get(i)), eq(gr.get(i) < 0, dG < gE.get(i))))
    forall(ctx, 'interfacial-matrix-composition-equals-the-matrix-composition-where-growth-is-zero', 0, n,
           lambda i: implies(eq(dG, gE.get(i)), and_(eq(ca.get(i, 0), x.get(0)), eq(ca.get(i, 1), x.get(1)))))
    cb = out.c_beta
    clip01 = lambda q: vmax(0, vmin(1, q))
    def cbeta_ok(i):
        raw_a = [x.get(e) - (dG - gE.get(i)) * dc.get(e) for e in range(2)]
        return and_(*[eq(cb.get(i, a), clip01(ceb.get(a) + gba.get(a, 0) * (raw_a[0] - cea.get(0)) + gba.get(a, 1) * (raw_a[1] - cea.get(1)))) for a in range(2)])
    forall(ctx, 'interfacial-precipitate-composition = c_eq_beta + G_ba (c_alpha - c_eq_alpha), size by size', 0, n, cbeta_ok)
    ctx.prove('one-row-per-size', and_(eq(cb.shape[0], n), eq(ca.shape[0], n), eq(gr.shape[0], n)))
    unchanged(ctx, 'arg:R', sR, R)
    unchanged(ctx, 'arg:gExtra', sg, gE)
    ctx.prove('canary/growth-always-zero', eq(gr.get(0), 0), expect='refuted')


def mk_multi_model(ctx, it, es):
    m, pd, n = mk_kwn(ctx, it, 1, 2)
    prm = mk_prec(ctx, it, es)
    m.fields['precipitateParameters'] = [prm]
    m.fields['_precBetaTemp'] = [None]
    v = install(it)
    mc = real(ctx, 'mc', lambda v_: v_ > 0)
    log = []
    mod = it.load(MT)

    def curvatureFactor(x, T, precPhase=None, removeCache=False, searchDir=None):
        log.append(('curv', precPhase))
        return mod.env['CurvatureOutput'](dc=NP.array([real(ctx, 'dc%d' % e) for e in range(2)]), mc=mc,
                                          gba=NP.array([[real(ctx, 'gba%d%d' % (a, b)) for b in range(2)] for a in range(2)]), beta=real(ctx, 'beta'),
                                          c_eq_alpha=NP.array([real(ctx, 'cea%d' % e) for e in range(2)]), c_eq_beta=NP.array([real(ctx, 'ceb%d' % e) for e in range(2)]))
    chem = real(ctx, 'chemical_driving_force')

    def getDrivingForce(x, T, precPhase=None, removeCache=False):
        log.append(('dg', precPhase))
        return NP.array([chem]), NP.array([[real(ctx, 'betaComp%d' % e) for e in range(2)]])
    th = new_obj(it, MT, 'MulticomponentThermodynamics', phases=['FCC_A1', PHASES[0]], elements=['NI', 'AL', 'CR', 'VA'], numElements=3,
                 curvatureFactor=curvatureFactor, getDrivingForce=getDrivingForce)
    m.fields['therm'] = th
    return m, pd, n, prm, chem, mc, log


@REG.contract('multicomponent/growth-changes-sign-at-the-critical-radius',
              [KE + ':PrecipitateModel._singleGrowthMulti', KE + ':PrecipitateModel.particleGibbs', KB + ':PrecipitateBase.particleGibbs', PP + ':PrecipitateParameters.computeGibbsThomsonContribution',
               MT + ':MulticomponentThermodynamics.getGrowthAndInterfacialComposition', MT + ':_growthRateOutputFromCurvature', NR + ':volumetricDrivingForce', NR + ':nucleationBarrier'],
              configs=[dict(name='no-elastic-energy', strain=False), dict(name='with-elastic-energy', strain=True)])
def c_multi_sign(ctx, it, cfg):
    """the radius nucleationBarrier reports (from the volumetric driving force volumetricDrivingForce reports) is the radius at which the growth rate of _singleGrowthMulti changes sign"""
    es = real(ctx, 'strain', lambda v: v >= 0) if cfg['strain'] else 0
    m, pd, n, prm, chem, mc, log = mk_multi_model(ctx, it, es)
    Y = mk_slice(ctx, it, 1, 2)
    T = Y.fields['temperature'].get(0)
    ctx.assume(m.fields['PBM'][0].fields['min'] > 0)
    nr = it.load(NR).env
    ar = prm.shapeFactor.aspectRatio(pd.fields['Rcrit'].get(n, 0))
    chemDG, volDG, _ = nr['volumetricDrivingForce'](m.fields['therm'], NP.array([Y.fields['composition'].get(0, e) for e in range(2)]), T, prm, ar, False)
    ctx.prove('volumetric-driving-force = chemical/Vm - elastic energy density', eq(volDG, chem / prm.volume.Vm - es))
    Y.fields['drivingForce'] = NP.array([[volDG]])
    Rc, Gc = nr['nucleationBarrier'](volDG, prm, ar)
    growth, xa, xb = m._singleGrowthMulti(0, Y)
    pbm = m.fields['PBM'][0]
    Rb = pbm.fields['PSDbounds']
    unclamped = and_(volDG > 0, Rc > prm.fields['Rmin'])
    ctx.prove('critical-radius = 2 f gamma / dGv when not clamped', implies(unclamped, eq(Rc * volDG, 2 * prm.shapeFactor.f * prm.fields['_gamma'])))
    forall(ctx, 'classes-above-the-critical-radius-grow', 0, pbm.bins + 1, lambda i: implies(and_(unclamped, Rb.get(i) > Rc), growth.get(i) > 0))
    forall(ctx, 'classes-below-the-critical-radius-shrink', 0, pbm.bins + 1, lambda i: implies(and_(unclamped, Rb.get(i) < Rc), growth.get(i) < 0))
    forall(ctx, 'no-growth-at-the-critical-radius', 0, pbm.bins + 1, lambda i: implies(and_(unclamped, eq(Rb.get(i), Rc)), eq(growth.get(i), 0)))
    forall(ctx, 'everything-shrinks-without-driving-force', 0, pbm.bins + 1, lambda i: implies(and_(volDG <= 0, Y.fields['precipitateDensity'].get(0, 0) > 0), growth.get(i) < 0))
    ctx.prove('back-end-asked-for-this-precipitate-phase', all(e[1] == PHASES[0] for e in log) and len(log) >= 1)
    ctx.prove('canary/never-unclamped', not_(unclamped), expect='refuted')


@REG.contract('ExtraGibbsModel/extra-energy-shifts-the-molar-Gibbs-energy', [TH + ':ExtraGibbsModel'])
def c_extra_gibbs(ctx, it, cfg):
    """the extra (Gibbs-Thomson) energy GE is an energy PER MOLE OF ATOMS: the molar energy is G_m + GE, and the energy per formula unit is that sum times the site-ratio
    normalisation -- for every phase, also one whose site ratios do not sum to one (otherwise the interface composition answers a different energy than the one asked for)"""
    from .thermo_stubs import Variables, FakePycalphad
    GE = real(ctx, 'GE')

    class V2(Variables):
        pass
    V2.GE = GE

    class P2(FakePycalphad):
        variables = V2
    install(it)
    it.host_modules['pycalphad'] = P2
    it.host_modules['pycalphad.variables'] = V2
    it.load(TH)
    V2.GE = GE          # the module registers its own GE variable object at import; the model reads it lazily -- here it is an arbitrary real
    ast_ = real(ctx, 'molar_gibbs_energy')
    norm = real(ctx, 'site_ratio_normalization', lambda q: q > 0)
    m = new_obj(it, TH, 'ExtraGibbsModel', ast=ast_, _site_ratio_normalization=norm, models={'ord': real(ctx, 'ordering')})
    ctx.prove('molar-energy = G_m + GE', and_(eq(m.energy, ast_ + GE), eq(m.GM, ast_ + GE)))
    ctx.prove('formula-energy = (G_m + GE) * site-ratio normalisation', and_(eq(m.formulaenergy, (ast_ + GE) * norm), eq(m.G, (ast_ + GE) * norm)))
    ctx.prove('canary/extra-energy-per-formula-unit', eq(m.formulaenergy, ast_ * norm + GE), expect='refuted')


@REG.contract('binary/lookup-table-and-growth-sign',
              [KE + ':PrecipitateModel._createLookupBinary', KE + ':PrecipitateModel._singleGrowthBinary', KE + ':PrecipitateModel.particleGibbs', KB + ':PrecipitateBase.particleGibbs',
               PP + ':PrecipitateParameters.computeGibbsThomsonContribution', NR + ':volumetricDrivingForce', NR + ':nucleationBarrier'],
              configs=[dict(name='no-elastic-energy', strain=False), dict(name='with-elastic-energy', strain=True)])
def c_binary_sign(ctx, it, cfg):
    """under the assumed interface contract I(T) the lookup table built by the real _createLookupBinary and the growth rate of the real _singleGrowthBinary change sign at the
    critical radius reported by the real nucleationBarrier; unstable classes form a prefix which receives the composition of the first stable class"""
    es = real(ctx, 'strain', lambda v: v >= 0) if cfg['strain'] else 0
    m, pd, n = mk_kwn(ctx, it, 1, 1)
    prm = mk_prec(ctx, it, es)
    m.fields['precipitateParameters'] = [prm]
    pbm = m.fields['PBM'][0]
    Rb = pbm.fields['PSDbounds']
    ctx.assume(pbm.fields['min'] > 0)
    x = real(ctx, 'x_matrix', lambda v: v > 0, lambda v: v < 1)
    chem = real(ctx, 'chemical_driving_force')          # of the matrix at composition x
    gmax = real(ctx, 'g_unstable_above')
    VmA, VmB = m.fields['matrixParameters'].volume.Vm, prm.volume.Vm
    seen = []

    def getInterfacialComposition(T, g, precPhase=None):
        seen.append((T, g, precPhase))
        k = len(seen)
        if not isinstance(g, ArrBase):
            return real(ctx, 'xa_planar'), real(ctx, 'xb_planar')
        stable = lambda i: g.get(i) <= gmax
        xa = array(ctx, 'xa%d' % k, g.shape, fact=lambda v, i: and_(eq(eq(v, -1), not_(stable(i))), implies(stable(i), and_(v >= 0, v <= 1, eq(v < x, g.get(i) < chem), eq(v > x, g.get(i) > chem)))))
        xb = array(ctx, 'xb%d' % k, g.shape, fact=lambda v, i: implies(stable(i), VmA * v > VmB * xa.get(i)))
        return xa, xb

    def getDrivingForce(xx, T, precPhase=None, removeCache=False):
        return NP.array([chem]), NP.array([[real(ctx, 'betaComp')]])

    class Therm(object):
        numElements = 2
    th = Therm()
    th.getInterfacialComposition = getInterfacialComposition
    th.getDrivingForce = getDrivingForce
    th.getInterdiffusivity = lambda xx, T, removeCache=True: real(ctx, 'D', lambda v: v > 0)
    m.fields['therm'] = th

    class EffDiff(object):
        def __call__(self, s):
            return array(ctx, 'effDiff', s.shape, fact=lambda v, *i: v > 0)
    m.fields['matrixParameters'].effectiveDiffusion = EffDiff()
    T = real(ctx, 'T', lambda v: v > 0)
    nr = it.load(NR).env
    ar = prm.shapeFactor.aspectRatio(pd.fields['Rcrit'].get(n, 0))
    chemDG, volDG, _ = nr['volumetricDrivingForce'](th, x, T, prm, ar, False)
    Rc, Gc = nr['nucleationBarrier'](volDG, prm, ar)
    ctx.prove('canary/never-unclamped', not_(and_(volDG > 0, Rc > prm.fields['Rmin'])), expect='refuted')
    m._createLookupBinary(T)
    idx = m.fields['RdrivingForceIndex'].get(0)
    g = seen[1][1]
    ctx.prove('Gibbs-Thomson-energies-of-the-class-boundaries-passed-to-the-back-end', len(seen) == 2 and seen[1][2] == PHASES[0] and eq(seen[1][0], T) and eq(seen[0][1], 0))
    forall(ctx, 'back-end-sees-g(R_i)', 0, pbm.bins + 1, lambda i: eq(g.get(i) * Rb.get(i), VmB * (es * Rb.get(i) + 2 * prm.shapeFactor.f * prm.fields['_gamma'])))
    tab = m.fields['PSDXalpha'][0]
    tabb = m.fields['PSDXbeta'][0]
    nb = pbm.bins + 1
    some_stable = idx + 1 < nb
    forall(ctx, 'classes-above-the-limit-index-are-stable', 0, nb, lambda i: implies(and_(some_stable, i > idx), g.get(i) <= gmax))
    forall(ctx, 'classes-up-to-the-limit-index-are-unstable (class 0 excepted)', 0, nb, lambda i: implies(and_(some_stable, i >= 1, i <= idx), g.get(i) > gmax))
    forall(ctx, 'no-sentinel-left-in-the-table', 0, nb, lambda i: implies(some_stable, not_(eq(tab.get(i, 0), -1))))
    forall(ctx, 'unstable-prefix-gets-the-composition-of-the-first-stable-class', 0, nb, lambda i: implies(and_(some_stable, i <= idx), and_(eq(tab.get(i, 0), tab.get(idx + 1, 0)), eq(tabb.get(i, 0), tabb.get(idx + 1, 0)))))
    ctx.prove('limit-radius-is-the-boundary-at-the-limit-index', eq(prm.fields['RdrivingForceLimit'], Rb.get(idx)))
    # growth sign against the critical radius
    Y = mk_slice(ctx, it, 1, 1)
    Y.fields['composition'] = NP.array([[x]])
    growth = m._singleGrowthBinary(0, Y)
    unclamped = and_(volDG > 0, Rc > prm.fields['Rmin'], some_stable)
    xa_raw, fg = seen[1][1], prm.shapeFactor.f * prm.fields['_gamma']

    def chain(above):
        def body(i):
            R, gi, ti = Rb.get(i), g.get(i), tab.get(i, 0)
            hyp = and_(unclamped, i > idx, (R > Rc) if above else (R < Rc))
            return (hyp,
                    eq(Rc * volDG, 2 * fg),                                                   # critical radius (unclamped)
                    eq(gi * R, VmB * (es * R + 2 * fg)),                                      # Gibbs-Thomson energy of this class
                    (gi < VmB * (volDG + es)) if above else (gi > VmB * (volDG + es)),        # ... compared with g(R*) = chemical driving force
                    (ti < x) if above else (ti > x),                                          # interface contract: interfacial composition vs matrix composition
                    (growth.get(i) > 0) if above else (growth.get(i) < 0))
        return body
    steps(ctx, 'stable-classes-above-the-critical-radius-grow', 0, nb, chain(True))
    steps(ctx, 'stable-classes-below-the-critical-radius-shrink', 0, nb, chain(False))
    ctx.prove('canary/index-always-zero', eq(idx, 0), expect='refuted')


# the sampling driving force of a temperature is computed from free-energy samples of THAT temperature (cache contract shared with C09):
# without it the driving force does not change sign at the solvus of the queried temperature
from . import c09 as _c09
REG.contracts.append(_c09.c_sampling_cache.contract)
REG.contracts.append(_c09.c_bin_batch.contract)
