"""C01 -- precipitation conserves solute between matrix and precipitates;  also carries C02 clause 1 (statistics are
moments of the distribution passed in) and the range clauses of C03 (DESIGN 6, C01-C03)."""
import itertools
from kvc.dsl import *
from kvc import sym
from .kwn import *

REG = Registry('C01')
REG.assumptions += [
    'P <= 2 precipitate phases, E <= 2 solutes (configuration sizes; loops over phases/elements unrolled); size-class counts and history length symbolic',
    'regime: total precipitate fraction < 1 at the step (if it is not, the code keeps the previous matrix composition: uncovered disjunct, see C03)',
    'molar volumes and the nucleus volume factor are positive (symbolic); interfacial precipitate compositions in [0, 1]',
    'PBM_INV for every phase (C08); the distribution passed in is non-negative (C07/C08: populations are 0 or >= 1)',
    'history lift: the balance is a postcondition of _calcMassBalance for the distribution of the step, _calculateDependentTerms is proved to apply it to the NEW state and '
    'postProcess to append exactly that row (ordering contract); induction over steps / solve calls as in DESIGN 5 (trusted principle)',
]
CFG = [dict(name='P=%d,E=%d,%s' % (P, E, 'infinite' if inf else 'finite'), P=P, E=E, inf=inf) for P, E in ((1, 1), (1, 2), (2, 1), (2, 2)) for inf in (True, False)]


@REG.contract('_calcMassBalance', [KE + ':PrecipitateModel._calcMassBalance', PBM_MOD + ':PopulationBalanceModel.ZeroMomentFromN',
              PBM_MOD + ':PopulationBalanceModel.MomentFromN', PBM_MOD + ':PopulationBalanceModel.ThirdMomentFromN',
              PBM_MOD + ':PopulationBalanceModel.WeightedMomentFromN'], configs=CFG, max_paths=400)
def c_mass(ctx, it, cfg):
    P, E = cfg['P'], cfg['E']
    m, pd, n = mk_kwn(ctx, it, P, E, infinite=cfg['inf'])
    Y = mk_slice(ctx, it, P, E)
    x = [array(ctx, 'x%d' % p, (m.fields['PBM'][p].bins,), fact=lambda v, i: v >= 0) for p in range(P)]
    sx = [snapshot(a) for a in x]
    pre_pd = snapshot(pd)
    pre_pbm = [snapshot(o) for o in m.fields['PBM']]
    prevfc = pd.fields['fconc'].snap()
    Yold = {k: Y.fields[k].snap() for k in ('composition',)}
    t = real(ctx, 't')
    R = m._calcMassBalance(t, x, Y)
    ctx.prove('returns-the-slice-it-was-given', R is Y)
    minN = m.fields['constraints'].fields['minNucleateDensity']
    minC = m.fields['constraints'].fields['minComposition']
    VmA = m.fields['matrixParameters'].volume.Vm
    fv, fc = [], [[None] * E for _ in range(P)]
    for p in range(P):
        pbm = m.fields['PBM'][p]
        prm = m.fields['precipitateParameters'][p]
        size, bins = pbm.PSDsize, pbm.bins
        r, c = VmA / prm.volume.Vm, prm.nucleation.volumeFactor
        M0 = NP.sum(x[p])
        M1 = NP.sum(Arr((bins,), lambda i, p=p, size=size: x[p].get(i) * size.get(i)))
        M3 = NP.sum(Arr((bins,), lambda i, p=p, size=size: x[p].get(i) * power(size.get(i), 3)))
        dens, Ravg, vf = Y.fields['precipitateDensity'].get(0, p), Y.fields['Ravg'].get(0, p), Y.fields['volFrac'].get(0, p)
        some = ge(M0, minN)
        ctx.prove('phase%d/number-density-is-zeroth-moment' % p, eq(dens, M0))
        ctx.prove('phase%d/mean-radius-is-first-over-zeroth-moment' % p, implies(some, eq(Ravg * M0, M1)))
        was1 = eq(pd.fields['volFrac'].get(n, p), 1)
        ctx.prove('phase%d/volume-fraction-is-scaled-third-moment-capped-at-1' % p, implies(and_(some, not_(was1)), eq(vf, vmin(r * c * M3, 1))))
        ctx.prove('phase%d/no-precipitates-reports-zero' % p, implies(not_(some), and_(eq(Ravg, 0), eq(vf, 0), eq(Y.fields['ARavg'].get(0, p), 0))))
        ctx.prove('phase%d/ranges: 0<=volFrac<=1, Ravg>=0, density>=0' % p, and_(between(0, vf, 1), ge(Ravg, 0), ge(dens, 0)))
        fv.append(vf)
        xb = m.fields['PSDXbeta'][p]
        for e in range(E):
            f = Y.fields['fconc'].get(0, p, e)
            fc[p][e] = f
            if cfg['inf']:
                spec = NP.sum(Arr((bins,), lambda i, p=p, e=e, size=size, xb=xb: x[p].get(i) * power(size.get(i), 3) * ((xb.get(i, e) + xb.get(i + 1, e)) / 2)))
                ctx.prove('phase%d/solute-in-precipitates[%s]-is-volume-times-interfacial-composition-summed-over-the-distribution' % (p, ELEMS[e]),
                          implies(some, eq(f, r * c * spec)))
            else:
                PSD = pbm.PSD
                inc = NP.sum(Arr((bins,), lambda i, p=p, e=e, size=size, xb=xb, PSD=PSD: (power(size.get(i), 3) * (x[p].get(i) - PSD.get(i))) * ((xb.get(i + 1, e) + xb.get(i, e)) / 2)))
                ctx.prove('phase%d/solute-in-precipitates[%s]-accumulates-the-change-of-the-distribution' % (p, ELEMS[e]),
                          implies(some, eq(f, prevfc(n, p, e) + r * c * inc)))
            ctx.prove('phase%d/no-precipitates-hold-no-solute[%s]' % (p, ELEMS[e]), implies(not_(some), eq(f, 0)))
    tot = sum(fv, 0)
    for e in range(E):
        comp = Y.fields['composition'].get(0, e)
        x0 = pd.fields['composition'].get(0, e)
        held = sum((fc[p][e] for p in range(P)), 0)
        balanced = eq(x0, comp * (1 - tot) + held)
        clamped = and_(lt(x0 - held, 0), eq(comp, minC))
        ctx.prove('solute-balance[%s]: x0 = x_matrix*(1 - sum f_v) + solute in precipitates, or the documented clamp' % ELEMS[e],
                  implies(lt(tot, 1), or_(balanced, clamped)))
        ctx.prove('matrix-composition-not-negative[%s]' % ELEMS[e], implies(lt(tot, 1), ge(comp, 0)))
        ctx.prove('matrix-composition-kept-when-fraction-reaches-1[%s]' % ELEMS[e], implies(ge(tot, 1), eq(comp, Yold['composition'](0, e))))
    for p in range(P):
        unchanged(ctx, 'arg:x[%d]' % p, sx[p], x[p])
        frame(ctx, 'PBM[%d]' % p, m.fields['PBM'][p], pre_pbm[p], modifies=[])
    frame(ctx, 'recorded-history', pd, pre_pd, modifies=[])
    ctx.prove('canary/balance-ignores-precipitates', implies(lt(tot, 1), eq(pd.fields['composition'].get(0, 0), Y.fields['composition'].get(0, 0) * (1 - tot))), expect='refuted')


@REG.contract('step-ordering', [KB + ':PrecipitateBase._calculateDependentTerms', KB + ':PrecipitateBase.postProcess', KB + ':PrecipitateBase.getdXdt',
              KB + ':PrecipitateBase.preProcess'], configs=[dict(name='stages=%d' % s, stages=s) for s in (1, 4)])
def c_order(ctx, it, cfg):
    """the row recorded for a step is the one computed by the mass balance from the NEW distribution of that step"""
    from .c13 import mk_precip
    m, pd, n, Tf, log = mk_precip(ctx, it, 1, 1, cls=(KB, 'PrecipitateBase'))
    calls = []
    m.fields['_processX'] = lambda x: calls.append(('processX', x))
    m.fields['_calcMassBalance'] = lambda t, x, Y: (calls.append(('mass', t, x, Y)), Y)[1]
    m.fields['_calcNucleationRate'] = lambda t, x, Y: (calls.append(('nuc', t, x, Y)), Y)[1]
    m.fields['_growthRate'] = lambda Y: (calls.append(('growth', Y)), ('G', Y))[1]
    m.fields['_getdXdt'] = lambda t, x, Y, g: 'dxdt'
    m.fields['_appendArrays'] = lambda Y: calls.append(('append', Y))
    m.fields['_updateParticleSizeDistribution'] = lambda t, x: calls.append(('psd', t, x))
    m.fields['updateCoupledModels'] = lambda: calls.append(('coupled',))
    m.fields['getCurrentX'] = lambda: (0, 'X')
    m.preProcess()
    xs = [object() for _ in range(cfg['stages'])]
    for x in xs:
        m.getdXdt(real(ctx, 'ts%d' % xs.index(x)), x)
    del calls[:]
    xnew, tnew = object(), real(ctx, 't_new')
    m.postProcess(tnew, xnew)
    kinds = [c[0] for c in calls]
    ctx.prove('order: clean state, mass balance, nucleation, growth, record, update distribution', kinds == ['processX', 'mass', 'nuc', 'growth', 'append', 'psd', 'coupled'])
    if kinds[:6] == ['processX', 'mass', 'nuc', 'growth', 'append', 'psd']:
        ctx.prove('mass-balance-sees-the-new-distribution-and-time', calls[1][2] is xnew and calls[0][1] is xnew and eq(calls[1][1], tnew))
        ctx.prove('the-recorded-row-is-the-one-the-balance-produced', calls[4][1] is calls[1][3] and calls[4][1] is m.fields['_currY'])
        ctx.prove('distribution-updated-with-the-same-state', calls[5][2] is xnew)


BALANCE_FIELDS = ['time', 'temperature', 'composition', 'precipitateDensity', 'Ravg', 'ARavg', 'volFrac', 'fconc']


@REG.contract('rest-of-the-step-leaves-the-balance-untouched', [KB + ':PrecipitateBase._calcNucleationRate', KE + ':PrecipitateModel._growthRateMulti',
              KE + ':PrecipitateModel._growthRateBinary'], configs=[dict(name='P=%d,E=%d' % (P, E), P=P, E=E) for P, E in ((1, 1), (2, 2))], max_paths=400)
def c_rest(ctx, it, cfg):
    """between the mass balance and the recording of the step the real nucleation and growth routines run on the same one-row record: they must not
    modify what the balance computed (matrix composition, volume fraction, solute in precipitates, density, mean radius), nor the history"""
    P, E = cfg['P'], cfg['E']
    m, pd, n = mk_kwn(ctx, it, P, E)
    Y = mk_slice(ctx, it, P, E)
    seen = []

    class Nuc(object):
        """kawin.precipitation.NucleationRate as its caller sees it: arbitrary values (C14 proves what they are)"""
        def volumetricDrivingForce(self, therm, x, T, prm, ar, removeCache=False):
            seen.append(('dg', x))
            return real(ctx, 'chem%d' % len(seen)), real(ctx, 'volDG%d' % len(seen)), NP.array([real(ctx, 'beta_c%d_%d' % (len(seen), e)) for e in range(E)])

        def nucleationBarrier(self, dG, prm, ar):
            return real(ctx, 'Rcrit%d' % len(seen), lambda v: v >= 0), real(ctx, 'Gcrit%d' % len(seen), lambda v: v >= 0)

        def _beta(self, *a, **k):
            return real(ctx, 'beta%d' % len(seen), lambda v: v >= 0)
        betaBinary1 = betaBinary2 = betaMulti = _beta

        def zeldovich(self, T, R, prm):
            return real(ctx, 'Z%d' % len(seen), lambda v: v >= 0)

        def incubationTime(self, *a):
            return real(ctx, 'tau%d' % len(seen), lambda v: v >= 0)
        incubationTimeNonIsothermal = incubationTime

        def nucleationRate(self, *a, **k):
            return real(ctx, 'rate%d' % len(seen), lambda v: v >= 0)

        def nucleationRadius(self, T, R, prm):
            return real(ctx, 'Rnuc%d' % len(seen), lambda v: v >= 0)
    it.load(KB).env['nucfuncs'] = Nuc()

    class Therm(object):
        numElements = E + 1

        def getGrowthAndInterfacialComposition(self, x, T, dG, R, gExtra, precPhase=None, removeCache=False, searchDir=None):
            nb = R.shape[0]
            return (array(ctx, 'g_%s' % precPhase, (nb,)), array(ctx, 'xa_%s' % precPhase, (nb, E)), array(ctx, 'xb_%s' % precPhase, (nb, E)),
                    array(ctx, 'xea_%s' % precPhase, (E,)), array(ctx, 'xeb_%s' % precPhase, (E,)))
    m.fields['therm'] = Therm()
    m.fields['betaFuncType'] = 2
    m.fields['_precBetaTemp'] = [None] * P
    m.fields['temperatureParameters'] = type('TP', (), {'_isIsothermal': boolean(ctx, 'isothermal')})()
    m.fields['_calcNucleationSites'] = lambda t, x, p: real(ctx, 'sites%d' % p, lambda v: v >= 0)
    for p, prm in enumerate(m.fields['precipitateParameters']):
        prm.shapeFactor.kineticFactor = (lambda R, p=p: array(ctx, 'kin%d' % p, R.shape, fact=lambda v, *i: v > 0))
    m.fields['particleGibbs'] = lambda radius=None, phase=None: 'gibbs'
    m.fields['growth'] = [array(ctx, 'prev_growth%d' % p, (m.fields['PBM'][p].bins + 1,)) for p in range(P)]
    m.fields['_singleGrowthBinary'] = lambda p, Yb: array(ctx, 'gb%d' % p, (m.fields['PBM'][p].bins + 1,))
    m.fields['_createLookupBinary'] = lambda T: (array(ctx, 'lxa', (1, P, E)), array(ctx, 'lxb', (1, P, E)))
    comp0 = [Y.fields['composition'].get(0, e) for e in range(E)]
    preY = snapshot(Y)
    prePD = snapshot(pd)
    x = [object() for _ in range(P)]
    t = real(ctx, 't')
    Y1 = m._calcNucleationRate(t, x, Y)
    ctx.prove('nucleation/returns-the-same-record', Y1 is Y)
    for k in BALANCE_FIELDS + ['xEqAlpha', 'xEqBeta']:
        unchanged(ctx, 'nucleation/%s' % k, preY[k], Y.fields[k])
    ctx.prove('nucleation/thermodynamics-queried-once-per-phase', len(seen) == P)
    for k_, c in enumerate(seen):
        ctx.prove('nucleation/thermodynamics-queried-at-the-balance-composition[query%d]' % k_, and_(*[eq(c[1].get(e) if isinstance(c[1], ArrBase) and c[1].ndim else c[1], comp0[e]) for e in range(E)]))
    # every phase gets its own driving force recorded, whatever the sign of the driving force of the phases listed before it
    if len(seen) == P:
        for p in range(P):
            ctx.prove('nucleation/phase%d-records-the-driving-force-of-its-own-query' % p, eq(Y.fields['drivingForce'].get(0, p), real(ctx, 'volDG%d' % (p + 1))))
    frame(ctx, 'nucleation/history', pd, prePD, modifies=[])
    ctx.prove('canary/nucleation-writes-nothing', eq(Y.fields['drivingForce'].get(0, 0), preY['drivingForce'].fn(0, 0)), expect='refuted')
    if E >= 2:
        growth, Y2 = m._growthRateMulti(Y)
    else:
        growth, Y2 = m._growthRateBinary(Y)
    ctx.prove('growth/returns-the-same-record', Y2 is Y)
    for k in BALANCE_FIELDS:
        unchanged(ctx, 'growth/%s' % k, preY[k], Y.fields[k])
    frame(ctx, 'growth/history', pd, prePD, modifies=[])


# the balance holds at every RECORDED step only if the grid operations applied after the step's balance keep the particle
# volume: re-mesh preserves the third moment, extension keeps the populated classes (contracts shared with C08)
from . import c08 as _c08
REG.contracts.append(_c08.c_change.contract)
REG.contracts.append(_c08.c_add.contract)

# grid extension after a re-mesh: shared bounded stand-in (objects reached from the real constructor)
REG.contracts.append(_c08.c_add_history.contract)

# the balance of the NEXT step reads the interfacial-composition tables: they must follow every grid change of every phase (contract shared with C13)
from . import c13 as _c13
REG.contracts.append(_c13.c_update_psd.contract)


# the mass balance turns R^3 into particle volume with the nucleus geometry factors: they are those of the CURRENT interfacial / grain-boundary energies
# (cached factors follow every change -- C14 contract on the real parameter class)
from . import c14 as _c14
REG.contracts.append(_c14.c_cache.contract)
