"""shared schemas: class invariants written once and used by several properties"""
from kvc.dsl import *

PBM_MOD = 'kawin.precipitation.PopulationBalance'
PBM_FIELDS = ['originalMin', 'originalMax', 'min', 'max', 'originalBins', 'minBins', 'maxBins', 'bins', 'PSDbounds',
              'PSDsize', 'PSD', '_prevPSD', '_prevPSDbounds', '_netFlux', '_adaptiveBinSize', '_record', '_recordedBins',
              '_recordedPSD', '_recordedTime']


def pbm_obj(ctx, it, tag='', psd_nonneg=True, record=False, extra=None):
    """a PopulationBalanceModel in an arbitrary state satisfying the representation invariant PBM_INV
    (DESIGN 2.4 / C08 clause 1): bins>=1, min<max, bounds = linspace(min,max,bins+1), centres = midpoints,
    PSD >= 0, lengths match.  The grid step is named w (w*bins = max-min)."""
    bins = integer(ctx, tag + 'bins', lambda v: v >= 1)
    mn = real(ctx, tag + 'min', lambda v: v >= 0)
    mx = real(ctx, tag + 'max')
    w = real(ctx, tag + 'w', lambda v: v > 0)
    ctx.assume(eq(w * bins, mx - mn))
    bounds = Arr((bins + 1,), lambda i: mn + to_real(i) * w, 'real', name='PSDbounds')
    bf = bounds.snap()
    size = Arr((bins,), lambda i: (bf(i) + bf(i + 1)) / 2, 'real', name='PSDsize')
    PSD = array(ctx, tag + 'PSD', (bins,), fact=(lambda v, i: v >= 0) if psd_nonneg else None)
    omin = real(ctx, tag + 'originalMin', lambda v: v >= 0)
    omax = real(ctx, tag + 'originalMax')
    ctx.assume(omax >= 10 * omin, omax > omin)
    obins = integer(ctx, tag + 'originalBins', lambda v: v >= 1)
    minBins = integer(ctx, tag + 'minBins', lambda v: v >= 1)
    maxBins = integer(ctx, tag + 'maxBins')
    ctx.assume(maxBins >= minBins)
    fields = dict(originalMin=omin, originalMax=omax, min=mn, max=mx, originalBins=obins, minBins=minBins, maxBins=maxBins,
                  bins=bins, PSDbounds=bounds, PSDsize=size, PSD=PSD,
                  _prevPSD=array(ctx, tag + '_prevPSD', (bins,)), _prevPSDbounds=array(ctx, tag + '_prevPSDbounds', (bins + 1,)),
                  _netFlux=None, _adaptiveBinSize=True, _record=False, _recordedBins=None, _recordedPSD=None, _recordedTime=None)
    if extra:
        fields.update(extra)
    o = new_obj(it, PBM_MOD, 'PopulationBalanceModel', **fields)
    o_w = w
    return o, o_w


def pbm_inv(ctx, prefix, o, nonneg=True, strict_order=True):
    """obligations: representation invariant of a PopulationBalanceModel object state"""
    ok = True
    f = o.fields
    bins, mn, mx = f['bins'], f['min'], f['max']
    ok &= ctx.prove(prefix + '/inv/bins>=1', ge(bins, 1), kind='invariant')
    ok &= ctx.prove(prefix + '/inv/min<max', lt(mn, mx), kind='invariant')
    for nm, ln in (('PSD', bins), ('PSDsize', bins), ('PSDbounds', bins + 1)):
        a = f[nm]
        good = isinstance(a, ArrBase) and a.ndim == 1
        ok &= ctx.prove('%s/inv/len(%s)' % (prefix, nm), eq(a.shape[0], ln) if good else False, kind='invariant')
    b, s, p = f['PSDbounds'], f['PSDsize'], f['PSD']
    ok &= forall(ctx, prefix + '/inv/bounds=linspace', 0, bins + 1, lambda i: eq(b.get(i) * bins, mn * bins + to_real(i) * (mx - mn)), kind='invariant')
    ok &= forall(ctx, prefix + '/inv/bounds-increasing', 0, bins, lambda i: lt(b.get(i), b.get(i + 1)), kind='invariant')
    ok &= ctx.prove(prefix + '/inv/bounds-ends', and_(eq(b.get(0), mn), eq(b.get(bins), mx)), kind='invariant')
    ok &= forall(ctx, prefix + '/inv/centres=midpoints', 0, bins, lambda i: eq(2 * s.get(i), b.get(i) + b.get(i + 1)), kind='invariant')
    if nonneg:
        ok &= forall(ctx, prefix + '/inv/PSD>=0', 0, bins, lambda i: ge(p.get(i), 0), kind='invariant')
    return ok


# ---------------------------------------------------------------------------------------------------
# BOUNDED stand-in: objects reached from the REAL constructor by a bounded sequence of public operations
# ---------------------------------------------------------------------------------------------------
HISTORY = [None]          # when set to a tuple of operation names, pbm_obj builds the object through the real code instead of from the schema
PBM_OPS = ('createBackup', 'revert', 'changeSizeClasses', 'addSizeClasses', 'reset')


def pbm_history(ctx, it, ops, tag=''):
    """PopulationBalanceModel(cMin, cMax, bins, minBins, maxBins) followed by `ops` (every argument symbolic) and one UpdatePBMEuler with an
    arbitrary non-negative distribution.  No class-invariant schema is involved: every field -- also one the schema does not know, e.g. a cached value
    introduced by a later change of kawin -- has the value the real code gave it."""
    cMin = real(ctx, tag + 'h_cMin', lambda v: v > 0)
    cMax = real(ctx, tag + 'h_cMax')
    ctx.assume(cMax > cMin)
    bins = integer(ctx, tag + 'h_bins', lambda v: v >= 2)
    minBins = integer(ctx, tag + 'h_minBins', lambda v: v >= 1)
    maxBins = integer(ctx, tag + 'h_maxBins')
    ctx.assume(maxBins >= minBins)
    o = it.get(PBM_MOD, 'PopulationBalanceModel')(cMin, cMax, bins, minBins, maxBins)
    for k, op in enumerate(ops):
        if op == 'createBackup':
            o.createBackup()
        elif op == 'revert':
            o.revert()
        elif op == 'reset':
            o.reset()
        elif op == 'addSizeClasses':
            o.addSizeClasses(integer(ctx, '%sh%d_add' % (tag, k), lambda v: v >= 1))
        elif op == 'changeSizeClasses':
            a = real(ctx, '%sh%d_cMin' % (tag, k), lambda v: v > 0)
            b = real(ctx, '%sh%d_cMax' % (tag, k))
            ctx.assume(b > a)
            o.changeSizeClasses(a, b, integer(ctx, '%sh%d_bins' % (tag, k), lambda v: v >= 2), False)
        else:
            raise ValueError(op)
    ctx.prove('history/class-count-positive', ge(o.bins, 1))
    o.UpdatePBMEuler(real(ctx, tag + 'h_time'), array(ctx, tag + 'h_PSD', (o.bins,), fact=lambda v, i: v >= 0))
    w = real(ctx, tag + 'h_w')
    ctx.assume(eq(w * o.bins, o.max - o.min))           # a NAME for the class width of the current grid (bins >= 1 was just proved)
    return o, w


_schema_pbm_obj = pbm_obj


def pbm_obj(ctx, it, tag='', **kw):      # noqa: F811
    if HISTORY[0] is not None:
        return pbm_history(ctx, it, HISTORY[0], tag)
    return _schema_pbm_obj(ctx, it, tag=tag, **kw)


def with_history(fn):
    """the same contract function, run on objects built by pbm_history(cfg['ops'])"""
    def g(ctx, it, cfg):
        HISTORY[0] = tuple(cfg['ops'])
        try:
            return fn(ctx, it, cfg)
        finally:
            HISTORY[0] = None
    g.__doc__ = fn.__doc__
    return g


def history_configs(max_len_quick, max_len_thorough, ops=PBM_OPS):
    import itertools
    out = []
    for n in range(0, max_len_thorough + 1):
        for seq in itertools.product(ops, repeat=n):
            if any(seq[i] == 'revert' and 'createBackup' not in seq[:i] for i in range(n)) and n > 1 and False:
                continue
            d = dict(name='new' + ''.join('.' + s for s in seq), ops=seq, weight=1 + n)
            if n > max_len_quick:
                d['tier'] = 'thorough'
            out.append(d)
    return out
