"""shared schemas: class invariants written once and used by several properties"""
from kvc.dsl import *

PBM_MOD = 'kawin.precipitation.PopulationBalance'
PBM_FIELDS = ['originalMin', 'originalMax', 'min', 'max', 'originalBins', 'minBins', 'maxBins', 'bins', 'PSDbounds',
              'PSDsize', 'PSD', '_prevPSD', '_prevPSDbounds', '_netFlux', '_adaptiveBinSize', '_record', '_recordedBins',
              '_recordedPSD', '_recordedTime']


def pbm_obj(ctx, it, tag='', psd_nonneg=True, record=False, extra=None):
    """a PopulationBalanceModel in an arbitrary state satisfying the representation invariant PBM_INV
    (DESIGN 2.4 / C08 clause 1): bins>=1, min<max, bounds = linspace(min,max,bins+1), centres = midpoints,
    PSD >= 0, lengths match.  The grid step is named w (w*bins = max-min)."""
    bins = integer(ctx, tag + 'bins', lambda v: v >= 1)
    mn = real(ctx, tag + 'min', lambda v: v >= 0)
    mx = real(ctx, tag + 'max')
    w = real(ctx, tag + 'w', lambda v: v > 0)
    ctx.assume(eq(w * bins, mx - mn))
    bounds = Arr((bins + 1,), lambda i: mn + to_real(i) * w, 'real', name='PSDbounds')
    bf = bounds.snap()
    size = Arr((bins,), lambda i: (bf(i) + bf(i + 1)) / 2, 'real', name='PSDsize')
    PSD = array(ctx, tag + 'PSD', (bins,), fact=(lambda v, i: v >= 0) if psd_nonneg else None)
    omin = real(ctx, tag + 'originalMin', lambda v: v >= 0)
    omax = real(ctx, tag + 'originalMax')
    ctx.assume(omax >= 10 * omin, omax > omin)
    obins = integer(ctx, tag + 'originalBins', lambda v: v >= 1)
    minBins = integer(ctx, tag + 'minBins', lambda v: v >= 1)
    maxBins = integer(ctx, tag + 'maxBins')
    ctx.assume(maxBins >= minBins)
    fields = dict(originalMin=omin, originalMax=omax, min=mn, max=mx, originalBins=obins, minBins=minBins, maxBins=maxBins,
                  bins=bins, PSDbounds=bounds, PSDsize=size, PSD=PSD,
                  _prevPSD=array(ctx, tag + '_prevPSD', (bins,)), _prevPSDbounds=array(ctx, tag + '_prevPSDbounds', (bins + 1,)),
                  _netFlux=None, _adaptiveBinSize=True, _record=False, _recordedBins=None, _recordedPSD=None, _recordedTime=None)
    if extra:
        fields.update(extra)
    o = new_obj(it, PBM_MOD, 'PopulationBalanceModel', **fields)
    o_w = w
    return o, o_w


def pbm_inv(ctx, prefix, o, nonneg=True, strict_order=True):
    """obligations: representation invariant of a PopulationBalanceModel object state"""
    ok = True
    f = o.fields
    bins, mn, mx = f['bins'], f['min'], f['max']
    ok &= ctx.prove(prefix + '/inv/bins>=1', ge(bins, 1), kind='invariant')
    ok &= ctx.prove(prefix + '/inv/min<max', lt(mn, mx), kind='invariant')
    for nm, ln in (('PSD', bins), ('PSDsize', bins), ('PSDbounds', bins + 1)):
        a = f[nm]
        good = isinstance(a, ArrBase) and a.ndim == 1
        ok &= ctx.prove('%s/inv/len(%s)' % (prefix, nm), eq(a.shape[0], ln) if good else False, kind='invariant')
    b, s, p = f['PSDbounds'], f['PSDsize'], f['PSD']
    ok &= forall(ctx, prefix + '/inv/bounds=linspace', 0, bins + 1, lambda i: eq(b.get(i) * bins, mn * bins + to_real(i) * (mx - mn)), kind='invariant')
    ok &= forall(ctx, prefix + '/inv/bounds-increasing', 0, bins, lambda i: lt(b.get(i), b.get(i + 1)), kind='invariant')
    ok &= ctx.prove(prefix + '/inv/bounds-ends', and_(eq(b.get(0), mn), eq(b.get(bins), mx)), kind='invariant')
    ok &= forall(ctx, prefix + '/inv/centres=midpoints', 0, bins, lambda i: eq(2 * s.get(i), b.get(i) + b.get(i + 1)), kind='invariant')
    if nonneg:
        ok &= forall(ctx, prefix + '/inv/PSD>=0', 0, bins, lambda i: ge(p.get(i), 0), kind='invariant')
    return ok
