"""C16 -- elastic strain energy is a positive, volume-proportional quadratic form (DESIGN 6, C16; partial)."""
import itertools
from kvc.dsl import *
from kvc import sym

REG = Registry('C16')
REG.assumptions += [
    'all tensors have concrete shapes (6x6, 3x3, 3x3x3x3): loops unroll and the obligations are complete for arbitrary real entries',
    'np.linalg.inv beyond 3x3 is opaque with the assumed contract A.inv(A) = I; moduli inputs: E, G, K, M > 0, lambda > 0, -1 < nu < 1/2 (nu = 0 included)',
    'sqrt axioms (s >= 0, s^2 = x) for the moduli pairs that need a square root and for the ellipsoid radius function',
]
REG.undecided += [
    'non-negativity of the Eshelby energy for stable tensors, textbook Eshelby components, numerical rotation invariance of the energy, agreement of the 6x6 and rank-4 '
    'energy routes beyond the tensor conversions, reduction of the Bohm expression when precipitate = matrix stiffness (needs inv(A).A = I through a 6x6 numpy inverse), '
    'Lebedev quadrature exactness (15-digit tabulated nodes): properties of a 5810-point quadrature, no contract decides them',
]
EF = 'kawin.precipitation.parameters.ElasticFactors'


def stub_lebedev(ctx, it):
    """the 5810-node Lebedev table is replaced by one arbitrary quadrature node (the obligations here do not depend on the nodes)"""
    key = it.load('kawin.precipitation.parameters.LebedevNodes').env['loadPoints'].key
    it.summaries[key] = lambda interp, f, args, kwargs: (NP.array([real(ctx, 'leb_phi')]), NP.array([real(ctx, 'leb_theta')]), NP.array([real(ctx, 'leb_w')]))


def sym66(ctx, name, symmetric=True):
    v = {}
    for i in range(6):
        for j in range(6):
            if symmetric and j < i:
                v[(i, j)] = v[(j, i)]
            else:
                v[(i, j)] = real(ctx, '%s%d%d' % (name, i, j))
    return NP.array([[v[(i, j)] for j in range(6)] for i in range(6)]), v


@REG.contract('tensor-rank-conversions', [EF + ':convert2To4rankTensor', EF + ':convert4To2rankTensor', EF + ':convertVecTo2rankTensor', EF + ':convert2rankToVec'])
def c_conv(ctx, it, cfg):
    m = it.load(EF).env
    c2, v = sym66(ctx, 'c', symmetric=False)
    c4 = m['convert2To4rankTensor'](c2)
    ctx.prove('rank4-shape', isinstance(c4, ArrBase) and tuple(c4.shape) == (3, 3, 3, 3))
    back = m['convert4To2rankTensor'](c4)
    ctx.prove('6x6 -> rank4 -> 6x6 is the identity', and_(*[eq(back.get(i, j), v[(i, j)]) for i in range(6) for j in range(6)]))
    ctx.prove('rank4-has-the-minor-symmetries', and_(*[and_(eq(c4.get(i, j, k, l), c4.get(j, i, k, l)), eq(c4.get(i, j, k, l), c4.get(i, j, l, k)))
                                                       for i, j, k, l in itertools.product(range(3), repeat=4)]))
    again = m['convert2To4rankTensor'](back)
    ctx.prove('rank4 -> 6x6 -> rank4 is the identity on tensors with the minor symmetries', and_(*[eq(again.get(*ix), c4.get(*ix)) for ix in itertools.product(range(3), repeat=4)]))
    vec = NP.array([real(ctx, 'v%d' % i) for i in range(6)])
    t = m['convertVecTo2rankTensor'](vec)
    ctx.prove('vector -> 3x3 is symmetric', and_(*[eq(t.get(i, j), t.get(j, i)) for i in range(3) for j in range(3)]))
    vb = m['convert2rankToVec'](t)
    ctx.prove('vector -> 3x3 -> vector is the identity', and_(*[eq(vb.get(i), vec.get(i)) for i in range(6)]))
    ctx.prove('canary/voigt-order-is-11,22,33,12,13,23', eq(vb.get(3), t.get(0, 1)), expect='refuted')


@REG.contract('_ohm_quickInverse', [EF + ':EllipsoidalEnergyDescription._ohm_quickInverse', EF + ':EllipsoidalEnergyDescription.sphInt', EF + ':EllipsoidalEnergyDescription._n',
              EF + ':EllipsoidalEnergyDescription._beta'])
def c_quickinv(ctx, it, cfg):
    d = new_obj(it, EF, 'EllipsoidalEnergyDescription')
    # (a) for a symmetric matrix with non-zero determinant the routine returns the inverse
    e = {}
    for i in range(3):
        for j in range(i, 3):
            e[(i, j)] = e[(j, i)] = real(ctx, 'm%d%d' % (i, j))
    M = NP.array([[e[(i, j)] for j in range(3)] for i in range(3)])
    det = (e[(0, 0)] * (e[(1, 1)] * e[(2, 2)] - e[(1, 2)] * e[(2, 1)]) - e[(0, 1)] * (e[(1, 0)] * e[(2, 2)] - e[(1, 2)] * e[(2, 0)])
           + e[(0, 2)] * (e[(1, 0)] * e[(2, 1)] - e[(1, 1)] * e[(2, 0)]))
    ctx.assume(not_(eq(det, 0)))
    inv = d._ohm_quickInverse(M)
    # the result is the cofactor layout divided by the determinant ...
    def cof(i, j):
        r = [x for x in range(3) if x != i]
        cc = [x for x in range(3) if x != j]
        v = e[(r[0], cc[0])] * e[(r[1], cc[1])] - e[(r[0], cc[1])] * e[(r[1], cc[0])]
        return v if (i + j) % 2 == 0 else -v
    for i in range(3):
        for j in range(3):
            ctx.prove('symmetric-argument/entry[%d,%d]-is-cofactor/det' % (i, j), eq(inv.get(i, j) * det, cof(i, j)))
    # ... and cofactors of a symmetric matrix times the matrix give det * identity (polynomial identity)
    for i in range(3):
        for j in range(3):
            ctx.prove('symmetric-argument/cofactors-times-matrix-is-det*identity[%d,%d]' % (i, j), eq(sum((cof(i, k) * e[(k, j)] for k in range(3)), 0), det if i == j else 0))
    # (b) the only caller hands it the Christoffel matrix C_ijkl n_j n_k of a stiffness with the major symmetry: that matrix IS symmetric
    c2, v = sym66(ctx, 'c', symmetric=True)
    c4 = it.load(EF).env['convert2To4rankTensor'](c2)
    seen = []
    d.fields['_ohm_inverse'] = lambda mm: (seen.append(mm), mm)[1]
    d.fields['midPhiGrid'] = NP.array([real(ctx, 'phi')])
    d.fields['midThetaGrid'] = NP.array([real(ctx, 'theta')])
    d.fields['midWeights'] = NP.array([real(ctx, 'wgt')])
    d.fields['dA'] = real(ctx, 'dA')
    radius = NP.array([real(ctx, 'ra', lambda v: v > 0), real(ctx, 'rb', lambda v: v > 0), real(ctx, 'rc', lambda v: v > 0)])
    d.sphInt(radius, c4)
    ctx.prove('inverse-routine-called-once', len(seen) == 1 and isinstance(seen[0], ArrBase) and tuple(seen[0].shape) == (3, 3, 1))
    if seen:
        A = seen[0]
        ctx.prove('call-site/christoffel-matrix-is-symmetric', and_(*[eq(A.get(i, j, 0), A.get(j, i, 0)) for i in range(3) for j in range(3)]))
    # (c) the quadrature integrand is homogeneous of degree -3 in the radii (so D is of degree 0 and the energy of degree 3 through the volume)
    lam = real(ctx, 'scale', lambda v: v > 0)
    b1 = d._beta(radius.get(0), radius.get(1), radius.get(2), d.fields['midPhiGrid'], d.fields['midThetaGrid']).get(0)
    b2 = d._beta(lam * radius.get(0), lam * radius.get(1), lam * radius.get(2), d.fields['midPhiGrid'], d.fields['midThetaGrid']).get(0)
    ctx.prove('radius-function-is-homogeneous-of-degree-1', eq(b2, lam * b1))


PAIRS = [('E', 'nu'), ('E', 'G'), ('E', 'lam'), ('E', 'K'), ('E', 'M'), ('nu', 'G'), ('nu', 'lam'), ('nu', 'K'), ('nu', 'M'), ('G', 'lam'), ('G', 'K'), ('G', 'M'),
         ('lam', 'K'), ('lam', 'M'), ('K', 'M')]


@REG.contract('moduliToC', [EF + ':moduliToC'], configs=[dict(name='%s,%s%s' % (a, b, z), pair=(a, b), zero=bool(z)) for a, b in PAIRS for z in (('', ',nu=0') if 'nu' in (a, b) else ('',))])
def c_moduli(ctx, it, cfg):
    """every admissible pair of isotropic moduli yields the compliance of the SAME material: 1/E, -nu/E, 1/G with G = E/(2(1+nu))"""
    E = real(ctx, 'E', lambda v: v > 0)
    nu = 0 if cfg['zero'] else real(ctx, 'nu')
    if not cfg['zero']:
        ctx.assume(and_(gt(nu, -1), lt(2 * nu, 1)))
        if cfg['pair'] in (('nu', 'lam'), ('lam', 'K'), ('lam', 'M'), ('G', 'lam'), ('E', 'lam')):
            ctx.assume(gt(nu, 0))                 # a positive first Lame parameter means a positive Poisson ratio
    if cfg['pair'] == ('E', 'M') and not cfg['zero']:
        ctx.assume(ge(nu, 0))                     # (E, M) determines nu only up to a sign choice; the code takes the non-negative root
    # the material is (E, nu); the two moduli handed over are derived from it
    G = E / (2 * (1 + nu))
    vals = dict(E=E, nu=nu, G=G, lam=E * nu / ((1 + nu) * (1 - 2 * nu)), K=E / (3 * (1 - 2 * nu)), M=E * (1 - nu) / ((1 + nu) * (1 - 2 * nu)))
    a, b = cfg['pair']
    if cfg['zero'] and 'lam' in (a, b):
        return
    kw = {a: vals[a], b: vals[b]}
    C = it.load(EF).env['moduliToC'](**kw)
    s = getattr(C, 'inv_of', None)
    ctx.prove('returns-the-inverse-of-the-isotropic-compliance', s is not None and tuple(s.shape) == (6, 6))
    if s is None:
        return
    ctx.prove('compliance/1/E on the normal diagonal', and_(*[eq(s.get(i, i) * E, 1) for i in range(3)]))
    ctx.prove('compliance/-nu/E off the normal diagonal', and_(*[eq(s.get(i, j) * E, -nu) for i in range(3) for j in range(3) if i != j]))
    ctx.prove('compliance/1/G on the shear diagonal', and_(*[eq(s.get(i, i) * G, 1) for i in range(3, 6)]))
    ctx.prove('compliance/zero elsewhere', and_(*[eq(s.get(i, j), 0) for i in range(6) for j in range(6) if i != j and (i >= 3 or j >= 3)]))


@REG.contract('isotropic-sphere/closed-form', [EF + ':SphericalEnergyDescription._Khachaturyan', EF + ':SphericalEnergyDescription.computeStrainEnergy',
              EF + ':elasticConstantToC', EF + ':ConstantEnergyDescription.computeStrainEnergy'])
def c_sphere(ctx, it, cfg):
    m = it.load(EF).env
    c12 = real(ctx, 'c12', lambda v: v > 0)
    c44 = real(ctx, 'c44', lambda v: v > 0)
    c11 = c12 + 2 * c44                                   # isotropy
    c2 = m['elasticConstantToC'](c11, c12, c44)
    eps = real(ctx, 'eps')
    prm = new_obj(it, EF, 'StrainEnergyParameters', cMatrix_2nd=c2, eigenstrain=NP.array([[eps, 0, 0], [0, eps, 0], [0, 0, eps]]), constantEnergy=real(ctx, 'e0'))
    d = new_obj(it, EF, 'SphericalEnergyDescription', params=prm)
    R = real(ctx, 'R', lambda v: v > 0)
    radius = NP.array([R, R, R])
    W = d.computeStrainEnergy(radius)
    V = 4 * NP.pi / 3 * R * R * R
    G, nu = c44, c12 / (c11 + c12)
    ctx.prove('isotropic-sphere: energy = 2G(1+nu)/(1-nu) * eps^2 * V', eq(W * (1 - nu), 2 * G * (1 + nu) * eps * eps * V))
    ctx.prove('non-negative-for-the-isotropic-sphere', ge(W, 0))
    lam = real(ctx, 'scale', lambda v: v > 0)
    W2 = d.computeStrainEnergy(NP.array([lam * R, lam * R, lam * R]))
    ctx.prove('scales-with-the-cube-of-a-uniform-size-scaling', eq(W2, lam * lam * lam * W))
    t = real(ctx, 't')
    prm.fields['eigenstrain'] = NP.array([[t * eps, 0, 0], [0, t * eps, 0], [0, 0, t * eps]])
    ctx.prove('scales-with-the-square-of-the-eigenstrain', eq(d.computeStrainEnergy(radius), t * t * W))
    dc = new_obj(it, EF, 'ConstantEnergyDescription', params=prm)
    ctx.prove('constant-energy-density-times-volume', eq(dc.computeStrainEnergy(radius), V * prm.fields['constantEnergy']))


@REG.contract('rotation-and-stiffness-order', [EF + ':StrainEnergy.update', EF + ':StrainEnergy.setRotationMatrix', EF + ':StrainEnergy.setRotationPrecipitate',
              EF + ':StrainEnergy.setElasticTensor', EF + ':StrainEnergy.setElasticTensorPrecipitate', EF + ':rotateRank4Tensor'],
              configs=[dict(name='%s,%s' % (w, o), which=w, order=o) for w in ('matrix', 'precipitate') for o in ('stiffness-then-rotation', 'rotation-then-stiffness')])
def c_rotation(ctx, it, cfg):
    m = it.load(EF).env
    stub_lebedev(ctx, it)
    SE = m['StrainEnergy']
    se = SE()
    c2, v = sym66(ctx, 'c', symmetric=True)
    rot = NP.array([[real(ctx, 'r%d%d' % (i, j)) for j in range(3)] for i in range(3)])
    if cfg['which'] == 'precipitate':
        cm, vm = sym66(ctx, 'cm', symmetric=True)
        ctx.assume(not_(eq(vm[(0, 0)], 0)))
        se.setElasticTensor(cm)
    ctx.assume(not_(eq(v[(0, 0)], 0)))
    set_c = se.setElasticTensor if cfg['which'] == 'matrix' else se.setElasticTensorPrecipitate
    set_r = se.setRotationMatrix if cfg['which'] == 'matrix' else se.setRotationPrecipitate
    if cfg['order'] == 'stiffness-then-rotation':
        set_c(c2)
        set_r(rot)
    else:
        set_r(rot)
        set_c(c2)
    want = m['rotateRank4Tensor'](rot, m['convert2To4rankTensor'](c2))
    got = se.params.fields['cMatrix_4th' if cfg['which'] == 'matrix' else 'cPrec_4th']
    idx = list(itertools.product(range(3), repeat=4))
    ctx.prove('stiffness-in-use-is-the-rotated-stiffness', isinstance(got, ArrBase) and tuple(got.shape) == (3, 3, 3, 3) and and_(*[eq(got.get(*ix), want.get(*ix)) for ix in idx]))


@REG.contract('precipitate-stiffness-defaults-to-the-current-matrix-stiffness', [EF + ':StrainEnergy.update', EF + ':StrainEnergy.setElasticTensor', EF + ':StrainEnergy.setRotationMatrix'],
              configs=[dict(name=o, order=o) for o in ('no-rotation', 'stiffness-then-matrix-rotation', 'matrix-rotation-then-stiffness')])
def c_prec_default(ctx, it, cfg):
    """no precipitate stiffness given: the precipitate uses the matrix stiffness IN USE (the rotated one when the matrix is rotated, whichever was set first),
    also after the matrix stiffness is assigned again"""
    m = it.load(EF).env
    stub_lebedev(ctx, it)
    se = m['StrainEnergy']()
    c_first, v1 = sym66(ctx, 'first', symmetric=True)
    c_second, v2 = sym66(ctx, 'second', symmetric=True)
    ctx.assume(and_(not_(eq(v1[(0, 0)], 0)), not_(eq(v2[(0, 0)], 0))))
    rot = NP.array([[real(ctx, 'r%d%d' % (i, j)) for j in range(3)] for i in range(3)])
    if cfg['order'] == 'matrix-rotation-then-stiffness':
        se.setRotationMatrix(rot)
    se.setElasticTensor(c_first)
    se.setElasticTensor(c_second)
    if cfg['order'] == 'stiffness-then-matrix-rotation':
        se.setRotationMatrix(rot)
    cm, cp = se.params.fields['cMatrix_4th'], se.params.fields['cPrec_4th']
    want = m['convert2To4rankTensor'](c_second)
    if cfg['order'] != 'no-rotation':
        want = m['rotateRank4Tensor'](rot, want)
    idx = list(itertools.product(range(3), repeat=4))
    ctx.prove('matrix-stiffness-is-the-latest-one', and_(*[eq(cm.get(*ix), want.get(*ix)) for ix in idx]))
    ctx.prove('precipitate-stiffness-equals-the-current-matrix-stiffness', and_(*[eq(cp.get(*ix), cm.get(*ix)) for ix in idx]))
    c2m, c2p = se.params.fields['cMatrix_2nd'], se.params.fields['cPrec_2nd']
    ctx.prove('6x6-forms-agree-too', and_(*[eq(c2p.get(i, j), c2m.get(i, j)) for i in range(6) for j in range(6)]))


@REG.contract('tensor-rotation/definition', [EF + ':rotateRank4Tensor', EF + ':rotateRank2Tensor'],
              configs=[dict(name='entries-00kl-01kl', sub=True, weight=30), dict(name='all-81-entries', sub=False, tier='thorough', weight=90)])
def c_rotate(ctx, it, cfg):
    """C'_ijkl = R_im R_jn R_ko R_lp C_mnop  and  t'_ij = R_im R_jn t_mn  (independent index formula, not the code's own routine)"""
    m = it.load(EF).env
    R = [[real(ctx, 'r%d%d' % (i, j)) for j in range(3)] for i in range(3)]
    rot = NP.array(R)
    T = {ix: real(ctx, 'T%d%d%d%d' % ix) for ix in itertools.product(range(3), repeat=4)}
    ten = Arr((3, 3, 3, 3), lambda i, j, k, l: arr_sel(T, (i, j, k, l)), 'real')
    out = m['rotateRank4Tensor'](rot, ten)
    ctx.prove('rank4/shape', isinstance(out, ArrBase) and tuple(out.shape) == (3, 3, 3, 3))
    for (i, j, k, l) in itertools.product(range(3), repeat=4):
        if cfg['sub'] and (i, j) not in ((0, 0), (0, 1)):
            continue
        spec = 0
        for (mm, n, o, p) in itertools.product(range(3), repeat=4):
            spec = spec + R[i][mm] * R[j][n] * R[k][o] * R[l][p] * T[(mm, n, o, p)]
        ctx.prove('rank4/entry[%d%d%d%d]' % (i, j, k, l), eq(out.get(i, j, k, l), spec))
    t2 = [[real(ctx, 't%d%d' % (i, j)) for j in range(3)] for i in range(3)]
    o2 = m['rotateRank2Tensor'](rot, NP.array(t2))
    for i in range(3):
        for j in range(3):
            spec = 0
            for mm in range(3):
                for n in range(3):
                    spec = spec + R[i][mm] * R[j][n] * t2[mm][n]
            ctx.prove('rank2/entry[%d%d]' % (i, j), eq(o2.get(i, j), spec))


def arr_sel(d, idx):
    from kvc.arr import _sel_nd
    return _sel_nd(d, (3, 3, 3, 3), idx)


@REG.contract('Dijkl/size-invariance', [EF + ':EllipsoidalEnergyDescription.Dijkl', EF + ':EllipsoidalEnergyDescription.sphInt', EF + ':EllipsoidalEnergyDescription._n'],
              configs=[dict(name='grid-points=1', g=1), dict(name='grid-points=2', g=2, tier='thorough', weight=50)])
def c_dijkl_scale(ctx, it, cfg):
    """D_ijkl of an ellipsoid does not change when all three semi-axes are scaled by the same factor (degree 0), so the strain energy scales with the volume
    (cube of the size).  Modular: the radius function is replaced by its proved contract (homogeneous of degree 1, positive), the Christoffel inverse by arbitrary values."""
    d = new_obj(it, EF, 'EllipsoidalEnergyDescription')
    g = cfg['g']
    d.fields['midPhiGrid'] = NP.array([real(ctx, 'phi%d' % k) for k in range(g)])
    d.fields['midThetaGrid'] = NP.array([real(ctx, 'theta%d' % k) for k in range(g)])
    d.fields['midWeights'] = NP.array([real(ctx, 'wgt%d' % k) for k in range(g)])
    d.fields['dA'] = real(ctx, 'dA')
    ohm = NP.array([[[real(ctx, 'ohm%d%d_%d' % (i, j, k)) for k in range(g)] for j in range(3)] for i in range(3)])
    d.fields['_ohm_inverse'] = lambda mm: ohm
    lam = real(ctx, 'scale', lambda v: v > 0)
    B0 = [real(ctx, 'beta%d' % k, lambda v: v > 0) for k in range(g)]
    calls = []

    def beta(a, b, c, phi, theta):
        calls.append((a, b, c))
        if len(calls) == 1:
            return NP.array(list(B0))
        a0, b0, c0 = calls[0]
        ctx.prove('second-evaluation-is-the-scaled-ellipsoid', and_(eq(a, lam * a0), eq(b, lam * b0), eq(c, lam * c0)))
        return NP.array([lam * x for x in B0])                      # contract of _beta: homogeneous of degree 1 (proved in _ohm_quickInverse/(c))
    d.fields['_beta'] = beta
    c2, v = sym66(ctx, 'c', symmetric=True)
    c4 = it.load(EF).env['convert2To4rankTensor'](c2)
    r = [real(ctx, nm, lambda q: q > 0) for nm in ('ra', 'rb', 'rc')]
    D1 = d.Dijkl(NP.array(r), c4)
    D2 = d.Dijkl(NP.array([lam * x for x in r]), c4)
    ctx.prove('shape', tuple(D1.shape) == (3, 3, 3, 3) and tuple(D2.shape) == (3, 3, 3, 3))
    for ix in [(0, 0, 0, 0), (0, 1, 0, 1), (0, 1, 1, 2), (2, 2, 1, 1), (1, 2, 2, 0), (2, 0, 0, 2)]:
        ctx.prove('D%d%d%d%d-unchanged-by-uniform-scaling' % ix, eq(D2.get(*ix), D1.get(*ix)))
    ctx.prove('canary/D-is-zero', eq(D1.get(0, 0, 0, 0), 0), expect='refuted')


@REG.contract('strainEnergyBohm2ndRank/formula', [EF + ':EllipsoidalEnergyDescription.strainEnergyBohm2ndRank', EF + ':convert4To2rankTensor', EF + ':convert2rankToVec'])
def c_bohm2(ctx, it, cfg):
    """6x6 route for an inhomogeneous inclusion: E = -V/2 * e . C_M (S - I) X e  with  X = [(C_P - C_M) S + C_M]^-1 C_P  (Eshelby's equivalent inclusion);
    the Eshelby tensor S and the inverse are arbitrary/opaque here -- what is decided is that the code assembles exactly this expression"""
    m = it.load(EF).env
    d = new_obj(it, EF, 'EllipsoidalEnergyDescription')
    cM2, _ = sym66(ctx, 'cm', symmetric=True)
    cP2, _ = sym66(ctx, 'cp', symmetric=True)
    S2, _ = sym66(ctx, 's', symmetric=False)
    e = {}
    for i in range(3):
        for j in range(i, 3):
            e[(i, j)] = e[(j, i)] = real(ctx, 'eps%d%d' % (i, j))
    eig = NP.array([[e[(i, j)] for j in range(3)] for i in range(3)])
    P = type('Params', (), {})()
    P.cMatrix_4th, P.cMatrix_2nd, P.cPrec_2nd, P.eigenstrain = m['convert2To4rankTensor'](cM2), cM2, cP2, eig
    d.fields['params'] = P
    S4 = m['convert2To4rankTensor'](S2)
    d.fields['Dijkl'] = lambda radius, c4: 'D'
    d.fields['Sijmn'] = lambda D: S4
    r = [real(ctx, nm, lambda q: q > 0) for nm in ('ra', 'rb', 'rc')]
    E = d.strainEnergyBohm2ndRank(NP.array(r))
    V = 4 * NP.pi / 3 * r[0] * r[1] * r[2]
    Sback = m['convert4To2rankTensor'](S4)
    A = NP.matmul(cP2 - cM2, Sback) + cM2
    X = NP.matmul(NP.linalg.inv(A), cP2)
    ev = m['convert2rankToVec'](eig)
    inner = NP.matmul(cM2, NP.matmul(NP.matmul(Sback, X), ev)) - NP.matmul(cM2, NP.matmul(X, ev))
    want = -V / 2 * sum((ev.get(i) * inner.get(i) for i in range(6)), 0)
    ctx.prove('energy = -V/2 e.(C_M (S - I) [(C_P - C_M) S + C_M]^-1 C_P e)', eq(E, want))
    ctx.prove('canary/energy-is-zero', eq(E, 0), expect='refuted')


@REG.contract('invert4rankTensor', [EF + ':invert4rankTensor', EF + ':convert4To2rankTensor', EF + ':convert2To4rankTensor'])
def c_inv4(ctx, it, cfg):
    """the fourth-rank inverse (stated from the property, not from the code: the Bohm energy must reduce to the homogeneous-inclusion result, which needs
    A : inv(A) = identity on symmetric second-rank tensors, I_ijmn = (d_im d_jn + d_in d_jm)/2) of a tensor with minor symmetries whose 6x6 image is ANY invertible
    matrix (no symmetrisation, no transposition: the inhomogeneous-inclusion matrix (C_P - C_M) S + C_M is not symmetric in general).  np.linalg.inv of the 6x6
    image is opaque in the numpy model; its assumed contract img . inv(img) = I is expanded here for the (memoised) inverse the code obtained."""
    m = it.load(EF).env
    A2, v = sym66(ctx, 'a', symmetric=False)
    A4 = m['convert2To4rankTensor'](A2)
    got = m['invert4rankTensor'](A4)
    img = m['convert4To2rankTensor'](A4)
    ctx.prove('6x6-image-of-the-argument-is-the-matrix-itself', and_(*[eq(img.get(i, j), v[(i, j)]) for i in range(6) for j in range(6)]))
    X = NP.linalg.inv(img)
    ctx.assume(and_(*[eq(sum((img.get(i, k) * X.get(k, j) for k in range(6)), 0), 1 if i == j else 0) for i in range(6) for j in range(6)]))
    rng = list(itertools.product(range(3), repeat=2))
    for ij, mn in (((0, 0), (0, 0)), ((0, 0), (1, 1)), ((1, 1), (0, 0)), ((0, 1), (0, 1)), ((0, 1), (1, 0)), ((0, 1), (2, 2)), ((2, 2), (0, 1)), ((1, 2), (0, 2)), ((0, 2), (0, 2))):
        want = (Fraction(1, 2) if (ij[0] == mn[0] and ij[1] == mn[1]) else 0) + (Fraction(1, 2) if (ij[0] == mn[1] and ij[1] == mn[0]) else 0)
        ctx.prove('tensor-contracted-with-its-inverse-is-the-symmetric-identity[%d%d%d%d]' % (ij + mn),
                  eq(sum((A4.get(ij[0], ij[1], k, l) * got.get(k, l, mn[0], mn[1]) for k, l in rng), 0), want))
    # no refute-first canaries here: a counter-model would have to solve the 36 bilinear equations of the assumed inverse contract (z3 does not within minutes);
    # the canaries sit in the diagonal instance below, where the inverse is explicit


@REG.contract('Bohm-reduction/fourth-rank-inverse-composed-with-the-tensor-is-the-identity-on-strains', [EF + ':invert4rankTensor', EF + ':convert4To2rankTensor', EF + ':convert2To4rankTensor'])
def c_inv4_identity(ctx, it, cfg):
    """the property: the Bohm energy reduces to the homogeneous-inclusion result when precipitate and matrix stiffness coincide.  With C_P = C_M Bohm's formula
    (strainEnergyBohm) applies  invert4rankTensor(C_M) : C_M  to the eigenstrain; the reduction needs this to return the eigenstrain, for every symmetric eigenstrain
    (shear components included).  Stated for a 6x6 image with symbolic positive diagonal and one symbolic entry above the diagonal (explicit inverse)."""
    m = it.load(EF).env
    a = [real(ctx, 'c%d%d' % (i, i), lambda v: v > 0) for i in range(6)]
    b = real(ctx, 'c01')       # one coupling entry above the diagonal only: the 6x6 image is NOT symmetric (as (C_P - C_M) S + C_M is not), its inverse is still explicit
    A2 = NP.array([[a[i] if i == j else (b if (i, j) == (0, 1) else 0) for j in range(6)] for i in range(6)])
    A4 = m['convert2To4rankTensor'](A2)
    inv = m['invert4rankTensor'](A4)
    # np.linalg.inv of a 6x6 matrix is opaque in the numpy model (assumed contract A.inv(A) = I, not expanded); for this diagonal matrix the contract
    # determines the inverse uniquely: 1/c_ii on the diagonal, 0 elsewhere.  Stated here for the same (memoised) opaque inverse the code obtained.
    X = NP.linalg.inv(m['convert4To2rankTensor'](A4))
    ctx.assume(and_(*[eq(X.get(i, j) * (a[i] if i == j else 1), 1 if i == j else 0) for i in range(6) for j in range(6) if (i, j) != (0, 1)]))
    ctx.assume(eq(X.get(0, 1) * a[0] * a[1], 0 - b))
    e = {}
    for i in range(3):
        for j in range(i, 3):
            e[(i, j)] = e[(j, i)] = real(ctx, 'eps%d%d' % (i, j))
    rng = list(itertools.product(range(3), repeat=2))

    def contract42(T, s):
        return {(i, j): sum((T.get(i, j, k, l) * s[(k, l)] for k, l in rng), 0) for i, j in rng}
    back = contract42(inv, contract42(A4, e))          # inv : (C : eps), the same number as (inv : C) : eps
    for ij in ((0, 0), (1, 1), (2, 2), (1, 2), (0, 2), (0, 1)):
        ctx.prove('strain-%d%d-recovered' % ij, eq(back[ij], e[ij]))
    ctx.prove('canary/shear-entry-is-the-plain-6x6-inverse-entry', eq(inv.get(0, 1, 0, 1), X.get(5, 5)), expect='refuted')
    ctx.prove('canary/strain-comes-back-doubled', eq(back[(0, 1)], 2 * e[(0, 1)]), expect='refuted')
