"""C18 -- coupled strength and grain-growth models stay physical and aligned (DESIGN 6, C18)."""
from kvc.dsl import *
from kvc import sym
from .common import pbm_obj, PBM_MOD

REG = Registry('C18')
REG.assumptions += [
    'floats are mathematical reals: the code\'s non-finite filter (isfinite) is the identity here, so radii and spacings are taken > 0 (zero radius / spacing produce inf/nan in '
    'the real code, which that filter maps to 0); the NEGATIVE-value filter is what is verified',
    'power with non-integer exponents is uninterpreted with sign, unit, monotonicity and (u^v)^(1/v) = u axioms',
    'material parameters arbitrary positive reals; Poisson ratio in (0, 1/2)',
    'coupling: the coupled model is attached before the first host step (otherwise the histories are shorter by the number of missed steps)',
    'Zener drag contract: exponents m > 0 and factors K > 0 (global and per phase), volume fractions in [0,1], mean radii >= 0, moments of the distributions >= 0',
]
REG.undecided += [
    'mixed-dislocation prefactors at 90/0 degrees equal the edge/screw formulas only up to the rounding of the tabulated constants (1.3416, 4.1127, 2.1352 vs closed forms)',
    'mean grain size never decreases without pinning: a theorem about the Hillert dynamics over time, not a postcondition of a function',
    'finiteness (no NaN/inf) of the strength terms at zero radius / spacing',
]
ST = 'kawin.precipitation.coupling.Strength'
GG = 'kawin.precipitation.coupling.GrainGrowth'
EFFECTS = ['coherency', 'modulus', 'APB', 'SFE', 'interfacial']


def mk_strength(ctx, it, effects):
    S = it.get(ST, 'StrengthModel')
    s = S()
    G, b = real(ctx, 'G', lambda v: v > 0), real(ctx, 'b', lambda v: v > 0)
    nu = real(ctx, 'nu', lambda v: v > 0, lambda v: 2 * v < 1)
    s.setDislocationParameters(G, b, nu, real(ctx, 'ri', lambda v: v > 0))
    s.fields['theta'] = real(ctx, 'theta')
    s.fields['psi'] = real(ctx, 'psi')
    ctx.assume(gt(NP.cos(s.fields['psi'] / 2), 0))         # dislocation bending angle below 180 degrees (default 120)
    s.fields['M'] = real(ctx, 'M', lambda v: v > 0)
    if 'coherency' in effects:
        s.setCoherencyParameters(real(ctx, 'eps'))
    if 'modulus' in effects:
        s.setModulusParameters(real(ctx, 'Gp', lambda v: v > 0), real(ctx, 'w1', lambda v: v > 0), real(ctx, 'w2', lambda v: v > 0))
    if 'APB' in effects:
        s.setAPBParameters(real(ctx, 'yAPB', lambda v: v > 0), real(ctx, 's', lambda v: v > 0), real(ctx, 'beta', lambda v: v > 0), real(ctx, 'V', lambda v: v > 0))
    if 'SFE' in effects:
        s.setSFEParameters(real(ctx, 'ySFM', lambda v: v > 0), real(ctx, 'ySFP', lambda v: v > 0))
    if 'interfacial' in effects:
        s.setInterfacialParameters(real(ctx, 'gamma_if', lambda v: v > 0))
    return s


@REG.contract('getStrengthContributions/non-negative', [ST + ':StrengthModel.getStrengthContributions', ST + ':StrengthModel.orowan', ST + ':StrengthModel._getStrengthFunctions'],
              configs=[dict(name=e, effects=[e]) for e in EFFECTS] + [dict(name='none', effects=[]), dict(name='coherency+SFE', effects=['coherency', 'SFE'])])
def c_contrib(ctx, it, cfg):
    s = mk_strength(ctx, it, cfg['effects'])
    n = integer(ctx, 'n', lambda v: v >= 1)
    rss = array(ctx, 'rss', (n,), fact=lambda v, i: v > 0)
    Ls = array(ctx, 'Ls', (n,), fact=lambda v, i: v > 0)
    s_r, s_l = snapshot(rss), snapshot(Ls)
    weak, strong, oro, labels = s.getStrengthContributions(rss, Ls, 'all')
    k = len(cfg['effects'])
    ctx.prove('one-row-per-enabled-contribution', len(labels) == k)
    for nm, a in (('weak', weak), ('strong', strong)):
        if k:
            ok = isinstance(a, ArrBase) and a.ndim == 2
            ctx.prove('%s/shape' % nm, and_(ok and a.shape[0] == k, eq(a.shape[1], n)) if ok else False)
            for r in range(k):
                forall(ctx, '%s/%s-contribution-never-negative' % (nm, cfg['effects'][r]), 0, n, lambda i, a=a, r=r: ge(a.get(r, i), 0))
    forall(ctx, 'orowan-never-negative', 0, n, lambda i: ge(oro.get(i), 0))
    unchanged(ctx, 'arg:rss', s_r, rss)
    unchanged(ctx, 'arg:Ls', s_l, Ls)
    # combined strength: Taylor factor times the smallest of the three branches
    tot = s.combineStrengthContributions(weak, strong, oro)
    ctx.prove('combined/shape', and_(isinstance(tot, ArrBase) and tot.ndim == 1, eq(tot.shape[0], n)))
    forall(ctx, 'combined/never-negative', 0, n, lambda i: ge(tot.get(i), 0))
    if k == 0:
        forall(ctx, 'combined/no-contribution-enabled-gives-zero', 0, n, lambda i: eq(tot.get(i), 0))
    if k == 1:
        M = s.fields['M']
        forall(ctx, 'combined/is-taylor-factor-times-smallest-branch', 0, n,
               lambda i: eq(tot.get(i), M * vmin(vmin(weak.get(0, i), strong.get(0, i)), oro.get(i))))


@REG.contract('combineStrengthContributions/min-rule', [ST + ':StrengthModel.combineStrengthContributions'], configs=[dict(name='k=%d' % k, k=k) for k in (0, 1)])
def c_combine(ctx, it, cfg):
    S = it.get(ST, 'StrengthModel')
    s = S()
    M = s.fields['M'] = real(ctx, 'M', lambda v: v > 0)
    n = integer(ctx, 'n', lambda v: v >= 1)
    k = cfg['k']
    weak = array(ctx, 'weak', (k, n), fact=lambda v, r, i: v >= 0) if k else NP.array([])
    strong = array(ctx, 'strong', (k, n), fact=lambda v, r, i: v >= 0) if k else NP.array([])
    oro = array(ctx, 'orowan', (n,), fact=lambda v, i: v >= 0)
    tot = s.combineStrengthContributions(weak, strong, oro)
    if k == 0:
        forall(ctx, 'no-contribution-enabled-gives-zero', 0, n, lambda i: eq(tot.get(i), 0))
    else:
        forall(ctx, 'taylor-factor-times-smallest-branch', 0, n, lambda i: eq(tot.get(i), M * vmin(vmin(weak.get(0, i), strong.get(0, i)), oro.get(i))))
        forall(ctx, 'canary/is-the-weak-branch', 0, n, lambda i: eq(tot.get(i), M * weak.get(0, i)), expect='refuted')
    forall(ctx, 'never-negative', 0, n, lambda i: ge(tot.get(i), 0))


@REG.contract('superposition', [ST + ':StrengthModel.totalStrength'])
def c_total(ctx, it, cfg):
    S = it.get(ST, 'StrengthModel')
    s = S()
    s.fields['sigma0'] = real(ctx, 'sigma0', lambda v: v >= 0)
    s.fields['totalStrengthExp'] = real(ctx, 'exponent', lambda v: v >= 1)
    n = integer(ctx, 'n', lambda v: v >= 1)
    ss = array(ctx, 'ss', (n,), fact=lambda v, i: v >= 0)
    ps = array(ctx, 'ps', (n,), fact=lambda v, i: v >= 0)
    tot = s.totalStrength(ss, ps)
    nexp = s.fields['totalStrengthExp']
    # proof hint: name (x^n)^(1/n) for the three parts so that the power axioms (inverse exponent, monotone base) are instantiated
    ctx.qfact('pow-hint', lambda i: and_(*[eq(power(power(v, nexp), 1 / nexp), v) for v in (ss.get(i), ps.get(i), s.fields['sigma0'])]) if isinstance(i, SV) else True)
    forall(ctx, 'total-at-least-each-part', 0, n, lambda i: and_(ge(tot.get(i), ss.get(i)), ge(tot.get(i), ps.get(i)), ge(tot.get(i), s.fields['sigma0'])))
    ps2 = array(ctx, 'ps_larger', (n,), fact=lambda v, i: v >= 0)
    tot2 = s.totalStrength(ss, ps2)
    forall(ctx, 'total-non-decreasing-in-the-precipitate-part', 0, n, lambda i: implies(ge(ps2.get(i), ps.get(i)), ge(tot2.get(i), tot.get(i))))


@REG.contract('constrainedGrowth/zener-drag', [GG + ':GrainGrowthModel.constrainedGrowth'])
def c_zener(ctx, it, cfg):
    g = new_obj(it, GG, 'GrainGrowthModel', alpha=real(ctx, 'alpha', lambda v: v >= 0), M=real(ctx, 'M', lambda v: v >= 0), gbe=real(ctx, 'gbe', lambda v: v >= 0))
    n = integer(ctx, 'n', lambda v: v >= 1)
    rate = array(ctx, 'growthRate', (n,))
    z = real(ctx, 'z', lambda v: v >= 0)
    s0 = snapshot(rate)
    cG = g.constrainedGrowth(rate, z)
    d = g.alpha * g.M * g.gbe * z
    forall(ctx, 'never-reverses-a-boundary', 0, n, lambda i: ge(cG.get(i) * rate.get(i), 0))
    forall(ctx, 'never-accelerates-a-boundary', 0, n, lambda i: le(absv(cG.get(i)), absv(rate.get(i))))
    forall(ctx, 'freezes-when-drag-exceeds-driving-rate', 0, n, lambda i: implies(ge(d, absv(rate.get(i))), eq(cG.get(i), 0)))
    forall(ctx, 'reduces-magnitude-by-exactly-the-drag-otherwise', 0, n, lambda i: implies(lt(d, absv(rate.get(i))), eq(absv(cG.get(i)), absv(rate.get(i)) - d)))
    forall(ctx, 'no-drag-no-change', 0, n, lambda i: implies(eq(z, 0), eq(cG.get(i), rate.get(i))))
    unchanged(ctx, 'arg:growthRate', s0, rate)


@REG.contract('GrainGrowth.Normalize/unit-volume', [GG + ':GrainGrowthModel.Normalize', GG + ':GrainGrowthModel.Rm', GG + ':GrainGrowthModel.Rcr'])
def c_norm(ctx, it, cfg):
    pbm, w = pbm_obj(ctx, it)
    g = new_obj(it, GG, 'GrainGrowthModel', pbm=pbm)
    M3 = pbm.ThirdMoment()
    ctx.assume(gt(M3, 0))
    p0 = pbm.PSD.snap()
    g.Normalize()
    ctx.prove('total-grain-volume-is-one', eq(pbm.ThirdMoment(), 1))
    forall(ctx, 'distribution-only-rescaled', 0, pbm.bins, lambda i: eq(pbm.PSD.get(i) * M3, p0(i)))


@REG.contract('Strength.updateCoupledModel/one-entry-per-host-step', [ST + ':StrengthModel.updateCoupledModel'],
              configs=[dict(name='first-step', first=True), dict(name='later-step', first=False)])
def c_couple_strength(ctx, it, cfg):
    S = it.get(ST, 'StrengthModel')
    s = S()
    P = 2
    s.fields['rssterm'] = lambda model, p: real(ctx, 'rss_new%d' % p)
    s.fields['Lsterm'] = lambda model, p: real(ctx, 'ls_new%d' % p)
    s.fields['ssStrength'] = lambda model, n: real(ctx, 'ss_%s' % (n if isinstance(n, int) else 'n'))

    class PD(object):
        pass

    class Model(object):
        phases = ['A', 'B']
        pData = PD()
    m = Model()
    if cfg['first']:
        m.pData.n = 1                    # the host has just recorded its first step
    else:
        L = integer(ctx, 'L', lambda v: v >= 2)
        m.pData.n = L                    # invariant before this host step: one entry per recorded host step (0 .. n-1)
        s.fields['rss'] = array(ctx, 'rss', (L, P))
        s.fields['ls'] = array(ctx, 'ls', (L, P))
        s.fields['solidStrength'] = array(ctx, 'ssS', (L,))
    s.updateCoupledModel(m)
    n1 = m.pData.n + 1
    for nm in ('rss', 'ls'):
        a = s.fields[nm]
        ctx.prove('%s/one-row-per-host-step' % nm, and_(isinstance(a, ArrBase) and a.ndim == 2, eq(a.shape[0], n1), a.shape[1] == P) if isinstance(a, ArrBase) else False)
    a = s.fields['solidStrength']
    ctx.prove('solidStrength/one-entry-per-host-step', and_(isinstance(a, ArrBase) and a.ndim == 1, eq(a.shape[0], n1)) if isinstance(a, ArrBase) else False)


@REG.contract('GrainGrowth.updateCoupledModel/clock-follows-host', [GG + ':GrainGrowthModel.updateCoupledModel'])
def c_couple_grain(ctx, it, cfg):
    log = []
    g = it.get(GG, 'GrainGrowthModel')()              # built by its real constructor: every field exists
    g.fields['solverType'] = 'RK4TYPE'
    nb = g.pbm.bins
    g.pbm.fields['PSD'] = array(ctx, 'grainPSD', (nb,), fact=lambda v, i: v > 0)        # a populated grain size distribution
    zdrag = real(ctx, 'z_drag', lambda v: v >= 0)

    def zener(model):
        log.append(('zener', model))
        g.fields['_z'] = zdrag                        # arbitrary drag, incl. one that pins every boundary
    g.fields['computeZenerRadius'] = zener
    g.fields['solve'] = lambda simTime, **kw: log.append(('solve', simTime, kw))
    n = integer(ctx, 'n', lambda v: v >= 1)
    time = array(ctx, 'time', (n + 1,))

    class PD(object):
        pass

    class Model(object):
        pData = PD()
    m = Model()
    m.pData.n, m.pData.time = n, time
    g.updateCoupledModel(m)
    solves = [e for e in log if e[0] == 'solve']
    ctx.prove('solved-exactly-once-per-host-step', len(solves) == 1)
    if solves:
        ctx.prove('solved-over-exactly-the-host-step', eq(solves[0][1], time.get(n) - time.get(n - 1)))
        ctx.prove('with-the-configured-integrator', solves[0][2].get('solverType') == 'RK4TYPE')
    ctx.prove('drag-updated-from-the-host-before-solving', [e[0] for e in log] == ['zener', 'solve'] and log[0][1] is m)


_T_USERS = ['coherencyWeak', 'coherencyStrong', 'modulusWeak', 'APBweak', 'APBstrong', 'interfacialWeak', 'SFEweak']


@REG.contract('line-tension/every-mechanism-uses-the-configured-model', [ST + ':StrengthModel.setTmodel'] + [ST + ':StrengthModel.' + f for f in _T_USERS],
              configs=[dict(name=m, model=m) for m in ('simple', 'complex')])
def c_tmodel(ctx, it, cfg):
    """every mixed-dislocation mechanism takes the line tension from the model chosen with setTmodel (at the configured dislocation character and the given
    core radius) -- never from the other model: the result is then a function of that one line tension, which is what makes the mechanisms comparable"""
    s = mk_strength(ctx, it, EFFECTS)
    log = []
    Tval = real(ctx, 'line_tension', lambda v: v > 0)
    s.fields['Tsimple'] = lambda th, r0: (log.append(('simple', th, r0)), Tval)[1]
    s.fields['Tcomplex'] = lambda th, r0: (log.append(('complex', th, r0)), Tval)[1]
    s.setTmodel(cfg['model'])
    r, Ls, r0 = real(ctx, 'r', lambda v: v > 0), real(ctx, 'Ls', lambda v: v > 0), real(ctx, 'r0', lambda v: v > 0)
    ctx.domain_off = 1
    for f in _T_USERS:
        del log[:]
        getattr(s, f)(r, Ls, r0)
        ctx.prove('%s/line-tension-from-the-configured-model-only' % f, len(log) >= 1 and all(e[0] == cfg['model'] and e[1] is s.fields['theta'] and e[2] is r0 for e in log))
    ctx.domain_off = 0


@REG.contract('GrainGrowthModel/reset-restores-the-loaded-normalised-distribution', [GG + ':GrainGrowthModel.LoadDistribution', GG + ':GrainGrowthModel.LoadDistributionFunction',
              GG + ':GrainGrowthModel.reset', GG + ':GrainGrowthModel.__init__'], configs=[dict(name=w, how=w) for w in ('from-data', 'from-a-function')])
def c_gg_reset(ctx, it, cfg):
    """loading a grain size distribution normalises it to unit total grain volume; reset() after any amount of solving returns to exactly that normalised distribution
    (same classes, same grid, clock at zero) -- a second run starts from the same conserved volume as the first.  Grid of 3 classes (constructor argument; values symbolic)"""
    g = it.get(GG, 'GrainGrowthModel')(real(ctx, 'cMin', lambda v: v > 0), real(ctx, 'cMax'), 3, 3, 6)
    ctx.assume(gt(g.pbm.fields['max'], g.pbm.fields['min']))
    nb = g.pbm.bins
    if cfg['how'] == 'from-data':
        D = integer(ctx, 'D', lambda v: v >= 1)
        data = array(ctx, 'grain_radii', (D,), fact=lambda v, i: v > 0)
        g.LoadDistribution(data)
    else:
        dens = array(ctx, 'density', (nb,), fact=lambda v, i: v > 0)
        seen = []
        g.LoadDistributionFunction(lambda R: (seen.append(R), dens)[1])
        ctx.prove('density-function-asked-at-the-class-centres', len(seen) == 1 and seen[0] is g.pbm.fields['PSDsize'])
    loaded, grid = snapshot(g.pbm.fields['PSD']), snapshot(g.pbm.fields['PSDbounds'])
    loaded_arr = g.pbm.fields['PSD']
    m3 = g.pbm.ThirdMoment()
    ctx.assume(gt(m3, 0))            # a non-empty distribution
    # any amount of solving: arbitrary distribution, clock and history
    g.pbm.fields['PSD'] = array(ctx, 'psd_after_solving', (nb,))
    g.fields['time'] = array(ctx, 'time_hist', (integer(ctx, 'steps', lambda v: v >= 1),))
    g.fields['avgR'] = array(ctx, 'avgR_hist', (integer(ctx, 'steps'),))
    g.fields['_z'] = real(ctx, 'drag_left_over')
    g.reset()
    unchanged(ctx, 'distribution-after-reset = loaded normalised distribution', loaded, g.pbm.fields['PSD'])
    unchanged(ctx, 'grid-after-reset = loaded grid', grid, g.pbm.fields['PSDbounds'])
    ctx.prove('reset-does-not-alias-the-stored-copy', g.pbm.fields['PSD'] is not g.fields['_oldPSD'])
    ctx.prove('clock-and-drag-back-to-zero', and_(g.fields['time'].shape[0] == 1, eq(g.fields['time'].get(0), 0), eq(g.fields['_z'], 0)))
    ctx.prove('total-grain-volume-after-reset-is-that-of-the-loaded-distribution', eq(g.pbm.ThirdMoment(), m3))


@REG.contract('computeZenerRadius/drag-is-a-non-negative-sum-over-the-phases', [GG + ':GrainGrowthModel.computeZenerRadius', GG + ':GrainGrowthModel.computeZenerRadiusByN',
              GG + ':GrainGrowthModel.setZenerParameters'], configs=[dict(name=w, which=w) for w in ('recorded-step', 'from-a-distribution')])
def c_zener(ctx, it, cfg):
    """the drag handed to constrainedGrowth (whose contract requires it to be non-negative): the sum over the precipitate phases WITH particles of
    f^m / (K * mean radius), with the phase's own (m, K) where they were set and the global ones otherwise; phases without particles contribute nothing"""
    g = it.get(GG, 'GrainGrowthModel')()
    mA, KA = real(ctx, 'm_A', lambda v: v > 0), real(ctx, 'K_A', lambda v: v > 0)
    mG, KG = real(ctx, 'm_all', lambda v: v > 0), real(ctx, 'K_all', lambda v: v > 0)
    g.setZenerParameters(mG, KG)
    g.setZenerParameters(mA, KA, phase='A')
    before = snapshot(g)
    P = 2
    n = integer(ctx, 'n', lambda v: v >= 0)
    L = integer(ctx, 'L')
    ctx.assume(L > n)
    Ravg = array(ctx, 'Ravg', (L, P), fact=lambda v, i, p: v >= 0)
    vf = array(ctx, 'volFrac', (L, P), fact=lambda v, i, p: and_(v >= 0, v <= 1))
    Vma = real(ctx, 'VmAlpha', lambda v: v > 0)
    mom = [[real(ctx, 'M%d_%d' % (k, p), lambda v: v >= 0) for k in (0, 1, 3)] for p in range(P)]
    xs = [object() for p in range(P)]

    class PBM(object):
        def __init__(self, p): self.p = p
        def _chk(self, x):
            if x is not xs[self.p]:
                raise AssertionError('moment of another phase\'s distribution')
        def ZeroMomentFromN(self, x): self._chk(x); return mom[self.p][0]
        def ThirdMomentFromN(self, x): self._chk(x); return mom[self.p][2]
        def MomentFromN(self, x, k):
            self._chk(x)
            return {0: mom[self.p][0], 1: mom[self.p][1], 3: mom[self.p][2]}[k]

    class V(object):
        def __init__(self, vm): self.Vm = vm

    class Nuc(object):
        def __init__(self, p): self.volumeFactor = real(ctx, 'volumeFactor%d' % p, lambda v: v > 0)

    class Prec(object):
        def __init__(self, p): self.volume, self.nucleation = V(real(ctx, 'VmBeta%d' % p, lambda v: v > 0)), Nuc(p)

    class PD(object):
        pass

    class Mat(object):
        volume = V(Vma)

    class Model(object):
        phases = ['A', 'B']
        pData = PD()
        matrixParameters = Mat()
        precipitateParameters = [Prec(p) for p in range(P)]
        PBM = [PBM(p) for p in range(P)]
    m = Model()
    m.pData.n, m.pData.Ravg, m.pData.volFrac = n, Ravg, vf
    prm = [(mA, KA), (mG, KG)]
    if cfg['which'] == 'recorded-step':
        g.computeZenerRadius(m)
        f = [vf.get(n, p) for p in range(P)]
        R = [Ravg.get(n, p) for p in range(P)]
    else:
        g.computeZenerRadiusByN(m, xs)
        f = [vmin(Vma / m.precipitateParameters[p].volume.Vm * m.precipitateParameters[p].nucleation.volumeFactor * mom[p][2], 1) for p in range(P)]
        R = [ite(eq(mom[p][0], 0), 0, mom[p][1] / mom[p][0]) for p in range(P)]
    z = g.fields['_z']
    want = 0
    for p in range(P):
        want = want + ite(gt(R[p], 0), sym.power(f[p], prm[p][0]) / (prm[p][1] * R[p]), 0)
    ctx.prove('drag = sum over phases with particles of f^m / (K * mean radius), own parameters where set', eq(z, want))
    ctx.prove('drag-non-negative', ge(z, 0))
    ctx.prove('no-particles-no-drag', implies(and_(*[eq(R[p], 0) for p in range(P)]), eq(z, 0)))
    frame(ctx, 'model', g, before, modifies=('_z',))
    ctx.prove('canary/global-parameters-for-every-phase', eq(z, sum(ite(gt(R[p], 0), sym.power(f[p], mG) / (KG * R[p]), 0) for p in range(P))), expect='refuted')


from . import c07 as _c07, c05 as _c05
# grain-size transport is the C07 contract with zero nucleation; the inner solve ends exactly at its end time (C05)
REG.contracts.append(_c07.c_getdXdt.contract)
REG.contracts.append(_c05.c_solve.contract)


# the host side of the coupling: every recorded host step updates the coupled models exactly once, also the step on which a stopping condition fires
# (contract shared with C19); the grain-size grid is extended by the PBM's addSizeClasses (contract shared with C08)
from . import c19 as _c19, c08 as _c08
REG.contracts.append(_c19.c_post.contract)
REG.contracts.append(_c08.c_add.contract)
REG.contracts.append(_c08.c_add_history.contract)
REG.contracts.append(_c08.c_change.contract)      # re-binning of the grain-size grid keeps the grains where they are (same contract as C08)
