"""C06 -- integrators reach their nominal order, also for time-dependent problems (DESIGN 6, C06).

The iterator's real source is executed with an uninterpreted right-hand side F(t, x) and the linear update
x + h*k of DESolver._updateX (proved below).  The arguments of the i-th call of F and the final result are
linear combinations of X_old and the stage values: this EXTRACTS the Butcher tableau (c, A, b) from the code.
The classical order conditions are then checked on the extracted rationals.
"""
from fractions import Fraction
import z3
from kvc.dsl import *
from kvc import sym

REG = Registry('C06')
REG.assumptions += [
    'classical theorem (trusted, Hairer-Norsett-Wanner II.1-2): an explicit Runge-Kutta scheme whose tableau satisfies the order '
    'conditions up to order p (and c_i = sum_j a_ij for non-autonomous problems) has local error O(h^{p+1}) on smooth ODEs',
    'updateX(x, k, h) = x + h*k: the proved postcondition of DESolver._updateX when correctdXdt is the default no-op and flatten is the identity',
]
ITER = 'kawin.solver.Iterators'
SOLV = 'kawin.solver.Solver'


class Lin(object):
    """formal linear combination of named vectors with scalar (possibly symbolic) coefficients"""
    def __init__(self, terms, name=None):
        self.terms = dict(terms)
        self.name = name
        self.mutated = False

    @staticmethod
    def _add(a, b, sb=1):
        t = dict(a.terms)
        for k, v in b.terms.items():
            t[k] = sym.add(t.get(k, 0), sym.mul(sb, v))
        return t

    def __add__(self, o):
        if not isinstance(o, Lin):
            return NotImplemented
        return Lin(Lin._add(self, o))
    __radd__ = __add__

    def __sub__(self, o):
        return Lin(Lin._add(self, o, -1))

    def __mul__(self, s):
        if isinstance(s, Lin):
            return NotImplemented
        return Lin({k: sym.mul(v, s) for k, v in self.terms.items()})
    __rmul__ = __mul__

    def __truediv__(self, s):
        return Lin({k: sym.div(v, s) for k, v in self.terms.items()})

    def __neg__(self):
        return self * -1

    def __iadd__(self, o):
        self.terms = Lin._add(self, o)
        self.mutated = True
        return self

    def __isub__(self, o):
        self.terms = Lin._add(self, o, -1)
        self.mutated = True
        return self

    def __imul__(self, s):
        self.terms = {k: sym.mul(v, s) for k, v in self.terms.items()}
        self.mutated = True
        return self

    def __itruediv__(self, s):
        self.terms = {k: sym.div(v, s) for k, v in self.terms.items()}
        self.mutated = True
        return self


def _rat(ctx, name, coef, dt, power):
    """coef is claimed to be r * dt**power for a rational r: extract r (dt := 1) and prove the claim"""
    coef = sym._generic(coef)
    if isinstance(coef, (int, Fraction)):
        r = Fraction(coef)
        ctx.prove(name + '/linear-in-dt', power == 0 or r == 0)
        return r
    if getattr(ctx, 'replay', False):
        return None
    t = z3.simplify(z3.substitute(sym.zterm(coef, True), (dt.t, z3.RealVal(1))))
    r = sym._num(t)
    if r is None:
        ctx.prove(name + '/linear-in-dt', False)
        return None
    r = Fraction(r)
    ctx.prove(name + '/linear-in-dt', eq(coef, r * (dt if power else 1)))
    return r


def run_iterator(ctx, it, fname):
    dt = real(ctx, 'dt', lambda v: v > 0)
    t = real(ctx, 't')
    X_old = Lin({'X': 1}, 'X_old')
    calls = []

    def f(tt, X, getDt=False):
        k = Lin({'k%d' % (len(calls) + 1): 1}, 'k%d' % (len(calls) + 1))
        calls.append((tt, X, k))
        if getDt:
            # the model is free to propose a different step every time it is asked; only the first request is the step of this call
            return k, (dt if len(calls) == 1 else real(ctx, 'dt_proposed_at_stage%d' % len(calls), lambda v: v > 0))
        return k

    def updateX(x, k, h):
        return x + k * h            # builds a NEW value, as DESolver._updateX does
    fn = it.get(ITER, fname)
    res, rdt = fn(f, t, X_old, updateX)
    return dt, t, X_old, calls, res, rdt


def extract(ctx, dt, t, X_old, calls, res):
    s = len(calls)
    A = [[Fraction(0)] * s for _ in range(s)]
    c = [None] * s
    ok = True
    for i, (tt, X, k) in enumerate(calls):
        ok &= ctx.prove('stage%d/argument-is-X_old-plus-stage-combination' % (i + 1), isinstance(X, Lin) and eq(X.terms.get('X', 0), 1)
                        and all(key == 'X' or (key.startswith('k') and int(key[1:]) <= i) for key in X.terms))
        if not isinstance(X, Lin):
            return None
        for key, v in X.terms.items():
            if key != 'X':
                r = _rat(ctx, 'stage%d/a[%d,%s]' % (i + 1, i + 1, key[1:]), v, dt, 1)
                if r is None:
                    return None
                A[i][int(key[1:]) - 1] = r
        c[i] = _rat(ctx, 'stage%d/time' % (i + 1), tt - t, dt, 1)
        if c[i] is None:
            return None
    ok &= ctx.prove('result/is-X_old-plus-stage-combination', isinstance(res, Lin) and eq(res.terms.get('X', 0), 1))
    b = [Fraction(0)] * s
    for key, v in res.terms.items():
        if key != 'X':
            r = _rat(ctx, 'result/b[%s]' % key[1:], v, dt, 1)
            if r is None:
                return None
            b[int(key[1:]) - 1] = r
    return c, A, b


def order_conditions(c, A, b, order):
    s = len(b)
    R = range(s)
    conds = [('order1: sum b = 1', sum(b), Fraction(1))]
    if order >= 2:
        conds.append(('order2: sum b c = 1/2', sum(b[i] * c[i] for i in R), Fraction(1, 2)))
    if order >= 3:
        conds.append(('order3: sum b c^2 = 1/3', sum(b[i] * c[i] ** 2 for i in R), Fraction(1, 3)))
        conds.append(('order3: sum b a c = 1/6', sum(b[i] * A[i][j] * c[j] for i in R for j in R), Fraction(1, 6)))
    if order >= 4:
        conds.append(('order4: sum b c^3 = 1/4', sum(b[i] * c[i] ** 3 for i in R), Fraction(1, 4)))
        conds.append(('order4: sum b c a c = 1/8', sum(b[i] * c[i] * A[i][j] * c[j] for i in R for j in R), Fraction(1, 8)))
        conds.append(('order4: sum b a c^2 = 1/12', sum(b[i] * A[i][j] * c[j] ** 2 for i in R for j in R), Fraction(1, 12)))
        conds.append(('order4: sum b a a c = 1/24', sum(b[i] * A[i][j] * A[j][k] * c[k] for i in R for j in R for k in R), Fraction(1, 24)))
    return conds


@REG.contract('iterator/tableau-and-order', [ITER + ':ExplicitEulerIterator', ITER + ':RK4Iterator'],
              configs=[dict(name='euler', fn='ExplicitEulerIterator', order=1, stages=1, times=[0]),
                       dict(name='rk4', fn='RK4Iterator', order=4, stages=4, times=[0, Fraction(1, 2), Fraction(1, 2), 1])])
def c_tableau(ctx, it, cfg):
    dt, t, X_old, calls, res, rdt = run_iterator(ctx, it, cfg['fn'])
    ctx.prove('returns-the-step-it-used', eq(rdt, dt))
    ctx.prove('number-of-stages', len(calls) == cfg['stages'])
    ctx.prove('state-vector-given-is-not-modified', not X_old.mutated and X_old.terms == {'X': 1})
    ctx.prove('stage-arguments-are-new-values', all(X is not None and (i == 0 or X is not X_old) for i, (tt, X, k) in enumerate(calls)))
    tab = extract(ctx, dt, t, X_old, calls, res)
    ctx.prove('tableau-extracted', tab is not None)
    if tab is None:
        return
    c, A, b = tab
    ctx.trace.append('extracted tableau %s: c=%s A=%s b=%s' % (cfg['fn'], [str(x) for x in c], [[str(x) for x in r] for r in A], [str(x) for x in b]))
    ctx.prove('explicit (strictly lower triangular A)', all(A[i][j] == 0 for i in range(len(b)) for j in range(i, len(b))))
    for i, want in enumerate(cfg['times']):
        ctx.prove('documented-stage-time/stage%d at t+%s*dt' % (i + 1, want), i < len(c) and c[i] == want)
    for i in range(len(c)):
        ctx.prove('row-sum-consistency/c%d = sum_j a_%dj (non-autonomous order)' % (i + 1, i + 1), c[i] == sum(A[i]))
    for name, lhs, rhs in order_conditions(c, A, b, cfg['order']):
        ctx.prove('order-condition/' + name, lhs == rhs)
    # the scheme must not be of higher order by accident of the test (sanity canary): order p+1 condition fails
    nxt = order_conditions(c, A, b, cfg['order'] + 1) if cfg['order'] < 4 else [('order5: sum b c^4 = 1/5', sum(b[i] * c[i] ** 4 for i in range(len(b))), Fraction(1, 5))]
    ctx.prove('canary/one-order-higher', all(l == r for _, l, r in nxt), expect='refuted')


@REG.contract('_updateX/linear-update', [SOLV + ':DESolver._updateX'])
def c_updatex(ctx, it, cfg):
    n = integer(ctx, 'n', lambda v: v >= 0)
    x = array(ctx, 'x', (n,))
    dxdt = array(ctx, 'dxdt', (n,))
    dt = real(ctx, 'dt')
    log = []
    X0 = object()

    def unflatten(v, ref):
        log.append(('unflatten', v, ref))
        return [v]

    def flatten(v):
        log.append(('flatten', v))
        return v[0]
    corrected = array(ctx, 'dxdt_corrected', (n,))

    def correct(h, x0, d):
        # the model's correction hook may REPLACE entries of the unflattened derivative (PrecipitateModel._correctdXdt does: dXdt[p] = ...);
        # the state must then advance with the corrected derivative, not with the flat array the iterator passed in
        log.append(('correct', h, x0, d))
        d[0] = corrected
    o = new_obj(it, SOLV, 'DESolver', _X0=X0, _unflattenX=unflatten, _flattenX=flatten, _correctdXdt=correct,
                _dtmin=real(ctx, '_dtmin'), _dtmax=real(ctx, '_dtmax'), dtmin=real(ctx, 'dtmin'), dtmax=real(ctx, 'dtmax'))
    sx, sd = snapshot(x), snapshot(dxdt)
    r = o._updateX(x, dxdt, dt)
    ctx.prove('result-is-new-array', isinstance(r, ArrBase) and r is not x and r is not dxdt)
    forall(ctx, 'x-plus-dt-times-the-corrected-derivative', 0, n, lambda i: eq(r.get(i), x.get(i) + corrected.get(i) * dt))
    unchanged(ctx, 'arg:x', sx, x)
    unchanged(ctx, 'arg:dxdt', sd, dxdt)
    cs = [e for e in log if e[0] == 'correct']
    ctx.prove('correction-hook-called-once-with-step-and-reference', len(cs) == 1 and eq(cs[0][1], dt) and cs[0][2] is X0)
    forall(ctx, 'canary/no-step', 0, n, lambda i: eq(r.get(i), x.get(i) + corrected.get(i)), expect='refuted')


@REG.contract('iterator/array-state-not-modified', [ITER + ':ExplicitEulerIterator', ITER + ':RK4Iterator'],
              configs=[dict(name='euler', fn='ExplicitEulerIterator'), dict(name='rk4', fn='RK4Iterator')])
def c_frame(ctx, it, cfg):
    """same iterators on real (symbolic) numpy arrays: X_old keeps its contents"""
    n = integer(ctx, 'n', lambda v: v >= 0)
    X_old = array(ctx, 'X_old', (n,))
    dt = real(ctx, 'dt')
    cnt = [0]

    def f(t, X, getDt=False):
        cnt[0] += 1
        k = array(ctx, 'k%d' % cnt[0], (n,))
        return (k, dt) if getDt else k

    def updateX(x, k, h):
        return x + k * h
    s = snapshot(X_old)
    res, rdt = it.get(ITER, cfg['fn'])(f, real(ctx, 't'), X_old, updateX)
    unchanged(ctx, 'arg:X_old', s, X_old)
    ctx.prove('result-is-not-the-input-object', res is not X_old)


# the solver loop must advance time by exactly the step over which the iterator advanced the state; otherwise
# the recorded solution carries an O(1) error however small the step (same contract as C05's solve loop)
from . import c05 as _c05
REG.contracts.append(_c05.c_solve.contract)
REG.contracts.append(_c05.c_clamp.contract)
# stage times reach the models also through a Coupler: the time given by the iterator is forwarded to every coupled model (same contract as C05)
REG.contracts.append(_c05.c_coupler.contract)
REG.contracts.append(_c05.c_gm_solve.contract)
REG.contracts.append(_c05.c_flat.contract)
