"""C03 -- precipitation runs are well formed for every configuration and survive backend faults (DESIGN 6, C03)."""
from kvc.dsl import *
from kvc import sym
from .kwn import *
from . import c01 as _c01, c05 as _c05, c08 as _c08, c13 as _c13, c02 as _c02

REG = Registry('C03')
REG.assumptions += list(_c01.REG.assumptions[:4]) + [
    'fault model: every growth / equilibrium query of the thermodynamics backend may return None (a fresh boolean per call = all fault sequences); '
    'driving-force and impingement queries are assumed to return values (the code has no None handling for them: observation)',
    'time: strictly increasing, never beyond the end time, ends exactly at the end time -- the solver-loop contract of C05, re-checked here',
]
REG.undecided += [
    'finiteness (no NaN/inf) beyond the structural clauses proved (division by a zero density is excluded by the no-precipitates branch; floats are mathematical reals here)',
    'total precipitate fraction <= 1 and matrix composition <= 1: the code caps each phase at 1, not the sum, and nothing bounds (x0 - sum fconc)/(1 - sum fv) from above; '
    'would need the closed-loop thermodynamic feedback (not a postcondition of any function here)',
]
# alignment of the 16 histories + recorded time/temperature per accepted step
REG.contracts.append(_c13.c_record.contract)
# ranges: 0 <= volFrac <= 1, Ravg >= 0, density >= 0, composition >= 0, zero statistics when a phase has no precipitates
REG.contracts.append(_c01.c_mass.contract)
# populations are 0 or >= 1 (never negative) after every update; grid stays consistent
REG.contracts.append(_c08.c_update.contract)
REG.contracts.append(_c02.c_update_psd.contract)
# time contract
REG.contracts.append(_c05.c_solve.contract)
REG.contracts.append(_c05.c_clamp.contract)


class FaultyTherm(object):
    """multicomponent backend whose growth query fails (returns None) at arbitrary calls"""
    numElements = 3

    def __init__(self, ctx, E, log):
        self.ctx, self.E, self.log = ctx, E, log

    def getGrowthAndInterfacialComposition(self, x, T, dG, R, gExtra, precPhase=None, removeCache=False, searchDir=None):
        k = len(self.log)
        fail = boolean(self.ctx, 'backend_fails_%d' % k)
        if fail:
            self.log.append(('growth', precPhase, True))
            return None
        self.log.append(('growth', precPhase, False))
        n = R.shape[0] if isinstance(R, ArrBase) else 1
        return (array(self.ctx, 'g%d' % k, (n,)), array(self.ctx, 'xa%d' % k, (n, self.E)), array(self.ctx, 'xb%d' % k, (n, self.E)),
                array(self.ctx, 'xea%d' % k, (self.E,)), array(self.ctx, 'xeb%d' % k, (self.E,)))


def _with_kinetics(m, ctx, P):
    for p, prm in enumerate(m.fields['precipitateParameters']):
        prm.shapeFactor.kineticFactor = (lambda R, p=p: array(ctx, 'kin%d' % p, R.shape, fact=lambda v, *i: v > 0))
    m.fields['particleGibbs'] = lambda radius=None, phase=None: 'gibbs'
    m.fields['_precBetaTemp'] = [None] * P


@REG.contract('_singleGrowthMulti/backend-faults', [KE + ':PrecipitateModel._singleGrowthMulti', KE + ':PrecipitateModel._growthRateMulti'],
              configs=[dict(name='P=%d' % P, P=P) for P in (1, 2)], max_paths=300)
def c_growth_faults(ctx, it, cfg):
    P, E = cfg['P'], 2
    m, pd, n = mk_kwn(ctx, it, P, E)
    log = []
    m.fields['therm'] = FaultyTherm(ctx, E, log)
    _with_kinetics(m, ctx, P)
    prev_growth = [array(ctx, 'prev_growth%d' % p, (m.fields['PBM'][p].bins + 1,)) for p in range(P)]
    m.fields['growth'] = list(prev_growth)
    Y = mk_slice(ctx, it, P, E)
    growth, Y2 = m._growthRateMulti(Y)                     # must not raise, whatever the backend does
    ctx.prove('returns-the-slice', Y2 is Y)
    ctx.prove('one-growth-array-per-phase', isinstance(growth, list) and len(growth) == P)
    xa, xb = Y.fields['xEqAlpha'], Y.fields['xEqBeta']
    for nm, a in (('xEqAlpha', xa), ('xEqBeta', xb)):
        ok = isinstance(a, ArrBase) and a.ndim == 3
        ctx.prove('slice-stays-one-row/%s' % nm, and_(eq(a.shape[0], 1), eq(a.shape[1], P), eq(a.shape[2], E)) if ok else False)
    calls = {}
    for e in log:
        calls.setdefault(e[1], []).append(e[2])
    for p in range(P):
        bins = m.fields['PBM'][p].bins
        g = growth[p]
        ctx.prove('phase%d/growth-has-one-value-per-class-boundary' % p, and_(isinstance(g, ArrBase) and g.ndim == 1, eq(g.shape[0], bins + 1)) if isinstance(g, ArrBase) else False)
        dG = Y.fields['drivingForce'].get(0, p)
        dens = Y.fields['precipitateDensity'].get(0, p)
        fails = calls.get(PHASES[p], [])
        failed = bool(fails) and fails[0] is True
        if failed:
            keep = ge(dG, 0)
            # "continues from the last valid values": previous growth rate and the equilibrium compositions of the last recorded step
            if isinstance(g, ArrBase):
                forall(ctx, 'phase%d/failed-query-keeps-previous-growth-rate-while-driving-force-is-not-negative' % p, 0, bins + 1,
                       lambda i, p=p, g=g: implies(keep, eq(g.get(i), prev_growth[p].get(i))))
            ctx.prove('phase%d/failed-query-keeps-last-valid-equilibrium-compositions' % p,
                      implies(keep, and_(*[and_(eq(xa.get(0, p, e), pd.fields['xEqAlpha'].get(n, p, e)), eq(xb.get(0, p, e), pd.fields['xEqBeta'].get(n, p, e))) for e in range(E)])))
            ctx.prove('phase%d/failed-query-with-negative-driving-force-stops-growth' % p,
                      implies(lt(dG, 0), and_(*[and_(eq(xa.get(0, p, e), 0), eq(xb.get(0, p, e), 0)) for e in range(E)])))
        ctx.prove('phase%d/backend-asked-at-most-once' % p, len(fails) <= 1)
    ctx.prove('canary/backend-never-fails', not any(f is True for fs in calls.values() for f in fs), expect='refuted')


@REG.contract('_updateParticleSizeDistribution/phase-reset-path', [KE + ':PrecipitateModel._updateParticleSizeDistribution', PBM_MOD + ':PopulationBalanceModel.reset'],
              configs=[dict(name='E=%d' % E, E=E) for E in (1, 2)])
def c_reset_path(ctx, it, cfg):
    """negative driving force and no equilibrium: the phase is reset; every per-class array must have the size of the RESET grid"""
    E = cfg['E']
    m, pd, n = mk_kwn(ctx, it, 1, E)
    pbm = m.fields['PBM'][0]
    x = [array(ctx, 'x0', (pbm.bins,), fact=lambda v, i: v >= 0)]
    m.fields['growth'] = [array(ctx, 'growth0', (pbm.bins + 1,))]
    ctx.assume(lt(pd.fields['drivingForce'].get(n, 0), 0))
    for e in range(E):
        ctx.assume(eq(pd.fields['xEqAlpha'].get(n, 0, e), 0))
    m._updateParticleSizeDistribution(real(ctx, 't'), x)
    nb = pbm.bins
    ctx.prove('grid-reset-to-original', and_(eq(nb, pbm.originalBins), eq(pbm.min, pbm.originalMin), eq(pbm.max, pbm.originalMax)))
    forall(ctx, 'distribution-empty', 0, nb, lambda i: eq(pbm.PSD.get(i), 0))
    g = m.fields['growth'][0]
    ctx.prove('growth-array-matches-the-reset-grid', and_(isinstance(g, ArrBase) and g.ndim == 1, eq(g.shape[0], nb + 1)))
    for nm in ('PSDXalpha', 'PSDXbeta'):
        a = m.fields[nm][0]
        ctx.prove('%s-matches-the-reset-grid' % nm, and_(isinstance(a, ArrBase) and a.ndim == 2, eq(a.shape[0], nb + 1), eq(a.shape[1], E)))


# recorded size distributions are part of a run's output: what is recorded for a step is the cleaned, non-negative distribution of that step (shared with C08);
from . import c08 as _c08, c14 as _c14
REG.contracts.append(_c08.c_update_recorded.contract)
REG.contracts.append(_c08.c_update.contract)


@REG.contract('nucleationBarrier/no-nucleus-without-driving-force', ['kawin.precipitation.NucleationRate:nucleationBarrier'],
              configs=[dict(name=s_, site=s_) for s_ in ('bulk', 'grain boundaries')])
def c_barrier_zero(ctx, it, cfg):
    """a driving force that is exactly zero or negative (matrix on or beyond the phase boundary) gives critical radius 0 and barrier 0 -- no division by it,
    so no inf/NaN enters the histories (the caller only skips strictly negative values)"""
    prm = _c14.PrecStub(ctx, it, cfg['site'])
    nb = it.get('kawin.precipitation.NucleationRate', 'nucleationBarrier')
    dG = real(ctx, 'dG', lambda v: v <= 0)
    R, G = nb(dG, prm, 1)
    ctx.prove('radius-and-barrier-are-zero', and_(eq(R, 0), eq(G, 0)))
    R0, G0 = nb(0, prm, 1)
    ctx.prove('exactly-zero-driving-force', and_(eq(R0, 0), eq(G0, 0)))

# a run continued from a loaded state keeps its clock (step counter and histories come back: contract shared with C20); a run stops early only when its
# stopping conditions say so (or/and decision: contract shared with C19)
from . import c20 as _c20, c19 as _c19
REG.contracts.append(_c20.c_precip.contract)
REG.contracts.append(_c19.c_post.contract)

# a failed equilibrium inside an impingement / growth query: None for growth (handled by the fault paths above), the last valid value for the impingement rate -- never a
# None that numpy would silently turn into NaN in the nucleation rate (C09 contract on the real MulticomponentThermodynamics methods)
from . import c09 as _c09
REG.contracts.append(_c09.c_mt_options.contract)
# the shape factors entering the growth rate are defined at aspect ratio exactly 1 (the needle / plate / cuboid formulas are 0/0 there and would put NaN into every
# later history row): C15 contract on the real description classes
from . import c15 as _c15
REG.contracts.append(_c15.c_at_one.contract)
