"""C08 -- size-class grid operations stay consistent and conserve particle volume (DESIGN 6, C08)."""
from kvc.dsl import *
from .common import *

REG = Registry('C08')
REG.assumptions += [
    'np.interp: assumed contract (result has the shape of its first argument; non-negative ordinates give non-negative values)',
    'np.histogram: assumed contract (counts >= 0, one per bin, edges returned unchanged)',
    'operation histories: every public operation is proved to re-establish PBM_INV from an ARBITRARY state satisfying PBM_INV, '
    'so the invariant holds after any sequence of operations (induction over the history; the induction principle itself is trusted)',
    'adjustSizeClassesEuler(checkDissolution=True) requires int(minBins/2) < bins (true when bins >= minBins, as after construction with the defaults '
    'and after every re-mesh); otherwise the code indexes PSDsize out of range',
]
REG.undecided += [
    're-meshing preserves the third moment "whenever the new grid covers the populated range": proved under the code\'s own guard newV != 0; '
    'that covering the populated range implies newV != 0 depends on np.interp values (it is false for an isolated class between new centres: known finding)',
]
T = PBM_MOD + ':PopulationBalanceModel.'


def backup_inv_fields(ctx, tag=''):
    """backup grid: a valid grid of its own (needed by revert)"""
    pb = integer(ctx, tag + 'pbins', lambda v: v >= 1)
    pmn = real(ctx, tag + 'pmin', lambda v: v >= 0)
    pw = real(ctx, tag + 'pw', lambda v: v > 0)
    prevb = Arr((pb + 1,), lambda i: pmn + to_real(i) * pw, 'real', name='_prevPSDbounds')
    prev = array(ctx, tag + '_prevPSD', (pb,), fact=lambda v, i: v >= 0)
    return dict(_prevPSD=prev, _prevPSDbounds=prevb), (pb, pmn, pw)


def mk(ctx, it, **kw):
    extra, g = backup_inv_fields(ctx)
    extra.update(kw.pop('extra', {}))
    o, w = pbm_obj(ctx, it, extra=extra, **kw)
    return o, w, g


def backup_inv(ctx, prefix, o):
    f = o.fields
    pb, pp = f['_prevPSDbounds'], f['_prevPSD']
    good = isinstance(pb, ArrBase) and isinstance(pp, ArrBase) and pb.ndim == 1 and pp.ndim == 1
    ctx.prove(prefix + '/inv/backup-lengths', and_(eq(pb.shape[0], pp.shape[0] + 1), ge(pp.shape[0], 1)) if good else False, kind='invariant')
    if not good:
        return
    n = pp.shape[0]
    forall(ctx, prefix + '/inv/backup-bounds-increasing', 0, n, lambda i: lt(pb.get(i), pb.get(i + 1)), kind='invariant')
    forall(ctx, prefix + '/inv/backup-bounds-equidistant', 0, n - 1, lambda i: eq(pb.get(i + 2) - pb.get(i + 1), pb.get(i + 1) - pb.get(i)), kind='invariant')
    forall(ctx, prefix + '/inv/backup-PSD>=0', 0, n, lambda i: ge(pp.get(i), 0), kind='invariant')


def full_inv(ctx, prefix, o):
    pbm_inv(ctx, prefix, o)
    backup_inv(ctx, prefix, o)


# ---------------------------------------------------------------------------------------------------
@REG.contract('__init__', [T + '__init__', T + 'reset', T + 'setBinConstraints'])
def c_init(ctx, it, cfg):
    cMin = real(ctx, 'cMin', lambda v: v >= 0)
    cMax = real(ctx, 'cMax')
    ctx.assume(cMax > cMin)
    bins = integer(ctx, 'bins', lambda v: v >= 1)
    minBins = integer(ctx, 'minBins', lambda v: v >= 1)
    maxBins = integer(ctx, 'maxBins')
    ctx.assume(maxBins >= minBins)
    P = it.get(PBM_MOD, 'PopulationBalanceModel')
    o = P(cMin, cMax, bins, minBins, maxBins)
    full_inv(ctx, 'new', o)
    ctx.prove('min-is-cMin', eq(o.min, cMin))
    ctx.prove('max-is-at-least-a-decade', and_(eq(o.max, vmax(10 * cMin, cMax))))
    ctx.prove('class-count', and_(eq(o.bins, bins), eq(o.originalBins, bins), eq(o.minBins, minBins), eq(o.maxBins, maxBins)))
    forall(ctx, 'empty', 0, bins, lambda i: eq(o.PSD.get(i), 0))
    ctx.prove('originals-stored', and_(eq(o.originalMin, cMin), eq(o.originalMax, o.max)))


@REG.contract('reset', [T + 'reset'], configs=[dict(name='resetBounds', rb=True), dict(name='keepBounds', rb=False)])
def c_reset(ctx, it, cfg):
    o, w, g = mk(ctx, it)
    pre = snapshot(o)
    o.reset(cfg['rb'])
    full_inv(ctx, 'after', o)
    if cfg['rb']:
        ctx.prove('restores-initial-grid', and_(eq(o.min, o.originalMin), eq(o.max, o.originalMax), eq(o.bins, o.originalBins)))
    else:
        ctx.prove('keeps-current-grid', and_(eq(o.min, pre['min'].value), eq(o.max, pre['max'].value), eq(o.bins, pre['bins'].value)))
    forall(ctx, 'distribution-cleared', 0, o.bins, lambda i: eq(o.PSD.get(i), 0))
    frame(ctx, 'self', o, pre, modifies=['min', 'max', 'bins', 'PSDbounds', 'PSDsize', 'PSD', '_prevPSD', '_prevPSDbounds', '_netFlux'])


@REG.contract('addSizeClasses', [T + 'addSizeClasses'])
def c_add(ctx, it, cfg):
    o, w, g = mk(ctx, it)
    k = integer(ctx, 'k', lambda v: v >= 0)
    pre = snapshot(o)
    bins0, mx0 = o.bins, o.max
    b0, p0 = o.PSDbounds.snap(), o.PSD.snap()
    o.addSizeClasses(k)
    full_inv(ctx, 'after', o)
    ctx.prove('class-count-grows-by-k', eq(o.bins, bins0 + k))
    ctx.prove('max-grows-by-k-widths', eq(o.max, mx0 + k * w))
    forall(ctx, 'existing-boundaries-untouched', 0, bins0 + 1, lambda i: eq(o.PSDbounds.get(i), b0(i)))
    forall(ctx, 'existing-populations-untouched', 0, bins0, lambda i: eq(o.PSD.get(i), p0(i)))
    forall(ctx, 'new-classes-empty', bins0, bins0 + k, lambda i: eq(o.PSD.get(i), 0))
    forall(ctx, 'class-width-unchanged', 0, bins0 + k, lambda i: eq(o.PSDbounds.get(i + 1) - o.PSDbounds.get(i), w))
    frame(ctx, 'self', o, pre, modifies=['max', 'bins', 'PSDbounds', 'PSDsize', 'PSD'])
    forall(ctx, 'canary/grid-rescaled', 0, bins0 + 1, lambda i: eq(o.PSDbounds.get(i) * (bins0 + k), (o.min * (bins0 + k) + to_real(i) * (mx0 - o.min))), expect='refuted')


@REG.contract('changeSizeClasses', [T + 'changeSizeClasses', T + 'ThirdMoment'],
              configs=[dict(name='remesh', reset=False, bins=True), dict(name='remesh-same-count', reset=False, bins=False), dict(name='resetPSD', reset=True, bins=True)])
def c_change(ctx, it, cfg):
    o, w, g = mk(ctx, it)
    cMin = real(ctx, 'cMin', lambda v: v >= 0)
    cMax = real(ctx, 'cMax')
    ctx.assume(cMax > cMin)
    nb = integer(ctx, 'newBins', lambda v: v >= 1) if cfg['bins'] else None
    pre = snapshot(o)
    oldV = o.ThirdMoment()
    bins0 = o.bins
    o.changeSizeClasses(cMin, cMax, nb, cfg['reset'])
    if cfg['reset']:
        # observation (not part of C08): with resetPSD=True the code calls reset(), which restores the ORIGINAL grid and
        # discards the requested one; only consistency and emptiness are required here
        forall(ctx, 'distribution-cleared', 0, o.bins, lambda i: eq(o.PSD.get(i), 0))
        full_inv(ctx, 'after', o)
        return
    ctx.prove('class-count', eq(o.bins, nb if cfg['bins'] else bins0))
    ctx.prove('new-range', and_(eq(o.min, cMin), eq(o.max, vmax(10 * cMin, cMax))))
    full_inv(ctx, 'after', o)
    newV = o.ThirdMoment()
    # third moment: either preserved exactly, or the whole distribution was mapped to zero (the code's newV == 0 branch)
    PSD = o.PSD
    allzero = ctx.fresh('allzero', 'bool') if not getattr(ctx, 'replay', False) else None
    i = integer(ctx, 'i_any')
    ctx.prove('third-moment-preserved-or-distribution-vanished',
              or_(eq(newV, oldV), implies(and_(i >= 0, i < o.bins), eq(PSD.get(i), 0))), inst=[i])
    ctx.prove('third-moment-never-changes-to-a-different-nonzero-value', or_(eq(newV, oldV), eq(newV, 0)))
    # the distribution may only vanish when the interpolated distribution itself carries no volume
    if not getattr(ctx, 'replay', False):
        interps = getattr(ctx, 'interps', [])
        ctx.prove('interpolation-used-once', len(interps) == 1)
        if len(interps) == 1:
            P = interps[0]
            b, s = o.PSDbounds, o.PSDsize
            V0 = NP.sum(Arr((o.bins,), lambda i: P.get(i) * (b.get(i + 1) - b.get(i)) * power(s.get(i), 3)))
            ctx.prove('third-moment-preserved-unless-interpolated-volume-is-zero', implies(not_(eq(V0, 0)), eq(newV, oldV)))
            # what is interpolated: the number DENSITY of the old distribution, attached to the old class CENTRES, evaluated at the new class centres
            xq, xp_, fp_ = P.interp_of
            bo, po = pre['PSDbounds'].fn, pre['PSD'].fn
            forall(ctx, 'interpolation/old-classes-are-represented-by-their-centres', 0, bins0, lambda i: eq(2 * xp_.get(i), bo(i) + bo(i + 1)))
            forall(ctx, 'interpolation/ordinates-are-the-old-number-densities', 0, bins0, lambda i: eq(fp_.get(i) * (bo(i + 1) - bo(i)), po(i)))
            forall(ctx, 'interpolation/evaluated-at-the-new-centres', 0, o.bins, lambda i: eq(xq.get(i), s.get(i)))
    frame(ctx, 'self', o, pre, modifies=['min', 'max', 'bins', 'PSDbounds', 'PSDsize', 'PSD', '_prevPSD', '_prevPSDbounds', '_netFlux'])
    ctx.prove('canary/number-preserved-instead', eq(NP.sum(o.PSD), NP.sum(pre['PSD'].value)), expect='refuted')


@REG.contract('adjustSizeClassesEuler', [T + 'adjustSizeClassesEuler', T + 'addSizeClasses', T + 'changeSizeClasses'],
              configs=[dict(name='adaptive,check', ad=True, cd=True), dict(name='adaptive', ad=True, cd=False),
                       dict(name='fixed,check', ad=False, cd=True), dict(name='fixed', ad=False, cd=False)], max_paths=200)
def c_adjust(ctx, it, cfg):
    o, w, g = mk(ctx, it, extra=dict(_adaptiveBinSize=cfg['ad']))
    ctx.assume(o.originalBins >= 4)
    if cfg['cd']:
        ctx.assume(2 * o.bins > o.minBins)          # stated precondition: int(minBins/2) < bins
    pre = snapshot(o)
    bins0 = o.bins
    b0, p0 = o.PSDbounds.snap(), o.PSD.snap()
    change, newIdx = o.adjustSizeClassesEuler(cfg['cd'])
    full_inv(ctx, 'after', o)
    if cfg['ad']:
        ctx.prove('adaptive-never-leaves-more-than-maxBins', le(o.bins, o.maxBins))
    remeshed = newIdx is None and change is True
    extended = newIdx is not None
    ctx.prove('return/change-flag-iff-grid-changed', (change is True) == (remeshed or extended) and isinstance(change, bool))
    if extended:
        ctx.prove('return/new-indices-is-old-class-count', eq(newIdx, bins0))
        ctx.prove('extended-only-when-last-class-populated', gt(p0(bins0 - 1), 1))
        forall(ctx, 'extend/existing-boundaries-untouched', 0, bins0 + 1, lambda i: eq(o.PSDbounds.get(i), b0(i)))
        forall(ctx, 'extend/existing-populations-untouched', 0, bins0, lambda i: eq(o.PSD.get(i), p0(i)))
        ctx.prove('extend/adds-quarter-of-original', eq(o.bins, bins0 + sym.trunc_int(to_real(o.originalBins) / 4)))
    if not change:
        frame(ctx, 'unchanged/self', o, pre, modifies=[])
        # the grid stays as it is only if nothing has reached the last class: a populated last class always gets room above it (adaptive or not),
        # otherwise particles leave the distribution through the upper end
        ctx.prove('grid-left-alone-only-while-the-last-class-is-empty', le(p0(bins0 - 1), 1))
    if not cfg['ad'] and not extended:
        ctx.prove('fixed-binning-never-remeshes', change is False)


@REG.contract('createBackup-revert', [T + 'createBackup', T + 'revert'],
              configs=[dict(name='backup-then-revert', ops='br'), dict(name='backup-modify-revert', ops='bmr'), dict(name='revert-from-any-state', ops='r')])
def c_backup(ctx, it, cfg):
    o, w, g = mk(ctx, it)
    pre = snapshot(o)
    b0, p0, s0 = o.PSDbounds.snap(), o.PSD.snap(), o.PSDsize.snap()
    bins0, mn0, mx0 = o.bins, o.min, o.max
    if 'b' in cfg['ops']:
        o.createBackup()
        full_inv(ctx, 'after-backup', o)
        frame(ctx, 'backup/self', o, pre, modifies=['_prevPSD', '_prevPSDbounds'])
    if 'm' in cfg['ops']:
        o.addSizeClasses(integer(ctx, 'k', lambda v: v >= 0))
        o.PSD[integer(ctx, 'j', lambda v: v >= 0, lambda v: v < bins0)] = real(ctx, 'v', lambda v: v >= 0)
    o.revert()
    full_inv(ctx, 'after-revert', o)
    if 'b' in cfg['ops']:
        ctx.prove('restored/class-count-and-range', and_(eq(o.bins, bins0), eq(o.min, mn0), eq(o.max, mx0)))
        forall(ctx, 'restored/boundaries', 0, bins0 + 1, lambda i: eq(o.PSDbounds.get(i), b0(i)))
        forall(ctx, 'restored/populations', 0, bins0, lambda i: eq(o.PSD.get(i), p0(i)))
        forall(ctx, 'restored/centres', 0, bins0, lambda i: eq(o.PSDsize.get(i), s0(i)))


@REG.contract('UpdatePBMEuler', [T + 'UpdatePBMEuler', T + 'record'])
def c_update(ctx, it, cfg):
    o, w, g = mk(ctx, it)
    newN = array(ctx, 'newN', (o.bins,), fact=lambda v, i: v >= 0)
    n0 = newN.snap()
    pre = snapshot(o)
    o.UpdatePBMEuler(real(ctx, 'time'), newN)
    full_inv(ctx, 'after', o)
    forall(ctx, 'classes-below-one-removed', 0, o.bins, lambda i: eq(o.PSD.get(i), ite(ge(n0(i), 1), n0(i), 0)))
    forall(ctx, 'population-is-zero-or-at-least-one', 0, o.bins, lambda i: or_(eq(o.PSD.get(i), 0), ge(o.PSD.get(i), 1)))
    frame(ctx, 'self', o, pre, modifies=['PSD'])


@REG.contract('Load-Normalize', [T + 'LoadDistribution', T + 'LoadDistributionFunction', T + 'Normalize', T + 'NormalizeToMoment'],
              configs=[dict(name='LoadDistribution', op='ld'), dict(name='LoadDistributionFunction', op='lf'),
                       dict(name='Normalize', op='n'), dict(name='NormalizeToMoment0', op='m', order=0), dict(name='NormalizeToMoment3', op='m', order=3)])
def c_load(ctx, it, cfg):
    o, w, g = mk(ctx, it)
    pre = snapshot(o)
    p0 = o.PSD.snap()
    if cfg['op'] == 'ld':
        o.LoadDistribution(array(ctx, 'data', (integer(ctx, 'ndata', lambda v: v >= 0),)))
    elif cfg['op'] == 'lf':
        dens = array(ctx, 'density', (o.bins,), fact=lambda v, i: v >= 0)
        o.LoadDistributionFunction(lambda R: dens)
    elif cfg['op'] == 'n':
        tot = o.WeightedMoment(0, o.PSDbounds[1:] - o.PSDbounds[:-1])
        ctx.assume(tot > 0)            # a non-empty distribution (Normalize of an empty one divides by zero)
        o.Normalize()
        forall(ctx, 'scaled-by-total', 0, o.bins, lambda i: eq(o.PSD.get(i) * tot, p0(i)))
    else:
        tot = o.Moment(cfg['order'])
        ctx.assume(tot > 0)
        o.NormalizeToMoment(cfg['order'])
        forall(ctx, 'scaled-by-moment', 0, o.bins, lambda i: eq(o.PSD.get(i) * tot, p0(i)))
        S = o.Moment(cfg['order'])
        ctx.prove('moment-becomes-one', eq(S, 1))
    full_inv(ctx, 'after', o)
    frame(ctx, 'self', o, pre, modifies=['PSD', 'PSDbounds'] if cfg['op'] == 'ld' else ['PSD'])


_MOMENTS = [('MomentFromN', 'k', False, False), ('WeightedMomentFromN', 'k', True, False), ('CumulativeMomentFromN', 'k', False, True),
            ('CumulativeWeightedMomentFromN', 'k', True, True), ('ZeroMomentFromN', 0, False, False), ('FirstMomentFromN', 1, False, False),
            ('SecondMomentFromN', 2, False, False), ('ThirdMomentFromN', 3, False, False)]
_SELF_MOMENTS = [('Moment', 'k', False, False), ('WeightedMoment', 'k', True, False), ('CumulativeMoment', 'k', False, True),
                 ('CumulativeWeightedMoment', 'k', True, True), ('ZeroMoment', 0, False, False), ('FirstMoment', 1, False, False),
                 ('SecondMoment', 2, False, False), ('ThirdMoment', 3, False, False)]


def _moment_cfgs(lst, prefix):
    out = []
    for name, order, weighted, cumulative in lst:
        orders = [0, 1, 2, 3] if order == 'k' else [order]
        for k in orders:
            out.append(dict(name='%s%s' % (name, '(order=%d)' % k if order == 'k' else ''), fn=name, order=k, give_order=order == 'k',
                            weighted=weighted, cumulative=cumulative))
    return out


def _check_moment(ctx, o, N, wts, cfg, res):
    size = o.PSDsize
    term = lambda i: N.get(i) * power(size.get(i), cfg['order']) * (wts.get(i) if wts is not None else 1)
    bins = o.bins
    if cfg['cumulative']:
        good = isinstance(res, ArrBase) and res.ndim == 1
        ctx.prove('cumulative-shape', eq(res.shape[0], bins) if good else False)
        if good:
            ctx.prove('cumulative-starts-with-first-class', eq(res.get(0), term(0)), inst=[0])
            forall(ctx, 'cumulative-increments-are-the-class-terms', 1, bins, lambda i: eq(res.get(i) - res.get(i - 1), term(i)))
    else:
        spec = NP.sum(Arr((bins,), term))
        ctx.prove('is-sum-over-classes-of-N*R^k%s' % ('*w' if cfg['weighted'] else ''), (not isinstance(res, ArrBase)) and eq(res, spec))


@REG.contract('moments-from-argument', [T + m[0] for m in _MOMENTS], configs=_moment_cfgs(_MOMENTS, ''))
def c_moment_fromN(ctx, it, cfg):
    """every *FromN(N, ...) is a function of N, the grid and the weights only: it never reads self.PSD"""
    o, w, g = mk(ctx, it)
    N = array(ctx, 'N', (o.bins,))
    wts = array(ctx, 'weights', (o.bins,)) if cfg['weighted'] else None
    args = [N] + ([cfg['order']] if cfg['give_order'] else []) + ([wts] if cfg['weighted'] else [])
    pre = snapshot(o)
    sN = snapshot(N)
    ctx.reads.clear()
    res = getattr(o, cfg['fn'])(*args)
    reads = set(ctx.reads)
    ctx.prove('does-not-read-the-stored-distribution', (id(o), 'PSD') not in reads)
    _check_moment(ctx, o, N, wts, cfg, res)
    frame(ctx, 'self', o, pre, modifies=[])
    unchanged(ctx, 'arg:N', sN, N)


@REG.contract('moments-of-stored-distribution', [T + m[0] for m in _SELF_MOMENTS], configs=_moment_cfgs(_SELF_MOMENTS, ''))
def c_moment_self(ctx, it, cfg):
    o, w, g = mk(ctx, it)
    wts = array(ctx, 'weights', (o.bins,)) if cfg['weighted'] else None
    args = ([cfg['order']] if cfg['give_order'] else []) + ([wts] if cfg['weighted'] else [])
    pre = snapshot(o)
    res = getattr(o, cfg['fn'])(*args)
    _check_moment(ctx, o, o.PSD, wts, cfg, res)
    frame(ctx, 'self', o, pre, modifies=[])


@REG.contract('changeSizeClasses/covers-populated-range', [T + 'changeSizeClasses', T + 'ThirdMoment', T + '__init__', T + 'reset'],
              configs=[dict(name='grid[1,13]x6-to-[1,13]x2', old=(1, 13, 6), new=(1, 13, 2)), dict(name='grid[1,13]x6-to-[1,25]x3', old=(1, 13, 6), new=(1, 25, 3))])
def c_change_small(ctx, it, cfg):
    """the property's own wording -- "re-meshing preserves the third moment exactly whenever the new grid covers the populated range" -- for concrete grid
    pairs and EVERY distribution on the old grid; np.interp is modelled exactly here (piecewise linear), the object is built by the real constructor"""
    P = it.get(PBM_MOD, 'PopulationBalanceModel')
    mn, mx, nold = cfg['old']
    o = P(mn, mx, nold, 1, 1000)
    p = [real(ctx, 'n%d' % i, lambda v: v >= 0) for i in range(nold)]
    o.fields['PSD'] = NP.array(p)
    b = [o.PSDbounds.get(i) for i in range(nold + 1)]
    cMin, cMax, nnew = cfg['new']
    newmax = max(10 * cMin, cMax)
    ctx.assume(and_(*[implies(p[i] > 0, and_(b[i] >= cMin, b[i + 1] <= newmax)) for i in range(nold)]))       # the new grid covers the populated range
    oldV = o.ThirdMoment()
    o.changeSizeClasses(cMin, cMax, nnew, False)
    newV = o.ThirdMoment()
    ctx.prove('third-moment-preserved-when-the-new-grid-covers-the-populated-range', eq(newV, oldV))
    ctx.prove('canary/volume-always-lost', eq(newV, 0), expect='refuted')


# ---------------------------------------------------------------------------------------------------
# BOUNDED stand-in (labelled; never counted as proved): "extending the grid leaves existing classes and populations untouched" and the representation
# invariant on objects reached from the real constructor by every sequence of <= 2 (quick) / <= 3 (thorough) public grid operations
c_add_history = REG.contract('bounded-history/addSizeClasses', [T + 'addSizeClasses', T + '__init__', T + 'reset', T + 'createBackup', T + 'revert', T + 'changeSizeClasses', T + 'UpdatePBMEuler'],
                             configs=history_configs(2, 3), bounded='operation sequences of length <= 2 (quick) / <= 3 (thorough) from the real constructor; arguments symbolic')(with_history(c_add))


@REG.contract('UpdatePBMEuler/recorded-history', [T + 'UpdatePBMEuler', T + 'record'], configs=[dict(name='adaptive-binning', ad=True), dict(name='fixed-binning', ad=False)])
def c_update_recorded(ctx, it, cfg):
    """with recording on, the row appended for a step holds the distribution as it is STORED for that step (classes below one particle already removed),
    the current class boundaries and the time; earlier rows are untouched.  Fixed binning: the grid is never re-meshed, so the class count may be below or above the
    configured maximum; the recorded rows are as wide as the widest grid seen so far (at least the configured maximum, which enableRecording allocates)"""
    k = integer(ctx, 'records', lambda v: v >= 1)
    o, w, g = mk(ctx, it)
    if cfg['ad']:
        mb = o.fields['maxBins']
        ctx.assume(o.bins <= mb)
    else:
        mb = integer(ctx, 'recorded_width')
        ctx.assume(mb >= o.fields['maxBins'])
    rt = array(ctx, 'rec_time', (k,))
    rb = array(ctx, 'rec_bins', (k, mb + 1))
    rp = array(ctx, 'rec_PSD', (k, mb))
    o.fields.update(_record=True, _adaptiveBinSize=cfg['ad'], _recordedTime=rt, _recordedBins=rb, _recordedPSD=rp)
    mb0 = mb                           # width of the recorded rows before this step
    if not cfg['ad']:
        mb = vmax(mb, o.bins)          # width after this step
    f_t, f_b, f_p = rt.snap(), rb.snap(), rp.snap()
    newN = array(ctx, 'newN', (o.bins,), fact=lambda v, i: v >= 0)
    n0 = newN.snap()
    time = real(ctx, 'time')
    o.UpdatePBMEuler(time, newN)
    T2, B2, P2 = o.fields['_recordedTime'], o.fields['_recordedBins'], o.fields['_recordedPSD']
    ctx.prove('one-row-appended', and_(eq(T2.shape[0], k + 1), eq(B2.shape[0], k + 1), eq(P2.shape[0], k + 1), eq(B2.shape[1], mb + 1), eq(P2.shape[1], mb)))
    ctx.prove('time-of-the-step-recorded', eq(T2.get(k), time))
    forall(ctx, 'recorded-distribution-is-the-stored-one', 0, o.bins, lambda i: and_(eq(P2.get(k, i), o.PSD.get(i)), eq(P2.get(k, i), ite(ge(n0(i), 1), n0(i), 0))))
    forall(ctx, 'recorded-boundaries-are-the-current-ones', 0, o.bins + 1, lambda i: eq(B2.get(k, i), o.PSDbounds.get(i)))
    forall(ctx, 'unused-columns-are-zero', o.bins, mb, lambda i: eq(P2.get(k, i), 0))
    r, c = integer(ctx, 'r', lambda v: v >= 0), integer(ctx, 'c', lambda v: v >= 0)
    ctx.assume(r < k)
    ctx.prove('earlier-rows-untouched', and_(eq(T2.get(r), f_t(r)), implies(c < mb0, eq(P2.get(r, c), f_p(r, c))), implies(c <= mb0, eq(B2.get(r, c), f_b(r, c)))), inst=[r, c])
    if not cfg['ad']:
        ctx.prove('earlier-rows-widened-with-zeros', and_(implies(and_(c >= mb0, c < mb), eq(P2.get(r, c), 0)), implies(and_(c > mb0, c <= mb), eq(B2.get(r, c), 0))), inst=[r, c])
