"""binary lookup table when the back end reports EVERY size class unstable (temperature above the solvus):
the code comment says the index should then sit at the end of the table so that growth is zero and the PSD dissolves;
np.argmax of an all-False array is 0, so the index is 0 and the sentinel -1 is used as a composition."""
import numpy as np, warnings
warnings.filterwarnings('ignore')
from kawin.precipitation import PrecipitateModel, MatrixParameters, PrecipitateParameters, TemperatureParameters
from kawin.precipitation.PrecipitationParameters import PrecipitationData

class Therm:
    numElements = 2
    def getInterfacialComposition(self, T, g=0, precPhase=None):
        g = np.atleast_1d(g)
        return np.squeeze(-1*np.ones(g.shape)), np.squeeze(-1*np.ones(g.shape))      # what BinaryThermodynamics returns when no tie-line exists
    def getInterdiffusivity(self, x, T, removeCache=True):
        return 1e-18
    def clearCache(self): pass

matrix = MatrixParameters(['ZR']); matrix.initComposition = 4e-3; matrix.volume.setVolume(1e-5, 'VM', 4)
prec = PrecipitateParameters('AL3ZR'); prec.gamma = 0.1; prec.volume.setVolume(1.1e-5, 'VM', 4)
m = PrecipitateModel(thermodynamics=Therm(), matrixParameters=matrix, precipitateParameters=[prec], temperatureParameters=TemperatureParameters(1200))
m.PBM[0].reset()
m._createLookupBinary(1200.)
print('RdrivingForceIndex =', m.RdrivingForceIndex, ' table size =', len(m.PSDXalpha[0]), ' table[:3] =', m.PSDXalpha[0][:3, 0])
Y = PrecipitationData(m.phases, m.elements, 1); Y.composition[0] = 4e-3; Y.temperature[0] = 1200.
g = m._singleGrowthBinary(0, Y)
print('growth rates (every class unstable):', g[:3], '... all positive:', bool(np.all(g > 0)))
assert m.RdrivingForceIndex[0] + 1 >= len(m.PSDXalpha[0]) and np.all(g == 0), 'C12: unstable precipitate reported as growing (sentinel -1 used as interfacial composition)'
