"""native demonstration of the defect repaired by the /repo commit 'fix: recording a size distribution with fixed binning ...':
PopulationBalanceModel.record() with recording on and adaptive binning off raised ValueError (negative pad width) when the grid had fewer
classes than the recorded rows.  Run with /venv/bin/python from anywhere; exits 0 on the repaired tree, 1 on the defective one."""
import sys
sys.path.insert(0, '/repo')
import numpy as np
from kawin.precipitation.PopulationBalance import PopulationBalanceModel

p = PopulationBalanceModel(1e-10, 1e-8, 50, 40, 80)       # 50 classes, recorded rows are allocated for maxBins = 80
p.setAdaptiveBinSize(False)
p.enableRecording()
try:
    p.UpdatePBMEuler(1.0, np.full(p.bins, 2.0))
except ValueError as e:
    print('DEFECT: record() failed with fixed binning:', e)
    sys.exit(1)
assert p._recordedPSD.shape == (2, 80) and np.all(p._recordedPSD[-1, :50] == 2.0) and np.all(p._recordedPSD[-1, 50:] == 0)
p.addSizeClasses(40)                                       # a fixed grid is never re-meshed: it may grow beyond maxBins
p.UpdatePBMEuler(2.0, np.full(p.bins, 3.0))
assert p._recordedPSD.shape == (3, 90) and np.all(p._recordedPSD[1, :50] == 2.0) and np.all(p._recordedPSD[1, 50:] == 0) and np.all(p._recordedPSD[-1] == 3.0)
print('OK: rows recorded with fixed binning, earlier rows widened with zeros')
