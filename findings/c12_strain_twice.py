"""KNOWN FINDING (C12): multicomponent growth subtracts the elastic energy twice.
volumetricDrivingForce returns dGv = dG_chem/Vm - e_s and nucleationBarrier puts the critical radius at R* = 2 gamma / dGv;
_singleGrowthMulti passes dGv*Vm as the driving force AND particleGibbs = Vm*(e_s + 2 gamma/R) as the Gibbs-Thomson energy, so the
growth rate is proportional to dG_chem - 2 Vm e_s - 2 gamma Vm / R and changes sign at 2 gamma/(dGv - e_s) > R*.
Run:  cd /repo && /venv/bin/python /verif/findings/c12_strain_twice.py      (exit 1 = defect present)"""
import sys, warnings
import numpy as np
warnings.filterwarnings('ignore')
from kawin.precipitation import PrecipitateModel, MatrixParameters, PrecipitateParameters, TemperatureParameters
from kawin.precipitation.PrecipitationParameters import PrecipitationData
from kawin.precipitation import NucleationRate as nr
from kawin.thermo.MultiTherm import _growthRateOutputFromCurvature, CurvatureOutput

CHEM = 2000.0          # J/mol, chemical driving force of the matrix
class Therm:
    numElements = 3
    def getDrivingForce(self, x, T, precPhase=None, removeCache=False):
        return np.array([CHEM]), np.array([[0.2, 0.05]])
    def getGrowthAndInterfacialComposition(self, x, T, dG, R, gExtra, precPhase=None, removeCache=False, searchDir=None):
        curv = CurvatureOutput(dc=np.array([1e-7, 1e-7]), mc=1e-20, gba=np.eye(2), beta=1., c_eq_alpha=np.array([0.05, 0.05]), c_eq_beta=np.array([0.2, 0.05]))
        return _growthRateOutputFromCurvature(np.atleast_1d(x), dG, R, gExtra, curv)      # the real growth law
    def clearCache(self): pass

matrix = MatrixParameters(['AL', 'CR']); matrix.initComposition = [0.1, 0.1]; matrix.volume.setVolume(1e-5, 'VM', 4)
prec = PrecipitateParameters('FCC_L12'); prec.gamma = 0.1; prec.volume.setVolume(1e-5, 'VM', 4)
prec.strainEnergy.setConstantElasticEnergy(5e7)      # J/m3
m = PrecipitateModel(thermodynamics=Therm(), matrixParameters=matrix, precipitateParameters=[prec], temperatureParameters=TemperatureParameters(1000))
m.PBM[0].changeSizeClasses(1e-10, 1e-8, 400); m._precBetaTemp = [None]; m.PSDXalpha = [None]; m.PSDXbeta = [None]
x, T = np.array([0.1, 0.1]), 1000.
_, volDG, _ = nr.volumetricDrivingForce(m.therm, x, T, prec, 1)
Rc, _ = nr.nucleationBarrier(volDG, prec, 1)
Y = PrecipitationData(m.phases, m.elements, 1); Y.composition[0] = x; Y.temperature[0] = T; Y.drivingForce[0, 0] = volDG
g, _, _ = m._singleGrowthMulti(0, Y)
R = m.PBM[0].PSDbounds
above = (R > Rc)
print('volumetric driving force %.4g J/m3, critical radius R* = %.4g m' % (volDG, Rc))
bad = above & (g <= 0)
print('classes above R* that do not grow: %d, radii from %.4g to %.4g m (= %.2f R*)' % (bad.sum(), R[bad].min() if bad.any() else 0, R[bad].max() if bad.any() else 0, (R[bad].max() / Rc) if bad.any() else 0))
sys.exit(1 if bad.any() else 0)
