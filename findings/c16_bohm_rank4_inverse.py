"""C16: does the fourth-rank Bohm route (StrainEnergy.compute for ellipsoids) reduce to the homogeneous-inclusion energy when precipitate and matrix stiffness
coincide, for a matrix rotation that is not a cubic symmetry operation?  Native run on the unmodified tree (run from /repo)."""
import os, sys, warnings
sys.path.insert(0, os.getcwd())
warnings.filterwarnings('ignore')
import numpy as np
from kawin.precipitation import StrainEnergy
from kawin.precipitation.parameters.ElasticFactors import invert4rankTensor, convert2To4rankTensor


def rotation(axis, angle):
    a = np.array(axis, float); a /= np.linalg.norm(a)
    K = np.array([[0, -a[2], a[1]], [a[2], 0, -a[0]], [-a[1], a[0], 0]])
    return np.eye(3) + np.sin(angle) * K + (1 - np.cos(angle)) * K @ K


worst = 0
for axis, ang in (((0, 0, 1), 0.0), ((0, 0, 1), np.pi / 4), ((1, 2, 3), 0.4), ((1, 0, 1), 0.7)):
    se = StrainEnergy()
    se.setElasticConstants(168.4e9, 121.4e9, 75.4e9)
    se.setRotationMatrix(rotation(axis, ang))
    se.setEllipsoidal()
    se.setEigenstrain([0.022, 0.010, 0.003])
    r = np.array([1, 1.3, 2.5]) * 3e-9
    d = se.description if hasattr(se, 'description') else se
    e4 = float(se.compute(r))
    e2 = float(d.strainEnergyBohm2ndRank(r))
    eh = float(d.strainEnergyEllipsoid(r))
    print('axis %s angle %.2f: Bohm(4th rank) %.8e  Bohm(6x6) %.8e  homogeneous %.8e   rel.dev 4th rank %.2e  6x6 %.2e' % (axis, ang, e4, e2, eh, abs(e4 / eh - 1), abs(e2 / eh - 1)))
    worst = max(worst, abs(e4 / eh - 1))
    # is invert4rankTensor a fourth-rank inverse?  A:inv(A) should be the symmetric identity
    A = se.params.cMatrix_4th
    Ai = invert4rankTensor(A)
    I4 = np.einsum('ijkl,klmn->ijmn', A, Ai)
    Is = 0.5 * (np.einsum('ik,jl->ijkl', np.eye(3), np.eye(3)) + np.einsum('il,jk->ijkl', np.eye(3), np.eye(3)))
    print('    max |A:inv4(A) - I_sym| = %.3e' % np.abs(I4 - Is).max())
sys.exit(1 if worst > 1e-6 else 0)
