"""OBSERVATION (C16, outside the decided part): the node set returned by kawin.precipitation.parameters.LebedevNodes.loadPoints is not an exact
quadrature on the sphere even for degree 2: <z^2> = 0.328632 and <x^2> = 0.335684 instead of 1/3 (the same 5810 nodes are returned for every order).
Reported by an independent reviewer while preparing seeded changes; reproduced here.  The Eshelby quadrature numerics are an UNDECIDED conjunct of C16
(no contract covers them), so this is recorded as an observation, not as a known finding of a check.
Run:  cd /repo && /venv/bin/python /verif/findings/c16_lebedev.py   (exit 1 = observation reproduced)"""
import sys, warnings
import numpy as np
warnings.filterwarnings('ignore')
from kawin.precipitation.parameters.LebedevNodes import loadPoints
phi, theta, w = np.array(loadPoints(131))
z, x = np.cos(theta), np.sin(theta) * np.cos(phi)
mz, mx = (w * z ** 2).sum() / w.sum(), (w * x ** 2).sum() / w.sum()
print('nodes %d  <z^2> = %.6f  <x^2> = %.6f  (exact 1/3 = 0.333333)' % (len(w), mz, mx))
sys.exit(1 if abs(mz - 1 / 3) > 1e-6 else 0)
